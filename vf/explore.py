"""Engine A: CrossHair 0.0.110 used as a library, driven by our own explorer.

One *harness* is a function ``h(sym)`` that builds symbolic inputs through ``sym``,
runs real code from /repo and asserts the property.  ``explore`` enumerates the
feasible paths of the harness; every branch on a symbolic condition is a solver
query (z3, through CrossHair's StateSpace).  The verdict is

* HOLDS     decision tree exhausted, no failing path, no unknown/timeout path
* REFUTED   a path failed and its solver model reproduces the failure concretely
* PARTIAL   budget ended before exhaustion (no failing path so far)
* INCONCLUSIVE  unknown paths / timeouts / non-reproducing counterexample

The same harness function is run concretely (``ConcreteSym``) for replay.
"""
import fractions
import hashlib
import json
import math
import os
import struct
import sys
import time
import traceback

import z3

from crosshair.core import Patched, ExceptionFilter, NotDeterministic
from crosshair.core_and_libs import _make_registrations
from crosshair.condition_parser import condition_parser
from crosshair.options import AnalysisKind
from crosshair.statespace import (RootNode, StateSpace, StateSpaceContext, CallAnalysis,
                                  VerificationStatus, context_statespace)
from crosshair.tracers import COMPOSITE_TRACER, NoTracing, ResumedTracing, is_tracing
from crosshair.util import IgnoreAttempt, UnexploredPath
from crosshair.libimpl.builtinslib import (SymbolicInt, SymbolicBool, PreciseIeeeSymbolicFloat,
                                           RealBasedSymbolicFloat, ModelingDirector, SymbolicFloat)

_make_registrations()
from vf.plugins import install as _install_plugins  # noqa: E402
_install_plugins()

F64 = z3.Float64()

# ---- solver portfolio behind every CrossHair fork: the incremental "smt"-tactic solver CrossHair uses is weak on
# floating point; when it answers unknown we re-ask a fresh z3 solver (default tactic pipeline) and then cvc5.
import crosshair.statespace as _ss   # noqa: E402
from crosshair.util import UnknownSatisfiability   # noqa: E402
PORTFOLIO = {'fallbacks': 0, 'fallback_s': 0.0, 'timeout_s': 60.0 * float(os.environ.get('VERIF_PROVE_SCALE', '1') or 1), 'backends': set()}


def _solver_is_sat(solver, *exprs):
    ret = solver.check(*exprs)
    if ret == z3.unknown:
        if solver.reason_unknown() == 'interrupted from keyboard':
            raise KeyboardInterrupt
        from vf import portfolio
        t0 = time.time()
        r, backend = portfolio.check_unsat(list(solver.assertions()), timeout_s=PORTFOLIO['timeout_s'], extra=list(exprs))
        PORTFOLIO['fallbacks'] += 1
        PORTFOLIO['fallback_s'] += time.time() - t0
        PORTFOLIO['backends'].add(backend)
        if r == 'unknown':
            raise UnknownSatisfiability
        return r == 'sat'
    return ret == z3.sat


_ss.solver_is_sat = _solver_is_sat


class Inconclusive(Exception):
    """Raised by a harness when it cannot decide (bound too small etc.). Never a violation."""


class Yield(BaseException):
    """Used by environment stubs to leave a thread body at a blocking call."""


def _z3_to_py(m, kind, var):
    v = m.eval(var, model_completion=True)
    if kind == 'int':
        return v.as_long()
    if kind == 'bool':
        return bool(z3.is_true(v))
    if kind == 'f64':
        bv = m.eval(z3.fpToIEEEBV(var), model_completion=True)
        if z3.is_bv_value(bv):
            return struct.unpack('<d', struct.pack('<Q', bv.as_long()))[0]
        # NaN: fpToIEEEBV of NaN is unspecified
        if z3.is_true(m.eval(z3.fpIsNaN(var), model_completion=True)):
            return float('nan')
        raise Inconclusive('cannot evaluate fp value')
    if kind == 'real':
        if z3.is_rational_value(v):
            return fractions.Fraction(v.numerator_as_long(), v.denominator_as_long())
        if z3.is_algebraic_value(v):
            a = v.approx(30)
            return fractions.Fraction(a.numerator_as_long(), a.denominator_as_long())
        raise Inconclusive('cannot evaluate real value')
    raise AssertionError(kind)


def jsonable(v):
    if isinstance(v, fractions.Fraction):
        return {'frac': [v.numerator, v.denominator]}
    if isinstance(v, float):
        if v != v:
            return {'f64': 'nan'}
        return {'f64': struct.unpack('<Q', struct.pack('<d', v))[0]}
    if isinstance(v, (list, tuple)):
        return [jsonable(x) for x in v]
    if isinstance(v, dict):
        return {k: jsonable(x) for k, x in v.items()}
    return v


def unjson(v):
    if isinstance(v, dict):
        if set(v) == {'frac'}:
            return fractions.Fraction(v['frac'][0], v['frac'][1])
        if set(v) == {'f64'}:
            if v['f64'] == 'nan':
                return float('nan')
            return struct.unpack('<d', struct.pack('<Q', v['f64']))[0]
        return {k: unjson(x) for k, x in v.items()}
    if isinstance(v, list):
        return [unjson(x) for x in v]
    return v


def readable(vals):
    """Inputs as plain numbers for evidence samples / messages."""
    out = {}
    for k, v in vals.items():
        if isinstance(v, fractions.Fraction):
            out[k] = float(v) if v.denominator != 1 else int(v)
            if out[k] != v:
                out[k] = f'{v.numerator}/{v.denominator}'
        elif isinstance(v, float) and (v != v or v in (float('inf'), float('-inf'))):
            out[k] = repr(v)
        else:
            out[k] = v
    return out


class BaseSym:
    symbolic = False

    def __init__(self, bounds=None, known=()):
        self.B = dict(bounds or {})
        self.known = list(known)       # known-finding predicates to exclude (python expressions over input names)
        self.only = None               # predicate to restrict to (witness search for a known finding)
        self.goals = []
        self.notes = {}

    # --- helpers shared by both modes
    def bytes(self, name, n):
        return [self.int(f'{name}{i}', 0, 255) for i in range(n)]

    def goal(self, name):
        if name not in self.goals:
            self.goals.append(name)

    def note(self, k, v):
        self.notes[k] = v

    def apply_known(self, env=None):
        """Call once all inputs that the known-finding predicates mention exist.
        Excludes the listed regions (or restricts to one, when searching its witness)."""
        ns = dict(self.values_ns())
        if env:
            ns.update(env)
        if self.only is not None:
            self.assume(eval(self.only, {'__builtins__': {'any': any, 'all': all, 'range': range, 'len': len}}, ns))
        for pred in self.known:
            self.assume(not eval(pred, {'__builtins__': {'any': any, 'all': all, 'range': range, 'len': len}}, ns))


class ConcreteSym(BaseSym):
    """Replays recorded values by name on plain CPython."""

    def __init__(self, values, bounds=None, known=()):
        super().__init__(bounds, known)
        self.values = dict(values)
        self.used = {}

    def _get(self, name):
        if name not in self.values:
            raise Inconclusive(f'replay: no value recorded for input {name!r}')
        self.used[name] = self.values[name]
        return self.values[name]

    def int(self, name, lo, hi):
        v = int(self._get(name))
        if not lo <= v <= hi:
            raise IgnoreAttempt(f'{name} out of range')
        return v

    def bool(self, name):
        return bool(self._get(name))

    def choice(self, name, n):
        return self.int(name, 0, n - 1)

    def f64(self, name, finite=False, lo=None, hi=None):
        v = self._get(name)
        return float(v)

    def real(self, name, lo=None, hi=None):
        v = self._get(name)
        return float(v)

    def assume(self, cond):
        if not cond:
            raise IgnoreAttempt('assumption false')

    def values_ns(self):
        return self.used

    def prove(self, cond, what=''):
        assert cond, what

    def constrain_eq(self, a, b, tol=1e-6):
        """Input constraint a == b (a solver assumption in symbolic mode; tolerant on replay, where an irrational model
        value has been approximated)."""
        if abs(a - b) > tol * (1 + abs(b)):
            raise IgnoreAttempt('constraint not met by the replayed values')

    def constrain(self, cond):
        if not cond:
            raise IgnoreAttempt('constraint not met by the replayed values')

    def close(self, a, b, tol=1e-6):
        """Property-side equality: exact in symbolic mode, tolerant on concrete replay."""
        return abs(a - b) <= tol * (1 + abs(b))


class Sym(BaseSym):
    """Creates solver variables; constraints are solver assumptions, not forks."""
    symbolic = True

    def __init__(self, space, bounds=None, known=(), float_model='ieee'):
        super().__init__(bounds, known)
        self.space = space
        self.inputs = {}     # name -> (kind, z3 var, python proxy)
        self.float_model = float_model
        self.obligations = 0
        self.discharged = 0
        self.portfolio_s = 0.0
        self.backends = set()

    def _reg(self, name, kind, var, proxy):
        assert name not in self.inputs, f'duplicate input {name}'
        self.inputs[name] = (kind, var, proxy)
        return proxy

    def int(self, name, lo, hi):
        with NoTracing():
            v = SymbolicInt(name + self.space.uniq())
            self.space.add(z3.And(v.var >= lo, v.var <= hi))
            return self._reg(name, 'int', v.var, v)

    def bool(self, name):
        with NoTracing():
            v = SymbolicBool(name + self.space.uniq())
            return self._reg(name, 'bool', v.var, v)

    def choice(self, name, n):
        """Symbolic int in range(n), forked into a concrete value (used to select kinds)."""
        v = self.int(name, 0, n - 1)
        for i in range(n - 1):
            if v == i:
                return i
        return n - 1

    def f64(self, name, finite=False, lo=None, hi=None):
        with NoTracing():
            v = PreciseIeeeSymbolicFloat(name + self.space.uniq())
            if finite:
                self.space.add(z3.Not(z3.Or(z3.fpIsNaN(v.var), z3.fpIsInf(v.var))))
            if lo is not None:
                self.space.add(z3.fpGEQ(v.var, z3.FPVal(lo, F64)))
            if hi is not None:
                self.space.add(z3.fpLEQ(v.var, z3.FPVal(hi, F64)))
            return self._reg(name, 'f64', v.var, v)

    def real(self, name, lo=None, hi=None):
        with NoTracing():
            v = RealBasedSymbolicFloat(name + self.space.uniq())
            if lo is not None:
                self.space.add(v.var >= z3.RealVal(str(lo)))
            if hi is not None:
                self.space.add(v.var <= z3.RealVal(str(hi)))
            return self._reg(name, 'real', v.var, v)

    def assume(self, cond):
        if not cond:
            raise IgnoreAttempt('assumption false')

    def values_ns(self):
        return {k: p for k, (_, _, p) in self.inputs.items()}

    def constrain_eq(self, a, b, tol=None):
        self.constrain(a == b)

    def constrain(self, cond):
        """Add a symbolic condition as a solver assumption WITHOUT forking (the reachability twin guards vacuity)."""
        with NoTracing():
            if isinstance(cond, SymbolicBool):
                self.space.add(cond.var)
                return
        if not cond:
            raise IgnoreAttempt('constraint false')

    def close(self, a, b, tol=None):
        r = a == b
        with NoTracing():
            if isinstance(r, SymbolicBool) and isinstance(a, RealBasedSymbolicFloat):
                bv = b.var if isinstance(b, RealBasedSymbolicFloat) else (z3.RealVal(repr(float(b))) if isinstance(b, (int, float)) else None)
                if bv is not None:
                    self._closes = getattr(self, '_closes', {})
                    self._closes[r.var.get_id()] = (r.var, a.var, bv)
        return r

    def model_values(self, budget_s=None):
        """A concrete assignment of all inputs satisfying the current path condition.
        budget_s: for witnesses/samples of passing paths (nice to have): one fresh solver with a short timeout."""
        with NoTracing():
            if budget_s is not None:
                s = z3.Solver()
                s.set('timeout', int(budget_s * 1000))
                s.add(*self.space.solver.assertions())
                r = s.check()
            else:
                s = self.space.solver
                r = s.check()
                if str(r) != 'sat':
                    # incremental solver gave up: ask a fresh solver (default tactics)
                    s = z3.Solver()
                    s.set('timeout', int(PORTFOLIO['timeout_s'] * 1000))
                    s.add(*self.space.solver.assertions())
                    r = s.check()
            if str(r) != 'sat':
                raise Inconclusive(f'model query returned {r}')
            m = s.model()
            return {k: _z3_to_py(m, kind, var) for k, (kind, var, _) in self.inputs.items()}

    # ---- portfolio obligations
    def prove(self, cond, what=''):
        """Discharge `cond` under the current path condition with z3, then cvc5.
        unsat(not cond) -> assume cond and go on; sat -> fail the path; unknown -> Inconclusive."""
        from vf import portfolio
        with NoTracing():
            if isinstance(cond, bool):
                assert cond, what
                return
            assert isinstance(cond, SymbolicBool), type(cond)
            self.obligations += 1
            t0 = time.time()
            scale = float(os.environ.get('VERIF_PROVE_SCALE', '1') or 1)      # the runner retries an undecided harness once with longer solver timeouts
            # 1. as an unconditional identity (no path condition at all: stronger, and much easier for nlsat)
            res, backend = 'unknown', 'none'
            if self.B.get('prove_identity_first', True):
                res, backend = portfolio.check_unsat([z3.Not(cond.var)], timeout_s=self.B.get('prove_identity_timeout', 10),
                                                     use_cvc5=False)
                if res == 'sat':
                    res = 'unknown'      # not an identity; needs the assumptions
            # 1b. from growing relevance-filtered subsets of the path condition (sound: fewer assumptions); only `unsat` counts
            if res != 'unsat' and self.B.get('prove_relevance'):
                excl = {str(var) for (_, var, _) in self.inputs.values()}
                for sub in portfolio.relevance_subsets(list(self.space.solver.assertions()), [cond.var], excl,
                                                       hops=self.B.get('prove_relevance_hops', (1, 2))):
                    res, backend = portfolio.check_unsat(sub + [z3.Not(cond.var)], use_cvc5=self.B.get('prove_relevance_cvc5', False),
                                                         timeout_s=scale * self.B.get('prove_relevance_timeout', 10))
                    if res == 'unsat':
                        break
                    res = 'unknown'
            # 2. under the path condition (sliced to the cone of influence)
            if res != 'unsat':
                res, backend = portfolio.check_unsat(list(self.space.solver.assertions()), extra=[z3.Not(cond.var)],
                                                     timeout_s=scale * self.B.get('prove_timeout', 60), order=self.B.get('prove_order', 'z3'),
                                                     z3_timeout_s=(scale * self.B['prove_z3_timeout']) if self.B.get('prove_z3_timeout') else None)
            self.portfolio_s += time.time() - t0
            self.backends.add(backend)
            if res == 'unsat':
                self.discharged += 1
                self.space.add(cond.var)
                return
            if res == 'sat':
                # let the engine pick this branch: add the negation and fail.  For an equality made by close(): prefer a
                # counterexample in which the two sides differ by a margin, so that it survives the tolerance of the concrete replay
                pair = getattr(self, '_closes', {}).get(cond.var.get_id())
                margin = self.B.get('cex_margin')
                if pair is not None and margin:
                    _, av, bv = pair
                    far = z3.Or(av - bv > z3.RealVal(repr(margin)), bv - av > z3.RealVal(repr(margin)))
                    r2, _ = portfolio.check_unsat(list(self.space.solver.assertions()), extra=[far], timeout_s=20, use_cvc5=False)
                    if r2 == 'sat':
                        self.space.add(far)
                        raise AssertionError('obligation refuted: ' + what)
                self.space.add(z3.Not(cond.var))
                raise AssertionError('obligation refuted: ' + what)
            raise Inconclusive(f'obligation undecided by all back ends: {what}')


def _fmt_exc(exc, stack):
    frames = [f'{os.path.basename(f.filename)}:{f.lineno}:{f.name}' for f in stack][-8:]
    try:
        msg = str(exc)[:300]
    except BaseException:
        msg = '<unprintable>'
    return {'type': type(exc).__name__, 'msg': msg, 'frames': frames}


def run_concrete(harness, values, bounds=None, known=()):
    """Run the harness on plain CPython. Returns (outcome, info): outcome in
    'pass' | 'fail' | 'ignored' | 'inconclusive'."""
    sym = ConcreteSym(values, bounds, known)
    try:
        harness(sym)
    except IgnoreAttempt:
        return 'ignored', {}
    except Inconclusive as e:
        return 'inconclusive', {'msg': str(e)}
    except Exception as e:
        tb = traceback.extract_tb(sys.exc_info()[2])
        return 'fail', _fmt_exc(e, tb)
    return 'pass', {'goals': sym.goals}


def explore(harness, bounds=None, timeout=60.0, per_path=20.0, max_paths=10**7, float_model='ieee',
            known=(), only=None, want_goals=(), stop_on_first=True, n_samples=3, smt_timeout=None, replay_passed=False):
    """Explore all paths of harness(sym). Returns a result dict."""
    root = RootNode()
    t0 = time.process_time()
    w0 = time.time()
    res = dict(paths=0, passed=0, unknown=0, ignored=0, nontrivial=0, exhausted=False, failures=[],
               nonrepro=[], goals={}, samples=[], obligations=0, discharged=0, inconclusive=[],
               portfolio_s=0.0, backends=[], max_decisions=0)
    fmodel = PreciseIeeeSymbolicFloat if float_model == 'ieee' else RealBasedSymbolicFloat
    backends = set()
    for _ in range(max_paths):
        now = time.process_time()
        if now - t0 > timeout:
            break
        space = StateSpace(execution_deadline=now + per_path, model_check_timeout=smt_timeout or per_path / 2,
                           search_root=root)
        failure = None
        with condition_parser([AnalysisKind.PEP316]), Patched(), COMPOSITE_TRACER, NoTracing(), StateSpaceContext(space):
            sym = Sym(space, bounds, known, float_model)
            sym.only = only
            space.extra(ModelingDirector).global_representations[float] = fmodel
            status = None
            try:
                with ExceptionFilter() as ef, ResumedTracing():
                    harness(sym)
                if ef.user_exc:
                    exc, stack = ef.user_exc
                    if isinstance(exc, NotDeterministic):
                        raise exc
                    if isinstance(exc, Inconclusive):
                        res['inconclusive'].append(str(exc)[:200])
                        status = VerificationStatus.UNKNOWN
                        res['unknown'] += 1
                    else:
                        info = _fmt_exc(exc, stack)
                        try:
                            vals = sym.model_values()
                            failure = (vals, info)
                        except Inconclusive as e:
                            res['inconclusive'].append('cex model: ' + str(e))
                        status = VerificationStatus.CONFIRMED   # path is done; verdict is ours
                        res['passed'] += 0
                elif ef.ignore:
                    status = None
                    res['ignored'] += 1
                else:
                    status = VerificationStatus.CONFIRMED
                    res['passed'] += 1
                    if replay_passed:
                        # differential guard: the inputs of a path that passed under the engine are run on plain CPython as well
                        # (the engine models some library features differently, e.g. it bypasses functools.lru_cache)
                        try:
                            passed_vals = sym.model_values(budget_s=20)
                        except Inconclusive as e:
                            res['inconclusive'].append('replay of a passed path: ' + str(e))
                    # coverage goals and samples
                    newgoals = [g for g in sym.goals if g not in res['goals']]
                    if newgoals or len(res['samples']) < n_samples:
                        try:
                            vals = sym.model_values(budget_s=10)
                            for g in newgoals:
                                res['goals'][g] = readable(vals)
                            if len(res['samples']) < n_samples:
                                res['samples'].append(readable(vals))
                        except Inconclusive:
                            # the path was feasible (every fork on it was decided sat); only the witness values are missing
                            for g in newgoals:
                                res['goals'][g] = 'reached on a feasible path (model extraction timed out)'
                        except Exception:
                            for g in newgoals:
                                res['goals'][g] = 'reached on a feasible path (model extraction failed)'
            except IgnoreAttempt:
                status = None
                res['ignored'] += 1
            except UnexploredPath as e:
                status = VerificationStatus.UNKNOWN
                res['unknown'] += 1
                res['inconclusive'].append(f'{type(e).__name__}: {str(e)[:160]}')
            res['obligations'] += sym.obligations
            res['discharged'] += sym.discharged
            res['portfolio_s'] += sym.portfolio_s
            backends |= sym.backends
            ndec = len(space.choices_made)
            res['max_decisions'] = max(res['max_decisions'], ndec)
            if ndec > 0 and status is not None:
                res['nontrivial'] += 1
            _, exhausted = space.bubble_status(CallAnalysis(status))
        res['paths'] += 1
        if replay_passed and failure is None and status == VerificationStatus.CONFIRMED and 'passed_vals' in dir():
            outcome, cinfo = run_concrete(harness, passed_vals, bounds, known)
            if outcome == 'fail':
                failure = (passed_vals, {'type': 'none', 'msg': 'the path passed under the engine; the same inputs fail on plain CPython', 'frames': []})
            del passed_vals
        if failure is not None:
            vals, info = failure
            outcome, cinfo = run_concrete(harness, vals, bounds, known)
            rec = {'inputs': jsonable(vals), 'readable': readable(vals), 'symbolic_failure': info,
                   'concrete': outcome, 'concrete_failure': cinfo}
            if outcome == 'fail':
                res['failures'].append(rec)
                if stop_on_first:
                    break
            else:
                res['nonrepro'].append(rec)
        if exhausted:
            res['exhausted'] = True
            break
    res['cpu_s'] = round(time.process_time() - t0, 2)
    res['wall_s'] = round(time.time() - w0, 2)
    res['backends'] = sorted(backends | PORTFOLIO['backends'] | {'z3-' + z3.get_version_string()})
    res['portfolio_fallbacks'] = PORTFOLIO['fallbacks']
    res['portfolio_s'] = round(res['portfolio_s'] + PORTFOLIO['fallback_s'], 2)
    if res['failures']:
        res['verdict'] = 'REFUTED'
    elif res['nonrepro'] or res['unknown'] or res['inconclusive']:
        res['verdict'] = 'INCONCLUSIVE'
    elif res['exhausted']:
        res['verdict'] = 'HOLDS'
    else:
        res['verdict'] = 'PARTIAL'
    return res
