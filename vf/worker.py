"""Runs one harness (main exploration + known-finding witnesses + reachability twins) in its own process.
usage: python -m vf.worker <PID> <harness> <tier>   -> one JSON document on stdout (last line)"""
import hashlib
import json
import logging
import os
import sys
import time

logging.disable(logging.CRITICAL)
sys.setrecursionlimit(10000)


def known_for(pid, hname):
    path = os.path.join(os.path.dirname(os.path.dirname(os.path.abspath(__file__))), 'known_findings.json')
    try:
        doc = json.load(open(path))
    except FileNotFoundError:
        return []
    out = []
    for f in doc.get('findings', []):
        if f['property'] == pid and (f['harness'] == hname or hname.startswith(f['harness'] + '[')):
            out.append(f)
    return out


def smt_main(pid, h, tier, known, t0):
    """Engine B harness: direct solver queries; known findings as z3-python predicates."""
    res = h.run(tier, known=[k['predicate'] for k in known])
    res.update(harness=h.name, tier=tier, bounds=h.bounds[tier], symbolic=h.symbolic, note=h.note, known=[], replays=[])
    root = os.path.dirname(os.path.dirname(os.path.abspath(__file__)))
    for f in res['failures']:
        blob = json.dumps({'property': pid, 'harness': h.name, 'tier': tier, 'inputs': f['inputs'],
                           'failure': f['concrete_failure']}, sort_keys=True)
        rp = os.path.join(root, 'replays', f'{pid}-{h.name}-{hashlib.sha1(blob.encode()).hexdigest()[:10]}.json')
        os.makedirs(os.path.dirname(rp), exist_ok=True)
        open(rp, 'w').write(blob)
        res['replays'].append(rp)
    for k in known:
        w = h.run(tier, only=k['predicate'])
        res['known'].append({'what': k['what'], 'predicate': k['predicate'], 'witnessed': w['verdict'] == 'REFUTED',
                             'witness': (w['failures'][0]['readable'] if w['failures'] else None),
                             'verdict': w['verdict'], 'paths': w['paths']})
        res['paths'] += w['paths']
    res['total_wall_s'] = round(time.time() - t0, 2)
    print(json.dumps(res, default=str))


def main():
    pid, hname, tier = sys.argv[1:4]
    t0 = time.time()
    if pid == '_selfcheck':
        from vf.plugins import selfcheck
        from vf.explore import explore
        r = explore(getattr(selfcheck, hname), timeout=600, per_path=600)
        out = {'harness': '_selfcheck.' + hname, 'verdict': r['verdict'], 'cpu_s': r['cpu_s'],
               'detail': (r['failures'][:1] or r['nonrepro'][:1] or r['inconclusive'][:1])}
        print(json.dumps(out))
        return
    from vf.env.base import patch_threads
    patch_threads()
    from vf.harness import load, Reached
    from vf.explore import explore, run_concrete, unjson
    mod = load(pid)
    h = next(x for x in mod.HARNESSES if x.name == hname)
    known = known_for(pid, hname)
    preds = [k['predicate'] for k in known]
    seed = int(os.environ.get('VERIF_SEED', '0') or 0)
    import random
    random.seed(seed)
    budget = float(os.environ.get('VERIF_TIMEOUT_SCALE', '1')) * h.timeout[tier]
    if getattr(h, 'kind', '') == 'smt':
        return smt_main(pid, h, tier, known, t0)
    res = explore(h.body(tier), bounds={}, timeout=budget, per_path=h.per_path, max_paths=h.max_paths,
                  float_model=h.float_model, known=preds, smt_timeout=h.smt_timeout, replay_passed=getattr(h, 'replay_all', False))
    res['harness'] = hname
    res['tier'] = tier
    res['bounds'] = h.bounds[tier]
    res['symbolic'] = h.symbolic
    res['note'] = h.note
    res['known'] = []
    res['replays'] = []
    root = os.path.dirname(os.path.dirname(os.path.abspath(__file__)))
    for f in res['failures']:
        blob = json.dumps({'property': pid, 'harness': hname, 'tier': tier, 'inputs': f['inputs'],
                           'failure': f['concrete_failure']}, sort_keys=True)
        hsh = hashlib.sha1(blob.encode()).hexdigest()[:10]
        rp = os.path.join(root, 'replays', f'{pid}-{hname.replace("/", "_")}-{hsh}.json')
        os.makedirs(os.path.dirname(rp), exist_ok=True)
        with open(rp, 'w') as fh:
            fh.write(blob)
        res['replays'].append(rp)
    # known findings: each must still be witnessed inside its predicate
    for k in known:
        w = explore(h.body(tier), bounds={}, timeout=budget, per_path=h.per_path, float_model=h.float_model,
                    only=k['predicate'], smt_timeout=h.smt_timeout)
        res['known'].append({'what': k['what'], 'predicate': k['predicate'], 'witnessed': w['verdict'] == 'REFUTED',
                             'witness': (w['failures'][0]['readable'] if w['failures'] else None),
                             'failure': (w['failures'][0]['concrete_failure'] if w['failures'] else None),
                             'verdict': w['verdict'], 'paths': w['paths']})
        res['paths'] += w['paths']
        res['nontrivial'] += w['nontrivial']
    # reachability twins (vacuity guard): end of body, plus every declared coverage goal
    res['twins'] = {}
    if h.twin and not res['failures']:
        for goal in (None,) + tuple(h.goals):
            if goal is None and res['passed'] > 0:
                res['twins']['end'] = 'witnessed'      # some path ran the whole body to its end
                continue
            if goal is not None and goal in res['goals']:
                res['twins'][goal] = 'witnessed'
                continue
            w = explore(h.twin_body(tier, goal), bounds={}, timeout=max(60.0, budget / 2), per_path=h.per_path,
                        float_model=h.float_model, known=preds, smt_timeout=h.smt_timeout)
            ok = bool(w['failures']) and w['failures'][0]['concrete_failure'].get('type') == 'Reached'
            res['twins'][goal or 'end'] = 'witnessed' if ok else 'NOT-REACHED'
            if ok and goal is not None:
                res['goals'][goal] = w['failures'][0]['readable']
            if ok and not res['samples']:
                res['samples'].append(w['failures'][0]['readable'])
    res['total_wall_s'] = round(time.time() - t0, 2)
    print(json.dumps(res, default=str))


def _function_coverage(path):
    """Development aid (VERIF_FUNCCOV=<dir>): records which functions of the analysed repository are entered, through a
    sys.monitoring tool of its own (independent of CrossHair's).  Not used by the registered commands."""
    import atexit
    mon = sys.monitoring
    tool = 3
    repo = os.path.realpath(os.environ.get('VERIF_REPO', '/repo')) + os.sep
    seen = set()

    def on_start(code, offset):
        fn = code.co_filename
        if fn.startswith(repo):
            seen.add((fn[len(repo):], code.co_qualname))
        return mon.DISABLE
    mon.use_tool_id(tool, 'vf-funccov')
    mon.register_callback(tool, mon.events.PY_START, on_start)
    mon.set_events(tool, mon.events.PY_START)

    def dump():
        os.makedirs(path, exist_ok=True)
        name = hashlib.sha1(' '.join(sys.argv[1:]).encode()).hexdigest()[:12]
        with open(os.path.join(path, name + '.json'), 'w') as f:
            json.dump({'argv': sys.argv[1:], 'functions': sorted(seen)}, f)
    atexit.register(dump)


if __name__ == '__main__':
    if os.environ.get('VERIF_FUNCCOV'):
        _function_coverage(os.environ['VERIF_FUNCCOV'])
    main()
