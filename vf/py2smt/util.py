"""Helpers for Engine B harnesses: concrete evaluation of the formula (translator validation), term conversion."""
import struct

import z3

from vf.py2smt.interp import Interp, IntV, FloatV, BoolV, ListV, TupleV, NoneV, F64, W


def term_to_py(v):
    if isinstance(v, IntV):
        t = z3.simplify(v.t)
        if not z3.is_bv_value(t):
            raise ValueError('non-constant int term')
        return t.as_signed_long()
    if isinstance(v, FloatV):
        if z3.is_true(z3.simplify(z3.fpIsNaN(v.t))):
            return float('nan')
        b = z3.simplify(z3.fpToIEEEBV(v.t))
        if not z3.is_bv_value(b):
            raise ValueError('non-constant float term')
        return struct.unpack('<d', struct.pack('<Q', b.as_long()))[0]
    if isinstance(v, BoolV):
        return bool(z3.is_true(z3.simplify(v.t)))
    if isinstance(v, (ListV, TupleV, list, tuple)):
        return [term_to_py(x) for x in v]
    if isinstance(v, dict):
        return {k: term_to_py(x) for k, x in v.items()}
    if isinstance(v, NoneV):
        return None
    return v


def py_to_val(x):
    if isinstance(x, bool):
        return BoolV(z3.BoolVal(x))
    if isinstance(x, int):
        return IntV.const(x)
    if isinstance(x, float):
        bits = struct.unpack('<Q', struct.pack('<d', x))[0]
        return FloatV(z3.fpBVToFP(z3.BitVecVal(bits, 64), F64))
    if isinstance(x, (list, tuple)):
        return ListV(py_to_val(e) for e in x)
    return x


def formula_eval(fn, args, unwind=16, **kw):
    """Run the translated function on constants: one path, decisions constant-fold. -> ('return', value) | ('raise', name)"""
    it = Interp(fn, unwind=unwind, **kw)
    paths = it.explore(lambda: [py_to_val(a) for a in args])
    assert len(paths) == 1, f'{len(paths)} paths on constant input'
    p = paths[0]
    if p.kind == 'raise':
        return ('raise', p.exc)
    return ('return', term_to_py(p.value))


def real_eval(fn, args):
    try:
        return ('return', fn(*args))
    except Exception as e:
        n = type(e).__name__
        return ('raise', 'struct.error' if n == 'error' else n)


def same_f64(a, b):
    """Bit-identical (NaN ~ NaN, payload ignored)."""
    return z3.Or(z3.And(z3.fpIsNaN(a), z3.fpIsNaN(b)), z3.And(z3.Not(z3.fpIsNaN(a)), z3.Not(z3.fpIsNaN(b)), z3.fpToIEEEBV(a) == z3.fpToIEEEBV(b)))


def py_same_float(a, b):
    import math
    if not isinstance(a, float) or not isinstance(b, float):
        return False
    if a != a or b != b:
        return a != a and b != b
    return a == b and math.copysign(1, a) == math.copysign(1, b)
