"""Engine B harnesses: direct solver queries over formulas generated from the current source (no CrossHair)."""
import json
import struct
import time

import z3

from vf.harness import Harness
from vf import portfolio


class SmtCtx:
    def __init__(self, bounds, known=(), only=None):
        self.B = dict(bounds)
        self.known = list(known)
        self.only = only
        self.res = dict(paths=0, passed=0, unknown=0, ignored=0, nontrivial=0, exhausted=True, failures=[], nonrepro=[],
                        goals={}, samples=[], obligations=0, discharged=0, inconclusive=[], portfolio_s=0.0,
                        backends=set(), max_decisions=0, validation_vectors=0)
        self.t0 = time.time()
        self.c0 = time.process_time()

    def goal(self, name, witness=None):
        self.res['goals'].setdefault(name, witness if witness is not None else True)

    def sample(self, s):
        if len(self.res['samples']) < 4:
            self.res['samples'].append(s)

    def exclusions(self, ns):
        """z3 constraints for known findings (predicates are z3-python expressions over the input names)."""
        env = {'Or': z3.Or, 'And': z3.And, 'Not': z3.Not, 'ULT': z3.ULT, 'UGE': z3.UGE, 'Extract': z3.Extract}
        env.update(ns)
        out = [z3.Not(eval(p, {'__builtins__': {}}, env)) for p in self.known]
        if self.only is not None:
            out.append(eval(self.only, {'__builtins__': {}}, env))
        return out

    def validate(self, name, pairs):
        """Translator validation: pairs of (real result, formula result) that must be identical."""
        for real, model in pairs:
            self.res['validation_vectors'] += 1
            same = (real == model) or (isinstance(real, float) and isinstance(model, float) and real != real and model != model)
            if isinstance(real, float) and isinstance(model, float) and real == model == 0.0:
                import math
                same = math.copysign(1, real) == math.copysign(1, model)
            if type(real) is not type(model):
                same = False
            if not same:
                self.res['inconclusive'].append(f'translator validation mismatch in {name}: real={real!r} formula={model!r}')
                self.res['unknown'] += 1
                return False
        return True

    def query(self, name, assertions, inputs, concrete_check, timeout_s=None):
        """One obligation: `assertions` (path condition AND negated claim) must be unsat.
        inputs: {name: z3 var}; concrete_check(values) must raise AssertionError when the real code violates the claim."""
        self.res['obligations'] += 1
        self.res['paths'] += 1
        self.res['nontrivial'] += 1
        t0 = time.time()
        r, backend = portfolio.check_unsat(list(assertions), timeout_s=timeout_s or self.B.get('query_timeout', 120))
        self.res['portfolio_s'] += time.time() - t0
        self.res['backends'].add(backend)
        if r == 'unsat':
            self.res['discharged'] += 1
            self.res['passed'] += 1
            return 'unsat'
        if r == 'unknown':
            self.res['unknown'] += 1
            self.res['inconclusive'].append(f'{name}: undecided by all back ends')
            return 'unknown'
        # sat: extract a model with z3 (cvc5 only says sat) and replay on the real code
        s = z3.Solver()
        s.set('timeout', int((timeout_s or 120) * 1000))
        s.add(*assertions)
        if s.check() != z3.sat:
            self.res['unknown'] += 1
            self.res['inconclusive'].append(f'{name}: sat without model')
            return 'unknown'
        m = s.model()
        vals = {}
        for k, v in inputs.items():
            ev = m.eval(v, model_completion=True)
            if z3.is_bv_value(ev):
                vals[k] = ev.as_long() if not getattr(v, '_signed', False) else ev.as_signed_long()
            elif z3.is_fp(ev) or z3.is_fprm_value(ev):
                bv = m.eval(z3.fpToIEEEBV(v), model_completion=True)
                x = struct.unpack('<d', struct.pack('<Q', bv.as_long()))[0] if z3.is_bv_value(bv) else float('nan')
                vals[k] = x
            elif z3.is_int_value(ev):
                vals[k] = ev.as_long()
            else:
                vals[k] = str(ev)
        rec = {'inputs': _js(vals), 'readable': {k: (repr(v) if isinstance(v, float) and v != v else v) for k, v in vals.items()},
               'symbolic_failure': {'type': 'Refuted', 'msg': name}}
        try:
            concrete_check(vals)
            rec['concrete'] = 'pass'
            rec['concrete_failure'] = {}
            self.res['nonrepro'].append(rec)
            return 'nonrepro'
        except AssertionError as e:
            rec['concrete'] = 'fail'
            rec['concrete_failure'] = {'type': 'AssertionError', 'msg': str(e)[:300], 'obligation': name}
            self.res['failures'].append(rec)
            return 'sat'

    def finish(self):
        r = self.res
        r['backends'] = sorted(r['backends'])
        r['cpu_s'] = round(time.process_time() - self.c0, 2)
        r['wall_s'] = round(time.time() - self.t0, 2)
        r['portfolio_s'] = round(r['portfolio_s'], 2)
        if r['failures']:
            r['verdict'] = 'REFUTED'
            r['exhausted'] = False
        elif r['nonrepro'] or r['unknown'] or r['inconclusive']:
            r['verdict'] = 'INCONCLUSIVE'
            r['exhausted'] = False
        else:
            r['verdict'] = 'HOLDS'
        return r


def _js(vals):
    from vf.explore import jsonable
    return jsonable(vals)


class SmtHarness(Harness):
    """fn(ctx) issues queries; replay(values, bounds) re-checks one counterexample on the real code (raises AssertionError)."""
    kind = 'smt'

    def __init__(self, name, fn, replay, **kw):
        kw.setdefault('twin', False)
        super().__init__(name, fn, **kw)
        self.replay = replay

    def run(self, tier, known=(), only=None):
        ctx = SmtCtx(self.bounds[tier], known, only)
        try:
            self.fn(ctx)
        except Exception as e:   # Untranslatable, BoundExceeded, ...: harness error (exit 3), never a violation, never a pass
            ctx.res['inconclusive'].append(f'{type(e).__name__}: {e}')
            ctx.res['unknown'] += 1
            ctx.res['error'] = f'the current source could not be translated/decided: {type(e).__name__}: {e}'
        res = ctx.finish()
        missing = [g for g in self.goals if g not in res['goals']]
        res['twins'] = {g: ('witnessed' if g in res['goals'] else 'NOT-REACHED') for g in self.goals}
        return res
