"""Engine B: a bit-precise symbolic interpreter for small numeric Python functions (DESIGN §1.3).

The function's CURRENT source is parsed with `ast` on every run (inspect.getsource on the module imported from
/repo) and executed over z3 terms:

* Python int  -> (_ BitVec 64) two's complement, with an interval [lo, hi] tracked per term; any operation whose
  interval could leave the signed 64-bit range raises Untranslatable (so BV arithmetic provably coincides with
  Python's unbounded ints on everything we translate)
* float       -> Float64 (round-nearest-even); struct.pack('I')/unpack('f') reinterpretation -> fp.to_fp of the bits
* a branch on a symbolic condition forks the interpretation (both sides checked for feasibility with z3); `while`
  loops are unwound up to a bound and a path that wants more iterations raises BoundExceeded (never silently cut)

Result: a list of Path(pc=[z3 Bool], kind='return'|'raise', value=IntV|FloatV|..., exc=name).
The union of the path conditions covers the whole input domain by construction (every fork keeps both sides).
"""
import ast
import inspect
import math
import struct
import textwrap

import z3

W = 64
F16, F32, F64 = z3.Float16(), z3.Float32(), z3.Float64()
RNE = z3.RNE()
INT_MIN, INT_MAX = -(1 << 63), (1 << 63) - 1


class Untranslatable(Exception):
    pass


class BoundExceeded(Exception):
    pass


class IntV:
    def __init__(self, term, lo, hi):
        if lo < INT_MIN or hi > INT_MAX:
            raise Untranslatable(f'int interval [{lo}, {hi}] leaves the signed 64-bit range')
        self.t, self.lo, self.hi = term, lo, hi

    @staticmethod
    def const(c):
        return IntV(z3.BitVecVal(c, W), c, c)

    @property
    def is_const(self):
        return self.lo == self.hi

    def __repr__(self):
        return f'IntV[{self.lo},{self.hi}]'


class FloatV:
    """lo/hi: optional static enclosure of the value (outward-rounded); None = unknown (may be NaN/inf)."""
    def __init__(self, term, lo=None, hi=None):
        self.t = term
        if lo is not None and hi is not None and math.isfinite(lo) and math.isfinite(hi) and abs(lo) < 1e300 and abs(hi) < 1e300:
            self.lo, self.hi = lo, hi
        else:
            self.lo = self.hi = None

    @staticmethod
    def const(c):
        c = float(c)
        return FloatV(z3.FPVal(c, F64), c, c)

    @property
    def bounded(self):
        return self.lo is not None


def _out(lo, hi):
    """outward rounding of a computed enclosure"""
    e = 1e-12
    return (lo - abs(lo) * e - 1e-300, hi + abs(hi) * e + 1e-300)


class BoolV:
    def __init__(self, term):
        self.t = term


class BytesV:
    """Result of struct.pack of one value: little-endian bits."""
    def __init__(self, bv):
        self.bv = bv


class TupleV(tuple):
    pass


class ListV(list):
    """Python list / small numpy array of values (element-wise numpy semantics for `/ scalar`)."""


class NoneV:
    pass


class Path:
    def __init__(self, pc, kind, value=None, exc=None):
        self.pc, self.kind, self.value, self.exc = pc, kind, value, exc


class _Return(Exception):
    def __init__(self, v):
        self.v = v


class _Raise(Exception):
    def __init__(self, name):
        self.name = name


def to_float(v):
    if isinstance(v, FloatV):
        return v
    if isinstance(v, IntV):
        if max(abs(v.lo), abs(v.hi)) >= 1 << 53:
            raise Untranslatable('int -> float conversion beyond 2^53')
        return FloatV(z3.fpSignedToFP(RNE, v.t, F64), float(v.lo), float(v.hi))
    if isinstance(v, BoolV):
        return FloatV(z3.If(v.t, z3.FPVal(1.0, F64), z3.FPVal(0.0, F64)))
    raise Untranslatable(f'to_float({type(v).__name__})')


def to_int(v):
    if isinstance(v, IntV):
        return v
    if isinstance(v, BoolV):
        return IntV(z3.If(v.t, z3.BitVecVal(1, W), z3.BitVecVal(0, W)), 0, 1)
    raise Untranslatable(f'to_int({type(v).__name__})')


class Interp:
    def __init__(self, fn, unwind=16, timeout_ms=60000, globals_extra=None, self_obj=None, options=None):
        self.self_obj = self_obj
        self.options = dict(options or {})
        src = textwrap.dedent(inspect.getsource(fn))
        self.fdef = ast.parse(src).body[0]
        self.src = src
        self.unwind = unwind
        self.timeout_ms = timeout_ms
        self.globals = dict(getattr(fn, '__globals__', {}))
        if globals_extra:
            self.globals.update(globals_extra)
        self.paths = []
        self.inlined = set()
        self.queries = 0
        self.solver_s = 0.0

    # ------------------------------------------------------------------ forking
    def feasible(self, cond):
        import time
        s = z3.Solver()
        s.set('timeout', self.timeout_ms)
        s.add(*self.pc)
        s.add(cond)
        t0 = time.time()
        r = s.check()
        self.solver_s += time.time() - t0
        self.queries += 1
        if r == z3.unknown:
            raise Untranslatable('feasibility query unknown')
        return r == z3.sat

    def branch(self, cond):
        """Decide a BoolV: returns True/False on the current interpretation; if both are feasible the current
        interpretation follows True and a continuation for False is impossible to resume mid-expression, so we
        re-run the whole function with the extra assumption (cheap: functions are tiny)."""
        t = z3.simplify(cond.t)
        if z3.is_true(t):
            return True
        if z3.is_false(t):
            return False
        can_t = self.feasible(t)
        can_f = self.feasible(z3.Not(t))
        if can_t and can_f:
            # restart twice with the decision recorded
            self._restart.append(self.pc + [z3.Not(t)])
            self.pc = self.pc + [t]
            return True
        if can_t:
            self.pc = self.pc + [t]            # implied by the path condition: recorded so that later queries are cheap
            return True
        if can_f:
            self.pc = self.pc + [z3.Not(t)]
            return False
        raise Untranslatable('infeasible path reached')

    # The interpreter is restarted from the top for every alternative decision (decision list replay would be the
    # classical optimisation; these functions have <= 20 decisions).
    def explore(self, arg_builder, assumptions=()):
        """arg_builder() -> list of argument values (fresh per restart, same z3 variables)."""
        self.paths = []
        pending = [list(assumptions)]
        n = 0
        while pending:
            pc0 = pending.pop()
            n += 1
            if n > 4096:
                raise Untranslatable('too many paths')
            self._restart = []
            params = [a.arg for a in self.fdef.args.args]
            if params and params[0] == 'self':
                params = params[1:]
            self.env = dict(zip(params, arg_builder()))
            if self.self_obj is not None:
                self.env['self'] = self.self_obj() if callable(self.self_obj) else self.self_obj
            self.pc = list(pc0)
            try:
                self._block(self.fdef.body)
                self.paths.append(Path(self.pc, 'return', NoneV()))
            except _Return as r:
                self.paths.append(Path(self.pc, 'return', r.v))
            except _Raise as r:
                self.paths.append(Path(self.pc, 'raise', exc=r.name))
            # side effects of this path on harness-side stubs (e.g. the recording memory handler)
            so = self.env.get('self')
            self.paths[-1].self_obj = so
            self.paths[-1].writes = getattr(getattr(so, 'mem_handler', None), 'writes', None)
            # alternatives discovered on this run: each is this run's prefix + negated decision
            pending.extend(self._restart)
        return self.paths

    # ------------------------------------------------------------------ statements
    def _block(self, stmts):
        for st in stmts:
            self._stmt(st)

    def _stmt(self, st):
        if isinstance(st, ast.Expr):
            if isinstance(st.value, ast.Constant):
                return          # docstring
            self._expr(st.value)
        elif isinstance(st, ast.Assign):
            v = self._expr(st.value)
            for tgt in st.targets:
                self._assign(tgt, v)
        elif isinstance(st, ast.AugAssign):
            cur = self._expr(st.target)
            v = self._binop(st.op, cur, self._expr(st.value))
            self._assign(st.target, v)
        elif isinstance(st, ast.If):
            if self._truth(self._expr(st.test)):
                self._block(st.body)
            else:
                self._block(st.orelse)
        elif isinstance(st, ast.While):
            n = 0
            while self._truth(self._expr(st.test)):
                n += 1
                if n > self.unwind:
                    raise BoundExceeded(f'while loop at line {st.lineno} wants more than {self.unwind} iterations')
                self._block(st.body)
        elif isinstance(st, ast.For):
            it = self._expr(st.iter)
            if not isinstance(it, (list, tuple, range)):
                raise Untranslatable('for over non-concrete iterable')
            for x in it:
                self._assign(st.target, wrap(x))
                self._block(st.body)
        elif isinstance(st, ast.Return):
            raise _Return(self._expr(st.value) if st.value is not None else NoneV())
        elif isinstance(st, ast.Pass):
            pass
        elif isinstance(st, ast.Raise):
            name = 'Exception'
            if st.exc is not None:
                f = st.exc.func if isinstance(st.exc, ast.Call) else st.exc
                name = getattr(f, 'id', getattr(f, 'attr', 'Exception'))
            raise _Raise(name)
        else:
            raise Untranslatable(f'statement {type(st).__name__} at line {st.lineno}')

    def _assign(self, tgt, v):
        if isinstance(tgt, ast.Name):
            self.env[tgt.id] = v
        elif isinstance(tgt, ast.Subscript):
            base = self._expr(tgt.value)
            if isinstance(base, dict):
                k = self._expr(tgt.slice)
                if not isinstance(k, str):
                    raise Untranslatable('dict key must be a string constant')
                base[k] = v
                return
            idx = self._index(self._expr(tgt.slice), len(base))
            if not isinstance(base, ListV):
                raise Untranslatable('subscript assignment to non-list')
            base[idx] = v
        elif isinstance(tgt, ast.Tuple):
            for t, x in zip(tgt.elts, v):
                self._assign(t, x)
        elif isinstance(tgt, ast.Attribute):
            setattr(self._expr(tgt.value), tgt.attr, v)
        else:
            raise Untranslatable(f'assignment target {type(tgt).__name__}')

    def _index(self, idx, n):
        """Concretise an index by forking over its feasible values."""
        idx = to_int(idx) if not isinstance(idx, int) else IntV.const(idx)
        if idx.is_const:
            return idx.lo
        for k in range(max(idx.lo, -n), min(idx.hi, n - 1) + 1):
            if self.branch(BoolV(idx.t == z3.BitVecVal(k, W))):
                return k
        raise Untranslatable('index out of range on every branch')

    def _truth(self, v):
        if isinstance(v, bool):
            return v
        if isinstance(v, BoolV):
            return self.branch(v)
        if isinstance(v, IntV):
            return self.branch(BoolV(v.t != z3.BitVecVal(0, W)))
        if isinstance(v, FloatV):
            return self.branch(BoolV(z3.Not(z3.fpIsZero(v.t))))
        raise Untranslatable(f'truth of {type(v).__name__}')

    # ------------------------------------------------------------------ expressions
    def _expr(self, e):
        if isinstance(e, ast.Constant):
            c = e.value
            if isinstance(c, bool):
                return BoolV(z3.BoolVal(c))
            if isinstance(c, int):
                return IntV.const(c)
            if isinstance(c, float):
                return FloatV.const(c)
            if isinstance(c, str) or c is None:
                return c
            raise Untranslatable(f'constant {c!r}')
        if isinstance(e, ast.Name):
            if e.id in self.env:
                return self.env[e.id]
            if e.id in self.globals:
                g = self.globals[e.id]
                if isinstance(g, bool):
                    return BoolV(z3.BoolVal(g))
                if isinstance(g, int):
                    return IntV.const(g)
                if isinstance(g, float):
                    return FloatV.const(g)
                return g
            raise Untranslatable(f'unknown name {e.id}')
        if isinstance(e, ast.BinOp):
            return self._binop(e.op, self._expr(e.left), self._expr(e.right))
        if isinstance(e, ast.UnaryOp):
            v = self._expr(e.operand)
            if isinstance(e.op, ast.USub):
                if isinstance(v, IntV):
                    return IntV(-v.t, -v.hi, -v.lo)
                if isinstance(v, FloatV):
                    return FloatV(z3.fpNeg(v.t), *((-v.hi, -v.lo) if v.bounded else (None, None)))
            if isinstance(e.op, ast.Invert):
                v = to_int(v)
                return IntV(~v.t, ~v.hi, ~v.lo)
            if isinstance(e.op, ast.Not):
                return BoolV(z3.BoolVal(not self._truth(v)))
            if isinstance(e.op, ast.UAdd):
                return v
            raise Untranslatable(f'unary {type(e.op).__name__}')
        if isinstance(e, ast.Compare):
            left = self._expr(e.left)
            res = None
            for op, r in zip(e.ops, e.comparators):
                right = self._expr(r)
                c = self._compare(op, left, right)
                res = c if res is None else BoolV(z3.And(res.t, c.t))
                left = right
            return res
        if isinstance(e, ast.BoolOp):
            if isinstance(e.op, ast.And):
                for v in e.values:
                    if not self._truth(self._expr(v)):
                        return BoolV(z3.BoolVal(False))
                return BoolV(z3.BoolVal(True))
            for v in e.values:
                if self._truth(self._expr(v)):
                    return BoolV(z3.BoolVal(True))
            return BoolV(z3.BoolVal(False))
        if isinstance(e, ast.Dict):
            return {self._expr(k): self._expr(v) for k, v in zip(e.keys, e.values)}
        if isinstance(e, ast.Subscript):
            base = self._expr(e.value)
            if isinstance(base, dict):
                k = self._expr(e.slice)
                if not isinstance(k, str):
                    raise Untranslatable('dict key must be a string constant')
                return wrap(base[k])
            if isinstance(base, (ListV, TupleV, list, tuple)):
                return wrap(base[self._index(self._expr(e.slice), len(base))])
            raise Untranslatable('subscript of ' + type(base).__name__)
        if isinstance(e, ast.Call):
            return self._call(e)
        if isinstance(e, ast.Attribute):
            base = self._expr(e.value)
            return wrap(getattr(base, e.attr))
        if isinstance(e, (ast.List, ast.Tuple)):
            return ListV(self._expr(x) for x in e.elts)
        if isinstance(e, ast.IfExp):
            return self._expr(e.body) if self._truth(self._expr(e.test)) else self._expr(e.orelse)
        raise Untranslatable(f'expression {type(e).__name__}')

    def _compare(self, op, a, b):
        if isinstance(op, (ast.Is, ast.IsNot)):
            if a is None or b is None or isinstance(a, NoneV) or isinstance(b, NoneV):
                na = a is None or isinstance(a, NoneV)
                nb = b is None or isinstance(b, NoneV)
                same = na and nb
                return BoolV(z3.BoolVal(same if isinstance(op, ast.Is) else not same))
            raise Untranslatable('is / is not on non-None values')
        if isinstance(a, FloatV) or isinstance(b, FloatV):
            x, y = to_float(a).t, to_float(b).t
            f = {ast.Lt: z3.fpLT, ast.LtE: z3.fpLEQ, ast.Gt: z3.fpGT, ast.GtE: z3.fpGEQ, ast.Eq: z3.fpEQ,
                 ast.NotEq: lambda p, q: z3.Not(z3.fpEQ(p, q))}[type(op)]
            return BoolV(f(x, y))
        if isinstance(a, BoolV) and isinstance(b, BoolV):
            if isinstance(op, ast.Eq):
                return BoolV(a.t == b.t)
            if isinstance(op, ast.NotEq):
                return BoolV(a.t != b.t)
        x, y = to_int(a), to_int(b)
        f = {ast.Lt: lambda p, q: p < q, ast.LtE: lambda p, q: p <= q, ast.Gt: lambda p, q: p > q,
             ast.GtE: lambda p, q: p >= q, ast.Eq: lambda p, q: p == q, ast.NotEq: lambda p, q: p != q}[type(op)]
        return BoolV(f(x.t, y.t))       # signed BV comparison

    def _binop(self, op, a, b):
        if isinstance(a, ListV) and isinstance(b, (ListV, list, tuple)) and isinstance(op, ast.Add):
            return ListV(list(a) + [wrap(x) for x in b])
        if isinstance(a, ListV) and isinstance(op, ast.Div):
            return ListV(self._binop(op, x, b) for x in a)
        if isinstance(a, BoolV) and isinstance(b, BoolV) and isinstance(op, (ast.BitXor, ast.BitAnd, ast.BitOr)):
            f = {ast.BitXor: z3.Xor, ast.BitAnd: z3.And, ast.BitOr: z3.Or}[type(op)]
            return BoolV(f(a.t, b.t))
        if isinstance(a, FloatV) or isinstance(b, FloatV) or isinstance(op, ast.Div):
            fa, fb = to_float(a), to_float(b)
            x, y = fa.t, fb.t
            both = fa.bounded and fb.bounded
            if isinstance(op, ast.Add):
                return FloatV(z3.fpAdd(RNE, x, y), *(_out(fa.lo + fb.lo, fa.hi + fb.hi) if both else (None, None)))
            if isinstance(op, ast.Sub):
                return FloatV(z3.fpSub(RNE, x, y), *(_out(fa.lo - fb.hi, fa.hi - fb.lo) if both else (None, None)))
            if isinstance(op, ast.Mult):
                if both:
                    c = [fa.lo * fb.lo, fa.lo * fb.hi, fa.hi * fb.lo, fa.hi * fb.hi]
                    return FloatV(z3.fpMul(RNE, x, y), *_out(min(c), max(c)))
                return FloatV(z3.fpMul(RNE, x, y))
            if isinstance(op, ast.Div):
                if fb.bounded and (fb.lo > 0 or fb.hi < 0):
                    if fa.bounded:
                        c = [fa.lo / fb.lo, fa.lo / fb.hi, fa.hi / fb.lo, fa.hi / fb.hi]
                        return FloatV(z3.fpDiv(RNE, x, y), *_out(min(c), max(c)))
                    return FloatV(z3.fpDiv(RNE, x, y))
                if self.branch(BoolV(z3.fpIsZero(y))):
                    if isinstance(a, FloatV) and getattr(a, 'numpy', False):
                        return FloatV(z3.fpDiv(RNE, x, y))
                    raise _Raise('ZeroDivisionError')
                return FloatV(z3.fpDiv(RNE, x, y))
            raise Untranslatable(f'float op {type(op).__name__}')
        x, y = to_int(a), to_int(b)
        if isinstance(op, ast.Add):
            return IntV(x.t + y.t, x.lo + y.lo, x.hi + y.hi)
        if isinstance(op, ast.Sub):
            return IntV(x.t - y.t, x.lo - y.hi, x.hi - y.lo)
        if isinstance(op, ast.Mult):
            c = [x.lo * y.lo, x.lo * y.hi, x.hi * y.lo, x.hi * y.hi]
            return IntV(x.t * y.t, min(c), max(c))
        if isinstance(op, ast.LShift):
            if not y.is_const or y.lo < 0:
                raise Untranslatable('shift by non-constant')
            k = y.lo
            return IntV(x.t << k, x.lo << k, x.hi << k)
        if isinstance(op, ast.RShift):
            if not y.is_const or y.lo < 0:
                raise Untranslatable('shift by non-constant')
            k = y.lo
            return IntV(x.t >> k, x.lo >> k, x.hi >> k)      # arithmetic shift == Python floor semantics
        if isinstance(op, (ast.BitAnd, ast.BitOr, ast.BitXor)):
            if isinstance(op, ast.BitAnd):
                t = x.t & y.t
                if x.lo >= 0 and y.lo >= 0:
                    lo, hi = 0, min(x.hi, y.hi)
                elif y.lo >= 0:
                    lo, hi = 0, y.hi
                elif x.lo >= 0:
                    lo, hi = 0, x.hi
                else:
                    lo, hi = INT_MIN, INT_MAX
                return IntV(t, lo, hi)
            t = (x.t | y.t) if isinstance(op, ast.BitOr) else (x.t ^ y.t)
            if x.lo >= 0 and y.lo >= 0:
                bits = max(x.hi.bit_length(), y.hi.bit_length())
                return IntV(t, 0, (1 << bits) - 1)
            return IntV(t, INT_MIN, INT_MAX)
        if isinstance(op, ast.FloorDiv) or isinstance(op, ast.Mod):
            if not y.is_const or y.lo <= 0 or x.lo < 0:
                raise Untranslatable('// or % outside non-negative / positive-constant case')
            if isinstance(op, ast.FloorDiv):
                return IntV(z3.UDiv(x.t, y.t), x.lo // y.lo, x.hi // y.lo)
            return IntV(z3.URem(x.t, y.t), 0, y.lo - 1)
        raise Untranslatable(f'int op {type(op).__name__}')

    def _float_to_int(self, v):
        """int(v) for a float value: truncation towards zero; NaN/inf raise as in CPython."""
        if isinstance(v, FloatV) and v.bounded and abs(v.lo) < 2.0 ** 62 and abs(v.hi) < 2.0 ** 62:
            # statically enclosed: finite, no NaN; the result interval follows from the enclosure
            return IntV(z3.fpToSBV(z3.RTZ(), v.t, z3.BitVecSort(W)), 0 if v.lo >= 0 else math.floor(v.lo) - 1,
                        0 if v.hi <= 0 else math.ceil(v.hi) + 1)
        if isinstance(v, FloatV):
            if self.branch(BoolV(z3.fpIsNaN(v.t))):
                raise _Raise('ValueError')
            if self.branch(BoolV(z3.fpIsInf(v.t))):
                raise _Raise('OverflowError')
            lim = z3.FPVal(2.0 ** 62, F64)
            if self.branch(BoolV(z3.Or(z3.fpGEQ(v.t, lim), z3.fpLEQ(v.t, z3.fpNeg(lim))))):
                raise Untranslatable('int(float) beyond 2^62')
            # tighten the interval of the result with solver probes (needed before the value is shifted)
            for bits in (10, 16, 31, 62):
                b = z3.FPVal(float(1 << bits), F64)
                if bits == 62 or not self.feasible(z3.Or(z3.fpGEQ(v.t, b), z3.fpLEQ(v.t, z3.fpNeg(b)))):
                    if bits != 62:
                        self.pc = self.pc + [z3.fpLT(v.t, b), z3.fpGT(v.t, z3.fpNeg(b))]
                    lo = -(1 << bits)
                    if not self.feasible(z3.fpLT(v.t, z3.FPVal(0.0, F64))):
                        self.pc = self.pc + [z3.Not(z3.fpLT(v.t, z3.FPVal(0.0, F64)))]
                        lo = 0
                    return IntV(z3.fpToSBV(z3.RTZ(), v.t, z3.BitVecSort(W)), lo, 1 << bits)

    # ------------------------------------------------------------------ calls
    def _callee(self, f):
        if isinstance(f, ast.Name):
            return f.id
        if isinstance(f, ast.Attribute):
            return self._callee(f.value) + '.' + f.attr
        raise Untranslatable('callee')

    def _call(self, e):
        name = self._callee(e.func)
        args = [self._expr(a) for a in e.args]
        if name == 'int':
            v = args[0]
            if isinstance(v, (IntV, BoolV)):
                return to_int(v)
            if isinstance(v, FloatV):
                return self._float_to_int(v)
        if name == 'round' and len(args) == 1:
            v = args[0]
            if isinstance(v, (IntV, BoolV)):
                return to_int(v)
            if isinstance(v, FloatV):
                # Python's round(float) is round-half-to-even to an int
                r = FloatV(z3.fpRoundToIntegral(RNE, v.t), *((v.lo - 1, v.hi + 1) if v.bounded else (None, None)))
                self._call_value = r
                return self._float_to_int(r)
        if name == 'float':
            return to_float(args[0])
        if name == 'abs':
            v = args[0]
            if isinstance(v, FloatV):
                if v.bounded:
                    return FloatV(z3.fpAbs(v.t), 0.0 if v.lo <= 0 <= v.hi else min(abs(v.lo), abs(v.hi)), max(abs(v.lo), abs(v.hi)))
                return FloatV(z3.fpAbs(v.t))
            v = to_int(v)
            return IntV(z3.If(v.t < 0, -v.t, v.t), 0, max(abs(v.lo), abs(v.hi)))
        if name == 'range':
            return range(*[a.lo if isinstance(a, IntV) and a.is_const else _bad() for a in args])
        if name in ('math.degrees',):
            return FloatV(z3.fpMul(RNE, to_float(args[0]).t, z3.FPVal(180.0 / math.pi, F64)))
        if name in ('math.radians',):
            return FloatV(z3.fpMul(RNE, to_float(args[0]).t, z3.FPVal(math.pi / 180.0, F64)))
        if name in ('np.sqrt', 'math.sqrt', 'numpy.sqrt'):
            fx = to_float(args[0])
            x = fx.t
            if fx.bounded and fx.lo >= 0:
                return FloatV(z3.fpSqrt(RNE, x), *_out(math.sqrt(fx.lo), math.sqrt(fx.hi)))
            if name == 'math.sqrt' and self.branch(BoolV(z3.fpLT(x, z3.FPVal(0.0, F64)))):
                raise _Raise('ValueError')
            return FloatV(z3.fpSqrt(RNE, x))
        if name in ('np.zeros', 'numpy.zeros'):
            n = args[0]
            return ListV(FloatV.const(0.0) for _ in range(n.lo))
        if name in ('np.array', 'numpy.array'):
            out = ListV()
            for x in args[0]:
                f = to_float(x)
                f = FloatV(f.t, f.lo, f.hi)
                f.numpy = True
                out.append(f)
            return out
        if name in ('np.linalg.norm', 'numpy.linalg.norm') and self.options.get('norm_is_one'):
            # abstraction requested by the harness: the argument is assumed normalised (precondition stated there)
            return FloatV.const(1.0)
        if name in ('np.linalg.norm', 'numpy.linalg.norm'):
            acc = None
            for x in args[0]:
                sq = z3.fpMul(RNE, to_float(x).t, to_float(x).t)
                acc = sq if acc is None else z3.fpAdd(RNE, acc, sq)
            return FloatV(z3.fpSqrt(RNE, acc))
        if name == 'struct.pack':
            fmt, v = args[0].lstrip('<=@'), args[1]
            if fmt == 'I':
                v = to_int(v)
                if v.lo < 0 or v.hi >= 1 << 32:
                    if self.branch(BoolV(z3.Or(v.t < 0, v.t >= z3.BitVecVal(1 << 32, W)))):
                        raise _Raise('struct.error')
                return BytesV(z3.Extract(31, 0, v.t))
            if fmt == 'f':
                x = to_float(v).t
                x32 = z3.fpFPToFP(RNE, x, F32)
                if self.branch(BoolV(z3.And(z3.fpIsInf(x32), z3.Not(z3.fpIsInf(x))))):
                    raise _Raise('OverflowError')
                return BytesV(z3.fpToIEEEBV(x32))
            raise Untranslatable('struct.pack format ' + fmt)
        if name == 'struct.unpack':
            fmt, b = args[0].lstrip('<=@'), args[1]
            if not isinstance(b, BytesV):
                raise Untranslatable('struct.unpack of non-packed value')
            sizes = {'B': 1, 'b': 1, 'H': 2, 'h': 2, 'I': 4, 'i': 4, 'f': 4}
            if any(c not in sizes for c in fmt) or sum(sizes[c] for c in fmt) * 8 != b.bv.size():
                raise Untranslatable('struct.unpack format/size ' + fmt)
            out, off = [], 0
            for c in fmt:
                n = sizes[c] * 8
                bits = z3.Extract(off + n - 1, off, b.bv)       # little endian: first field = least significant bits
                off += n
                if c == 'f':
                    out.append(FloatV(z3.fpFPToFP(RNE, z3.fpBVToFP(bits, F32), F64)))
                elif c in 'BHI':
                    out.append(IntV(z3.ZeroExt(W - n, bits), 0, (1 << n) - 1))
                else:
                    out.append(IntV(z3.SignExt(W - n, bits), -(1 << (n - 1)), (1 << (n - 1)) - 1))
            return TupleV(out)
        if name == 'bytearray':
            if not args:
                return ListV()
            out = ListV()
            for x in args[0]:
                v = to_int(wrap(x))
                if v.lo < 0 or v.hi > 255:
                    if self.branch(BoolV(z3.Or(v.t < 0, v.t > 255))):
                        raise _Raise('ValueError')
                    v = IntV(v.t, max(v.lo, 0), min(v.hi, 255))
                out.append(v)
            return out
        if name == 'len':
            return IntV.const(len(args[0]))
        if isinstance(e.func, ast.Attribute) and not isinstance(self.globals.get(name.split('.')[0]), type(ast)):
            # method of a concrete harness-side object (e.g. the memory handler stub): called through with the values
            obj = self._expr(e.func.value)
            meth = getattr(obj, e.func.attr, None)
            if callable(meth) and not isinstance(obj, (IntV, FloatV, BoolV)):
                kwargs = {k.arg: self._expr(k.value) for k in e.keywords}
                return wrap(meth(*args, **kwargs))
        target = self.globals.get(name)
        if inspect.isfunction(target):
            # inline a module-level helper (same path condition, fresh local environment)
            sub = ast.parse(textwrap.dedent(inspect.getsource(target))).body[0]
            saved_env, saved_glob = self.env, self.globals
            self.env = dict(zip([a.arg for a in sub.args.args], args))
            self.globals = dict(target.__globals__)
            self.inlined.add(target.__module__ + ':' + target.__qualname__)
            try:
                self._block(sub.body)
                ret = NoneV()
            except _Return as r:
                ret = r.v
            finally:
                self.env, self.globals = saved_env, saved_glob
            return ret
        raise Untranslatable(f'call to {name}')


def wrap(x):
    """Python scalars coming out of concrete containers/objects become constant values."""
    if isinstance(x, bool):
        return BoolV(z3.BoolVal(x))
    if isinstance(x, int):
        return IntV.const(x)
    if isinstance(x, float):
        return FloatV.const(x)
    return x


def _bad():
    raise Untranslatable('non-constant range bound')
