"""Harness declaration shared by the property modules, the worker and the runner."""
import hashlib
import inspect
import importlib


class Reached(Exception):
    """Raised at the end of a reachability twin: the harness body ran to completion."""


class Harness:
    def __init__(self, name, fn, quick=None, thorough=None, timeout=(120, 900), per_path=60.0,
                 float_model='ieee', goals=(), tiers=('quick', 'thorough'), max_paths=10 ** 7,
                 twin=True, symbolic=True, note='', smt_timeout=None, replay_all=False):
        self.name = name
        self.fn = fn
        self.bounds = {'quick': dict(quick or {}), 'thorough': dict(thorough if thorough is not None else (quick or {}))}
        # declared budgets were tuned on an idle 16-core host at ~1.3x the measured exhaustion time: keep a wide margin for
        # slower or loaded hosts (a budget is only an upper bound; exploration stops as soon as the tree is exhausted)
        self.timeout = {'quick': timeout[0] * 2.5, 'thorough': timeout[1] * 1.5}
        self.per_path = per_path
        self.float_model = float_model
        self.goals = tuple(goals)
        self.tiers = tuple(tiers)
        self.max_paths = max_paths
        self.twin = twin
        self.symbolic = symbolic      # False: the solver forks over a value that the code concretises (labelled in evidence)
        self.note = note
        self.replay_all = replay_all      # every passed path is also run concretely with its model values (differential guard)
        self.smt_timeout = smt_timeout   # first-try timeout of CrossHair's incremental solver before the portfolio

    def body(self, tier):
        b = self.bounds[tier]

        def run(sym):
            sym.B.update(b)
            return self.fn(sym)
        run.__name__ = self.name
        return run

    def twin_body(self, tier, goal=None):
        b = self.bounds[tier]

        def run(sym):
            sym.B.update(b)
            self.fn(sym)
            if goal is None or goal in sym.goals:
                raise Reached(goal or 'end')
        run.__name__ = self.name + '.twin'
        return run


def load(pid):
    return importlib.import_module('vf.props.' + pid.lower())


def src_hash(qualnames):
    """[(qualified name, sha1 of current source)] for the functions the property module says it executes."""
    out = []
    for q in qualnames:
        modname, _, attr = q.partition(':')
        try:
            obj = importlib.import_module(modname)
            for part in attr.split('.'):
                if part:
                    obj = getattr(obj, part)
            src = inspect.getsource(obj)
            out.append({'name': q, 'sha1': hashlib.sha1(src.encode()).hexdigest()[:12], 'lines': src.count('\n')})
        except Exception as e:   # noqa
            out.append({'name': q, 'error': f'{type(e).__name__}: {e}'})
    return out
