"""C06 Memory reads and writes are exact, complete and never wedge the subsystem.

The real cflib.crazyflie.mem.Memory (with its _ReadRequest/_WriteRequest) talks, through the real Crazyflie.send_packet, to a
device model holding a byte-array image (vf/env/c06_env.py).  The oracle is written from the protocol side:

* every request packet respects the CRTP limits and stays inside the range the caller asked for (checked by the device model);
* a read that reports success delivers exactly the image bytes of [addr, addr+length);
* after the history the image equals the initial image overlaid, in the order the writes were issued, by the data of every write
  that reported success; bytes covered by no write are unchanged; bytes of a write that failed or was cut off are unspecified;
* every request that was accepted and not superseded by flush_queue gets exactly one notification; it must be a success when no
  error status was delivered and the link did not drop while it was outstanding, and a failure when the error status answered
  one of its own chunks or the link dropped (an error reply carries no request identity, so a request that merely was
  outstanding when somebody else's error reply, or its duplicate, arrived may end either way);
* protocol limit, not held against the library: acks carry only (memory id, address).  A duplicate of the ack of an EARLIER write
  that arrives while the next queued write is in progress at that same address cannot be told from that write's own ack; such
  an `aliased` write must still be notified exactly once and must not wedge anything, but its outcome and its bytes are left
  unspecified (found by the solver: dup of W1's ack + error status on W2 at the same address => W2 reports success);
* every transfer terminates: the number of replies a history may consume is bounded by 2 x (bytes + 1) per request;
* at the end no lock is held, no request record is left, and a follow-up write and read-back on the same memory complete.

Exceptions escaping the port callback are swallowed (and remembered for the message) exactly as _IncomingPacketHandler.run does;
what counts is the effect the property names: the lock left behind, the missing notification, the follow-up request not served.
"""
import struct

from vf.harness import Harness
from vf.explore import Inconclusive
from vf.env.c06_env import (LockTable, MemCF, MemDevice, Net, EnvFailure, conc, exc_names, PORT_MEM, CH_READ, CH_WRITE, MAX_WRITE_DATA,
                            MAX_READ_REPLY_DATA)
from cflib.crazyflie.mem import Memory, MemoryElement
from cflib.crazyflie.mem.memory_tester import MemoryTester
from cflib.crazyflie.mem.deck_memory import DeckMemoryManager, DeckMemory
from cflib.crtp.crtpstack import CRTPPacket

FUNCTIONS = ['cflib.crazyflie.mem:Memory.read', 'cflib.crazyflie.mem:Memory.write', 'cflib.crazyflie.mem:Memory._new_packet_cb',
             'cflib.crazyflie.mem:Memory._handle_chan_read', 'cflib.crazyflie.mem:Memory._handle_chan_write',
             'cflib.crazyflie.mem:Memory._handle_chan_info', 'cflib.crazyflie.mem:Memory._handle_cmd_info_nbr',
             'cflib.crazyflie.mem:Memory._handle_cmd_info_details', 'cflib.crazyflie.mem:Memory.refresh',
             'cflib.crazyflie.mem:Memory._disconnected', 'cflib.crazyflie.mem:Memory._call_all_failed_callbacks',
             'cflib.crazyflie.mem:Memory._clear_state', 'cflib.crazyflie.mem:_ReadRequest', 'cflib.crazyflie.mem:_WriteRequest',
             'cflib.crazyflie.mem.memory_element:MemoryElement', 'cflib.crazyflie.mem.memory_tester:MemoryTester',
             'cflib.crazyflie:Crazyflie.send_packet', 'cflib.utils.callbacks:Caller.call', 'cflib.crtp.crtpstack:CRTPPacket']
STUBS = ['threading.Lock in the namespace of cflib.crazyflie.mem -> recording FakeLock (acquire on a held lock = self-deadlock)',
         'MemCF: MiniCF (real Crazyflie.send_packet, link without resend timers) + disconnected Caller; port callbacks are invoked '
         'as _IncomingPacketHandler.run does (exceptions from the callback swallowed)',
         'MemDevice: firmware side of CRTP port 4 (info/read/write) over a byte-array image; checks the CRTP limits of every request',
         'str.format over symbolic values returns an opaque non-str object (the text only goes to the disabled logger)',
         'struct.unpack: empty format accepted as CPython does; valid lemma 0<=x<2^32 -> unpack(<I, pack(<I, x)) == x added to the '
         'path condition when the bytes syntactically are (x div 256^i) mod 256 (re-proved by z3 at load time)',
         'logging disabled; no OS threads']
ASSUMPTIONS = ['one task: the incoming thread and the API caller do not run concurrently (context switches only between calls)',
               'the device answers requests in the order received; a duplicated reply arrives right after the original or is '
               'overtaken by at most the next reply; all replies of a phase have arrived before the follow-up requests start '
               '(a stale data reply accepted by a later read of the same address after the content changed is inherent to the '
               'protocol, which has no sequence numbers)',
               'addr + length <= 2^32; write data are byte values; memory ids are concrete (3 and 0)',
               'after a link drop the application registers its callbacks again (Memory replaces its Caller objects on disconnect)',
               'request lengths are enumerated by the solver (0..63 reads, 0..77 writes, plus selected long transfers); addresses, '
               'contents, error codes and fault positions are symbolic; read chunk arithmetic is checked for every 32-bit address '
               'and length by the read_steps harness (first chunks and last chunk at every position)']
OUTSIDE = ['two OS threads inside Memory.write at once; callbacks that raise or that issue requests while the link drops',
           'DeckMemoryManager progress messages; the typed memory classes (OWElement, I2CElement, Lighthouse..., C14)',
           'retransmission timers of Crazyflie.send_packet (C10): duplicates are injected as duplicated replies',
           'write lengths other than the enumerated ones (list/bytes lengths cannot be symbolic)',
           'outcome of a write whose address is hit by a duplicated ack of the previous write (protocol has no sequence numbers)',
           'fault harnesses use concrete contents (contents are symbolic in read_data/write_data/edges); duplication x error x '
           'drop are combined only for writes of up to 2 chunks (write_dup_err), otherwise one fault family per harness']
EXPLANATION = 'C06: real Memory.read/write/_new_packet_cb/_disconnected against a device memory image; symbolic 32-bit addresses, ' \
              'image and data bytes, error codes; solver-chosen lengths, reply duplication/overtaking, error position, link-drop ' \
              'position; FakeLock table, notification accounting, follow-up requests after every history.'

URI = 'radio://0/80/2M'


def pattern(i):
    return (i * 7 + 3) & 0xFF


def data_pattern(k, j):
    return ((11 + 2 * k) * j + 64 * k + 1) & 0xFF


class Req:
    def __init__(self, kind, mem, off, addr, length, data=None):
        self.kind, self.mem, self.off, self.addr, self.length, self.data = kind, mem, off, addr, length, data
        self.state = 'out'          # out | ok | failed | refused
        self.notes = 0
        self.tainted = False        # an error reply was delivered / the link dropped while outstanding
        self.must_fail = False      # the error status answered one of its own chunks, or the link dropped
        self.superseded = False
        self.aliased = False        # a duplicate of an EARLIER request's ack for an address inside this request arrived while
        #                             this one was in progress: the protocol cannot tell it from this request's own ack
        self.got = None
        self.progress = []

    def __repr__(self):
        return f'<{self.kind} off={self.off} len={self.length} {self.state} notes={self.notes}>'


class Faults:
    """Solver-chosen faults. All variables exist from the start (so known-finding predicates can name them); a variable only
    forks the path when the history reaches the point where it matters."""
    def __init__(self, sym, n, dup=False, late=False, err=False, drop=False):
        self.sym, self.n = sym, n
        self.dup = [sym.bool(f'dup{i}') for i in range(n)] if dup else None
        self.late = [sym.bool(f'late{i}') for i in range(n)] if dup and late else None
        self.err = [sym.bool(f'err{i}') for i in range(n)] if err else None
        self.drop = [sym.bool(f'drop{i}') for i in range(n)] if drop else None
        self.code = sym.int('errcode', 1, 255) if err else None
        self.on = True
        self.injected = None
        self.i = 0
        self.world = None

    def for_request(self, kind):
        if not self.on:
            return 0, 1, 0
        i = self.i
        self.i += 1
        if i >= self.n:
            raise Inconclusive(f'more than {self.n} requests in the fault phase: raise the bound max_requests')
        status, copies, hold = 0, 1, 0
        if self.err is not None and self.injected is None and self.err[i]:
            status = self.code
            self.injected = 'error'
        if self.dup is not None and self.dup[i]:
            copies = 2
            if self.late is not None and self.late[i]:
                hold = 1
        return status, copies, hold

    def want_drop(self, k):
        if not self.on or self.drop is None or self.injected is not None or k >= self.n:
            return False
        if self.drop[k]:
            self.injected = 'drop'
            return True
        return False


class World:
    """One Memory object on a MemCF, one device memory (id `mem_id`) whose image models [base, base+W)."""

    def __init__(self, sym, W, nsym=None, faults=None, mem_id=3, limit=10 ** 6, base=None):
        self.sym = sym
        self.table = LockTable()
        self.undo = self.table.install()
        try:
            self.cf = MemCF()
            self.net = Net(self.cf)
            self.faults = faults
            if faults is not None:
                faults.world = self
            self.dev = MemDevice(self.net, faults)
            self.cf.device = self.dev
            self.base = sym.int('base', 0, 2 ** 32 - W) if base is None else base
            nsym = W if nsym is None else min(nsym, W)
            img = sym.bytes('m', nsym) + [pattern(i) for i in range(nsym, W)]
            self.init = list(img)
            self.W = W
            self.mem_id = mem_id
            self.dev.add_memory(mem_id, self.base, img)
            self.mem = Memory(self.cf)
            if sym.B.get('fast'):
                # the device answers so fast that the receiver thread dispatches the reply while the sender is still inside the
                # driver's send_packet (a legal interleaving of the two threads)
                plain_send = self.cf.link.send_packet

                state = {'armed': True}

                def send_and_answer(pk):
                    plain_send(pk)
                    # only the first request of the history, and only when handling its reply needs neither a lock that the
                    # sender holds nor the send lock (a single-chunk read): otherwise the receiver thread simply waits for the
                    # sender, which is the normal order
                    first = [r for r in self.reqs if r.kind == 'read']
                    if not state['armed'] or self.table.held() or not first or first[0].length > 20 or len(self.reqs) != 1:
                        return
                    state['armed'] = False
                    self.sym.goal('answered-during-send')
                    self.pump()
                self.cf.link.send_packet = send_and_answer
            self.el = self.make_element(mem_id, W)
        except BaseException:
            self.undo()
            raise
        self.reqs = []
        self.limit = limit
        self.dropped = False
        self.hook()

    def make_element(self, mem_id, W):
        return MemoryElement(id=mem_id, type=MemoryElement.TYPE_APP, size=W, mem_handler=self.mem)

    def close(self):
        self.undo()

    # ---- notifications
    def hook(self):
        m = self.mem
        m.mem_read_cb.add_callback(self._read_ok)
        m.mem_read_failed_cb.add_callback(self._read_failed)
        m.mem_write_cb.add_callback(self._write_ok)
        m.mem_write_failed_cb.add_callback(self._write_failed)

    def _read_ok(self, mem, addr, data):
        self._notify('read', True, mem, addr, data)

    def _read_failed(self, mem, addr, data):
        self._notify('read', False, mem, addr, data)

    def _write_ok(self, mem, addr):
        self._notify('write', True, mem, addr, None)

    def _write_failed(self, mem, addr):
        self._notify('write', False, mem, addr, None)

    def outstanding(self, kind):
        return [r for r in self.reqs if r.kind == kind and r.state == 'out' and not r.superseded]

    def _notify(self, kind, ok, mem, addr, data):
        word = 'success' if ok else 'failure'
        cands = self.outstanding(kind)
        if not cands or mem is not cands[0].mem:
            raise EnvFailure(f'{kind} {word} notification although no such request is outstanding (second notification '
                             f'for a completed request, or one for a superseded request)')
        r = cands[0]       # reads: the only one; writes: the head of the FIFO (queued writes complete in order)
        if not (addr == r.addr):
            raise EnvFailure(f'{kind} {word} notification carries another address than the oldest outstanding {kind} request')
        r.notes += 1
        r.state = 'ok' if ok else 'failed'
        if ok and kind == 'read':
            got = list(data)
            img = self.dev.image(self.mem_id)
            exp = img[r.off:r.off + r.length]
            if len(got) != r.length:
                raise EnvFailure(f'read of {r.length} bytes delivered {len(got)} bytes')
            if not (got == exp):
                raise EnvFailure('read delivered other bytes than the device holds in [addr, addr+length)')
            r.got = got
        if ok and kind == 'write' and not r.aliased:
            later = [q for q in self.reqs if q.kind == 'write' and q is not r and self.reqs.index(q) > self.reqs.index(r)]
            img = self.dev.image(self.mem_id)
            free = [j for j in range(r.length) if not any(q.off <= r.off + j < q.off + q.length for q in later)]
            if not ([img[r.off + j] for j in free] == [r.data[j] for j in free]):
                raise EnvFailure('write reported success but the device does not hold the data')

    # ---- requests
    def read(self, off, length):
        r = Req('read', self.el, off, self.base + off, length)
        busy = bool(self.outstanding('read'))
        self.reqs.append(r)
        self.dev.hint(off)
        ret = self.mem.read(self.el, r.addr, length)
        if ret is False:
            assert busy, 'read() refused although no read is outstanding on this memory (stale request record)'
            r.state = 'refused'
            self.sym.goal('read-refused-while-busy')
        else:
            assert ret is True
        return r

    def write(self, off, data, flush=False, progress=False):
        data = list(data)
        r = Req('write', self.el, off, self.base + off, len(data), data)
        if flush:
            for q in self.outstanding('write')[1:]:
                q.superseded = True
                self.sym.goal('write-superseded')
        if len(self.outstanding('write')) > 0:
            self.sym.goal('write-queued')
        self.reqs.append(r)
        kw = {}
        if flush:
            kw['flush_queue'] = True
        if progress:
            kw['progress_cb'] = lambda text, pct: r.progress.append(pct)
        self.dev.hint(off)
        ret = self.mem.write(self.el, r.addr, data, **kw)
        assert ret is True
        return r

    # ---- faults
    def drop_link(self):
        out = [r for r in self.reqs if r.state == 'out' and not r.superseded]
        for r in out:
            r.tainted = r.must_fail = True
        self.net.drop_all()
        self.dropped = True
        self.cf.disconnected.call(URI)
        for r in out:
            assert r.notes == 1 and r.state == 'failed', f'link dropped: {r} did not get exactly one failure notification'
        if out:
            self.sym.goal('drop-with-outstanding')
        self.hook()

    # ---- running
    def pump(self):
        while self.net.pending():
            # every accepted reply must bring a transfer at least one byte forward (one reply for an empty transfer); with
            # at most two copies per reply this bounds the replies of a history: beyond it some transfer is not terminating
            budget = 2 * sum(r.length + 1 for r in self.reqs if r.state != 'refused') + 4
            if self.net.delivered >= budget:
                raise EnvFailure(f'{self.net.delivered} replies delivered and requests are still being sent: '
                                 f'a transfer does not terminate ({[r for r in self.reqs if r.state == "out"]})')
            if self.net.delivered >= self.limit:
                raise Inconclusive(f'more than {self.limit} replies: raise the bound')
            pk, is_copy, overtaken, meta = self.net.pop_next()
            out = self.outstanding('read' if meta['chan'] == CH_READ else 'write')
            if not is_copy:
                # stop-and-wait: the request this reply answers was sent by the oldest outstanding request of its kind
                meta['owner'] = out[0] if out else None
            elif out and out[0] is not meta.get('owner') and meta['chan'] == CH_WRITE and \
                    out[0].off <= meta['off'] <= out[0].off + out[0].length:
                out[0].aliased = True
                self.sym.goal('duplicate-aliases-next-write')
            if meta.get('err'):
                for r in out:
                    r.tainted = True
                if out and not is_copy:
                    out[0].must_fail = True
                self.sym.goal('error-status')
            k = self.net.delivered
            self.net.deliver(pk)
            if is_copy:
                self.sym.goal('duplicate-delivered')
                if overtaken:
                    self.sym.goal('duplicate-overtaken')
            if self.faults is not None and self.faults.want_drop(k):
                self.drop_link()

    def settle(self):
        """Let every reply arrive, then check everything the property says about a quiescent subsystem."""
        self.pump()
        why = f' (exceptions swallowed by the dispatcher: {exc_names(self.net.swallowed)})' if self.net.swallowed else ''
        held = self.table.held()
        assert not held, f'lock left held with no request in progress: {held}{why}'
        for r in self.reqs:
            if r.state == 'refused':
                assert r.notes == 0
                continue
            if r.superseded:
                assert r.notes <= 1
                continue
            assert r.notes == 1 and r.state in ('ok', 'failed'), f'{r} never completed: no success or failure notification{why}'
            if r.aliased:
                continue
            if not r.tainted:
                assert r.state == 'ok', f'{r} failed although no error was reported and the link is up{why}'
            if r.must_fail:
                assert r.state == 'failed', f'{r} reported success although the device answered with an error status'
        self.check_image()
        rr = getattr(self.mem, '_read_requests', None)
        if rr is not None:
            assert len(rr) == 0, 'stale entry in _read_requests'
        wr = getattr(self.mem, '_write_requests', None)
        if wr is not None:
            assert all(len(q) == 0 for q in wr.values()), 'stale entry in _write_requests'

    def check_image(self):
        exp = list(self.init)
        for r in self.reqs:
            if r.kind != 'write' or r.state == 'refused':
                continue
            if r.state == 'ok' and not r.aliased:
                exp[r.off:r.off + r.length] = r.data
            else:       # failed, cut off by a link drop, or superseded: unspecified
                exp[r.off:r.off + r.length] = [None] * r.length
        img = self.dev.image(self.mem_id)
        assert len(img) == len(exp)
        idx = [j for j in range(len(exp)) if exp[j] is not None]
        assert [img[j] for j in idx] == [exp[j] for j in idx], \
            'device image differs from: initial image overlaid by the successful writes in order'

    def finish(self, follow_up=True):
        """End of the fault phase; then the follow-up write and read-back on the same memory must be served."""
        self.settle()
        if self.faults is not None:
            self.faults.on = False
        if follow_up:
            lo = self.reqs[0].off if self.reqs else 0
            n = min(self.sym.B.get('follow_len', 26), self.W - lo)
            w = self.write(lo, [pattern(100 + j) for j in range(n)])
            self.settle()
            assert w.state == 'ok'
            r = self.read(lo, min(n + 1, self.W - lo))
            self.settle()
            assert r.state == 'ok' and r.got[:n] == w.data
            self.sym.goal('follow-up-served')
        assert not self.table.held()
        assert not self.table.deadlocks

    def read_requests(self):
        return [e for e in self.dev.log if e[0] == 'read']

    def write_requests(self):
        return [e for e in self.dev.log if e[0] == 'write']


def run(world, body):
    try:
        body(world)
    finally:
        world.close()


# ------------------------------------------------------------------------------------------------ harnesses
def h_read_data(sym):
    """Fault-free read, every length 0..maxlen, symbolic address and image."""
    lo, hi = sym.B.get('lo', 3), sym.B.get('hi', 3)
    L = sym.choice('length', sym.B['maxlen'] + 1)
    w = World(sym, lo + max(L, 27) + hi)
    sym.apply_known()

    def body(w):
        r = w.read(lo, L)
        w.settle()
        assert r.state == 'ok' and len(r.got) == L
        n = len(w.read_requests())
        if L == 0:
            sym.goal('empty-read')
        if n >= 3:
            sym.goal('three-chunks')
        # chunks are disjoint and cover the range exactly once
        cover = []
        for (_, _, o, k) in w.read_requests():
            cover += list(range(o, o + k))
        assert cover == list(range(lo, lo + L)), 'the read requests do not cover the range exactly once, in order'
        w.finish()
    run(w, body)


def h_write_data(sym):
    """Fault-free write, every length 0..maxlen, symbolic address, data and image; with and without a progress callback."""
    lo, hi = sym.B.get('lo', 3), sym.B.get('hi', 3)
    L = sym.choice('length', sym.B['maxlen'] + 1)
    prog = True if sym.bool('progress_cb') else False
    w = World(sym, lo + max(L, 27) + hi, nsym=lo + L + hi)
    data = sym.bytes('d', L)
    sym.apply_known()

    def body(w):
        r = w.write(lo, data, progress=prog)
        w.settle()
        assert r.state == 'ok'
        cover, sent = [], []
        for (_, _, o, k) in w.write_requests():
            cover += list(range(o, o + k))
        assert cover == list(range(lo, lo + L)), 'the write requests do not cover the range exactly once, in order'
        if L == 0:
            sym.goal('empty-write')
        if len(w.write_requests()) >= 3:
            sym.goal('three-chunks')
        if prog:
            sym.goal('progress-callback')
            assert all(0 <= p <= 100 for p in r.progress) and r.progress == sorted(r.progress)
        w.finish()
    run(w, body)


def h_read_steps(sym):
    """Chunk arithmetic of reads for EVERY 32-bit address and length: the first `steps` requests, a reply with a foreign address
    before each genuine reply, and completion at whichever step the data run out."""
    K = sym.B['steps']
    mem_id = 3
    addr = sym.int('addr', 0, 2 ** 32 - 1)
    length = sym.int('length', 0, 2 ** 32)
    delta = sym.int('foreign_delta', 1, 2 ** 32 - 1)
    sym.assume(addr + length <= 2 ** 32)
    sym.apply_known()
    table = LockTable()
    undo = table.install()
    try:
        cf = MemCF()
        mem = Memory(cf)
        el = MemoryElement(id=mem_id, type=MemoryElement.TYPE_APP, size=0, mem_handler=mem)
        notes = []
        mem.mem_read_cb.add_callback(lambda m, a, d: notes.append(('ok', m, a, d)))
        mem.mem_read_failed_cb.add_callback(lambda m, a, d: notes.append(('failed', m, a, d)))

        def reply(a, data):
            pk = CRTPPacket()
            pk.set_header(PORT_MEM, CH_READ)
            pk.data = struct.pack('<BIB', mem_id, a, 0) + bytes(data)
            cf.incoming(pk)

        assert mem.read(el, addr, length) is True
        cur, left, exp = addr, length, []
        done = False
        for step in range(K):
            assert len(cf.sent) == step + 1, 'not exactly one request per accepted reply'
            pk = cf.sent[-1]
            assert pk.header == (PORT_MEM << 4 | 0x0c | CH_READ) and len(pk.data) == 6
            i, a, n = struct.unpack('<BIB', pk.data)
            assert i == mem_id
            assert a == cur, 'request does not continue where the accepted data ended'
            assert n <= MAX_READ_REPLY_DATA, 'reply would not fit in a CRTP packet'
            assert n <= left, 'request reaches beyond the range asked for'
            assert n >= 1 or left == 0, 'empty request although bytes are left'
            # a reply for another address (stale/foreign) is ignored
            reply((cur + delta) % 2 ** 32, [0xEE] * 4)
            assert len(cf.sent) == step + 1 and not notes, 'reply with a foreign address was not ignored'
            nc = conc(n)
            chunk = [pattern(len(exp) + j) for j in range(nc)]
            reply(a, chunk)
            exp += chunk
            cur, left = cur + nc, left - nc
            if left == 0:
                done = True
                break
            assert not notes, 'notification before the last byte arrived'
            sym.goal('continued')
        if done:
            assert len(notes) == 1 and notes[0][0] == 'ok' and notes[0][1] is el
            assert notes[0][2] == addr
            assert list(notes[0][3]) == exp
            assert len(cf.sent) == step + 1, 'request sent after completion'
            assert mem.read(el, addr, 0) is True, 'stale read record'
            sym.goal('completed')
            if step > 0:
                sym.goal('completed-after-several')
        assert not table.held()
    finally:
        undo()


def _faults(sym, n):
    B = sym.B
    return Faults(sym, n, dup=B.get('dup', False), late=B.get('late', False), err=B.get('err', False), drop=B.get('drop', False))


def h_read_faults(sym):
    """Reads under duplicated/overtaken replies, an error status at a solver-chosen chunk, link drop after a solver-chosen
    reply; a second read attempted while the first is outstanding; follow-up requests."""
    lo, hi = 3, 3
    lens = sym.B['lengths']
    L = lens[sym.choice('len_idx', len(lens))]
    f = _faults(sym, sym.B['max_requests'])
    w = World(sym, lo + max(L, 27) + hi, faults=f, nsym=sym.B.get('nsym', 0))
    sym.apply_known()

    def body(w):
        r = w.read(lo, L)
        if sym.B.get('second_read', True):
            r2 = w.read(lo + 1, 5)
            assert r2.state == 'refused'
        w.finish()
        if r.state == 'ok' and len(w.read_requests()) >= 3:
            sym.goal('two-chunks')
        if w.dropped and w.reqs[-1].state == 'ok':
            sym.goal('served-after-drop')
    run(w, body)


def h_write_faults(sym):
    """Two (three with flush_queue) writes queued on one memory, overlapping or not, under duplicated/overtaken acks, an error
    status at a solver-chosen chunk, link drop after a solver-chosen reply; follow-up requests."""
    lo, hi = 3, 3
    l1s, l2s, deltas = sym.B['len1'], sym.B['len2'], sym.B['deltas']
    L1 = l1s[sym.choice('len1_idx', len(l1s))]
    L2 = l2s[sym.choice('len2_idx', len(l2s))]
    delta = deltas[sym.choice('delta_idx', len(deltas))]
    flush = sym.B.get('flush', False)
    L3 = 2 if flush else 0
    prog = sym.B.get('progress', False)
    f = _faults(sym, sym.B['max_requests'])
    span = max(L1, delta + L2, 27, delta + 1 + L3)
    w = World(sym, lo + span + hi, faults=f, nsym=sym.B.get('nsym', 0))
    if sym.B.get('symdata', False):
        d1, d2, d3 = sym.bytes('a', L1), sym.bytes('b', L2), sym.bytes('c', L3)
    else:       # fault positions with concrete (pairwise different) contents; contents are symbolic in write_data
        d1, d2, d3 = [data_pattern(1, j) for j in range(L1)], [data_pattern(2, j) for j in range(L2)], \
            [data_pattern(3, j) for j in range(L3)]
    sym.apply_known()

    def body(w):
        w1 = w.write(lo, d1, progress=prog)
        w2 = w.write(lo + delta, d2, progress=prog)
        if flush:
            w.write(lo + delta + 1, d3, flush=True)
        w.finish()
        if w1.state == 'ok' and w2.state == 'ok':
            sym.goal('both-written')
        if w1.state == 'failed' and w2.state == 'ok':
            sym.goal('second-written-after-first-failed')
        if w.dropped and w.reqs[-1].state == 'ok':
            sym.goal('served-after-drop')
    run(w, body)


def h_mixed(sym):
    """A read and a write outstanding on the same memory at the same time (disjoint ranges), duplicated replies."""
    lo, hi = 3, 3
    LR, LW = sym.B['read_len'], sym.B['write_len']
    f = _faults(sym, sym.B['max_requests'])
    w = World(sym, lo + LR + 2 + LW + hi, faults=f, nsym=sym.B.get('nsym', 0))
    d = sym.bytes('d', LW) if sym.B.get('symdata', False) else [data_pattern(1, j) for j in range(LW)]
    order = sym.bool('write_first')
    sym.apply_known()

    def body(w):
        if order:
            ww = w.write(lo + LR + 2, d)
            r = w.read(lo, LR)
        else:
            r = w.read(lo, LR)
            ww = w.write(lo + LR + 2, d)
        w.finish()
        if r.state == 'ok' and ww.state == 'ok':
            sym.goal('both-done')
    run(w, body)


def h_write_steps(sym):
    """One acknowledgement of a write from an ARBITRARY progress state (inductive step; covers every write length, also the
    multi-kilobyte deck firmware writes that the end-to-end harnesses cannot reach): total length, address, size of the
    acknowledged chunk and the progress reported so far are symbolic; the number of bytes still to hand to the link is a
    solver-chosen case; with and without a progress callback."""
    from cflib.crazyflie.mem import _WriteRequest
    mem_id = 3
    rests = sym.B['rest']
    rest = rests[sym.choice('rest_idx', len(rests))]
    total = sym.int('total', 0, 2 ** 32)
    last = sym.int('acked_chunk', 0, 25)
    addr = sym.int('addr', 0, 2 ** 32 - 1)
    prev = sym.int('progress_so_far', -1, 100)
    delta = sym.int('foreign_delta', 1, 2 ** 32 - 1)
    has_cb = True if sym.bool('progress_cb') else False
    sym.assume(last + rest <= total)
    sym.assume(last >= 1 or total == 0)
    sym.assume(addr + last + rest <= 2 ** 32)
    # representation invariant: the percentage reported so far is at most that of the bytes acknowledged before this chunk
    sym.assume(prev == -1 or prev * total <= 100 * (total - rest - last))
    sym.apply_known()
    cf = MemCF()
    el = MemoryElement(id=mem_id, type=MemoryElement.TYPE_APP, size=0, mem_handler=None)
    data = [pattern(3 * j + 1) for j in range(rest)]
    reports = []
    req = _WriteRequest(el, addr, list(data), cf, progress_cb=(lambda text, pct: reports.append(pct)) if has_cb else None)
    req._write_len, req._bytes_left, req._current_addr, req._addr_add, req._progress = total, rest, addr, last, prev
    # an acknowledgement for another address changes nothing
    r0 = req.write_done((addr + delta) % 2 ** 32)
    assert not r0 and cf.sent == [] and reports == [], 'acknowledgement with a foreign address was not ignored'
    r = req.write_done(addr)
    if rest == 0:
        assert r is True, 'last acknowledgement does not complete the write'
        assert cf.sent == [], 'request sent after the last acknowledgement'
        sym.goal('completed')
    else:
        assert not r, 'write reported complete although bytes are left'
        assert len(cf.sent) == 1, 'acknowledgement of a chunk was not followed by exactly one request for the next chunk'
        pk = cf.sent[0]
        n = min(rest, MAX_WRITE_DATA)
        assert pk.header == (PORT_MEM << 4 | 0x0c | CH_WRITE) and len(pk.data) == 5 + n and len(pk.data) <= 30
        i, a = struct.unpack('<BI', bytes(pk.data[:5]))
        assert i == mem_id and a == addr + last, 'next chunk does not continue where the acknowledged one ended'
        assert list(pk.data[5:]) == data[:n]
        sym.goal('continued')
    assert len(reports) <= 1 and all(0 <= p <= 100 and p >= prev for p in reports), 'progress report out of range or going backwards'
    if reports:
        sym.goal('progress-reported')
    elif has_cb and rest:
        sym.goal('continued-without-new-progress')


def h_long(sym):
    """Long transfers (beyond the enumerated lengths): symbolic address, concrete content."""
    lens = sym.B['lengths']
    L = lens[sym.choice('len_idx', len(lens))]
    w = World(sym, L, nsym=0)
    sym.apply_known()

    def body(w):
        r = w.read(0, L)
        w.settle()
        assert r.state == 'ok'
        ww = w.write(0, [pattern(5 * j + 1) for j in range(L)])
        w.settle()
        assert ww.state == 'ok'
        r2 = w.read(0, L)
        w.settle()
        assert r2.state == 'ok' and r2.got == ww.data
        sym.goal('long-done')
    run(w, body)


def h_edges(sym):
    """Ranges touching address 0 and ending at 2^32: the window has no padding, base covers [0, 2^32 - W]."""
    lens = sym.B['lengths']
    L = lens[sym.choice('len_idx', len(lens))]
    end = True if sym.bool('at_end') else False
    base = (2 ** 32 - L) if end else 0
    w = World(sym, L, base=base)
    d = sym.bytes('d', L)
    sym.apply_known()

    def body(w):
        r = w.read(0, L)
        w.settle()
        assert r.state == 'ok'
        ww = w.write(0, d)
        w.settle()
        assert ww.state == 'ok'
        r2 = w.read(0, L)
        w.settle()
        assert r2.state == 'ok' and r2.got == ww.data
        sym.goal('end-of-address-space' if end else 'address-zero')
    run(w, body)


def h_tester(sym):
    """MemoryTester created by the real refresh handshake (info channel); read_data validates the pattern, write_data
    writes it; one byte of the image is corrupted at a solver-chosen offset."""
    maxlen = sym.B['maxlen']
    L = sym.choice('size', maxlen + 1)
    if sym.B.get('low_bytes'):
        # the low address byte (phase of the 0..255 test pattern) is a solver-chosen concrete case, the upper 24 bits are symbolic
        lows = sym.B['low_bytes']
        start = 256 * sym.int('start_page', 0, 2 ** 24 - 2) + lows[sym.choice('start_low_idx', len(lows))]
    else:
        start = sym.int('start', 0, 2 ** 32 - 64)
    if sym.B.get('no_corruption'):
        corrupt, delta = -1, 1
    else:
        corrupt = sym.int('corrupt_at', -1, maxlen - 1)      # -1: image is intact
        delta = sym.int('corrupt_by', 1, 255)
    sym.assume(corrupt < L)
    sym.apply_known()
    table = LockTable()
    undo = table.install()
    try:
        cf = MemCF()
        net = Net(cf)
        dev = MemDevice(net)
        cf.device = dev
        W = max(L, 1)
        img = []
        for j in range(W):
            good = (start + j) & 0xFF
            img.append(((good + delta) & 0xFF) if corrupt == j else good)
        dev.add_memory(0, 0, [0] * 8, mtype=MemoryElement.TYPE_APP)
        dev.add_memory(1, start, img, mtype=MemoryElement.TYPE_MEMORY_TESTER, size=0x1000)
        mem = Memory(cf)
        refreshed = []
        mem.refresh(lambda: refreshed.append(1))

        def pump():
            n = 0
            while net.pending():
                pk, _, _, _ = net.pop_next()
                net.deliver(pk)
                n += 1
                assert n < 20
        pump()
        assert refreshed == [1], 'refresh did not complete exactly once'
        assert not net.swallowed, exc_names(net.swallowed)
        assert [(m.id, m.type) for m in mem.mems] == [(0, MemoryElement.TYPE_APP), (1, MemoryElement.TYPE_MEMORY_TESTER)]
        t = mem.mems[1]
        assert isinstance(t, MemoryTester) and t.size == 0x1000
        seen = []
        t.read_data(start, L, lambda m: seen.append(m.readValidationSucess))
        pump()
        assert not net.swallowed, exc_names(net.swallowed)
        assert len(seen) == 1, 'read_data: completion callback not called exactly once'
        intact = bool(corrupt < 0)
        assert seen[0] == intact, 'memory tester verdict at completion differs from the comparison of the bytes read'
        assert t.readValidationSucess == intact
        sym.goal('intact' if intact else 'corruption-detected')
        if not intact:
            return
        # write: the device must end up holding the pattern (it holds something else before the write)
        cur = dev.image(1)
        for j in range(len(cur)):
            cur[j] = (cur[j] + 0x55) & 0xFF
        done = []
        t.write_data(start, L, lambda m, a: done.append(a))
        pump()
        assert len(done) == 1 and done[0] == start
        assert dev.image(1)[:L] == [(start + j) & 0xFF for j in range(L)]
        assert not table.held()
    finally:
        undo()


# ------------------------------------------------------------------------------------------------ deck memory layer
DECK_BASE = 0x130          # the deck's window inside the manager's memory (right behind the 257-byte info section)
DECK_W = 48


class DeckWorld(World):
    """World whose element is a DeckMemoryManager wired as Memory.refresh wires it; one deck (read+write, started) whose
    memory is the window [DECK_BASE, DECK_BASE+DECK_W) of the manager's memory.  Deck-level requests are registered with the
    world, so the memory-level oracle (exact bytes, one notification) applies to them too."""
    def __init__(self, sym, faults=None):
        World.__init__(self, sym, DECK_BASE + DECK_W, nsym=0, faults=faults, mem_id=3, base=0)
        img = self.dev.image(self.mem_id)
        info = [DeckMemoryManager.SUPPORTED_VERSION] + [0] * (DeckMemoryManager.SIZE_OF_INFO_SECTION - 1)
        rec = struct.pack('<BBLLL18s', DeckMemory.MASK_IS_VALID | DeckMemory.MASK_IS_STARTED | DeckMemory.MASK_SUPPORTS_READ |
                          DeckMemory.MASK_SUPPORTS_WRITE, 0, 0, 0, DECK_BASE, b'bcDeck')
        slot = 2
        at = 1 + slot * DeckMemoryManager.SIZE_OF_DECK_MEM_INFO
        info[at:at + len(rec)] = list(rec)
        img[0:len(info)] = info
        self.init = list(img)
        self.slot = slot
        self.deck = None
        self.deck_events = []        # (request, 'ok'|'failed', payload) from the deck-level callbacks

    def make_element(self, mem_id, W):
        m = self.mem
        el = DeckMemoryManager(id=mem_id, type=MemoryElement.TYPE_DECK_MEMORY, size=W, mem_handler=m)
        self._wire = lambda: (m.mem_read_cb.add_callback(el._new_data), m.mem_read_failed_cb.add_callback(el._new_data_failed),
                              m.mem_write_cb.add_callback(el._write_done), m.mem_write_failed_cb.add_callback(el._write_failed))
        self._wire()
        return el

    def query(self, with_failed_cb):
        n = DeckMemoryManager.SIZE_OF_INFO_SECTION
        r = Req('read', self.el, 0, 0, n)
        r.deck = 'query'
        self.reqs.append(r)
        self.dev.hint(0)
        kw = {'query_failed_cb': (lambda *a: self.deck_events.append((r, 'failed', a)))} if with_failed_cb else {}
        r.has_failed_cb = with_failed_cb
        self.el.query_decks(lambda decks: self.deck_events.append((r, 'ok', decks)), **kw)
        return r

    def deck_read(self, off, length, with_failed_cb):
        r = Req('read', self.el, DECK_BASE + off, DECK_BASE + off, length)
        r.deck = 'read'
        r.has_failed_cb = with_failed_cb
        self.reqs.append(r)
        self.dev.hint(DECK_BASE + off)
        kw = {'read_failed_cb': (lambda *a: self.deck_events.append((r, 'failed', a)))} if with_failed_cb else {}
        self.deck.read(off, length, lambda addr, data: self.deck_events.append((r, 'ok', (addr, data))), **kw)
        return r

    def deck_write(self, off, data, with_failed_cb):
        data = list(data)
        r = Req('write', self.el, DECK_BASE + off, DECK_BASE + off, len(data), data)
        r.deck = 'write'
        r.has_failed_cb = with_failed_cb
        self.reqs.append(r)
        self.dev.hint(DECK_BASE + off)
        kw = {'write_failed_cb': (lambda *a: self.deck_events.append((r, 'failed', a)))} if with_failed_cb else {}
        self.deck.write(off, data, lambda addr: self.deck_events.append((r, 'ok', (addr,))), **kw)
        return r

    def deck_settle(self):
        """Memory-level settle, then the deck layer: one deck-level notification per request that has a callback for the
        outcome, with the right payload."""
        self.settle()
        for r in self.reqs:
            if not hasattr(r, 'deck'):
                continue
            ev = [e for e in self.deck_events if e[0] is r]
            if r.state == 'ok':
                assert [e[1] for e in ev] == ['ok'], f'deck {r.deck}: {[e[1] for e in ev]} instead of one success notification'
                if r.deck == 'read':
                    addr, data = ev[0][2]
                    assert addr == r.off - DECK_BASE and list(data) == r.got, 'deck read delivered other bytes/another address'
                if r.deck == 'query':
                    decks = ev[0][2]
                    assert list(decks.keys()) == [self.slot] and decks[self.slot].name == 'bcDeck' and \
                        decks[self.slot]._base_address == DECK_BASE and decks[self.slot].supports_read and \
                        decks[self.slot].supports_write and decks[self.slot].is_started
            else:
                want = ['failed'] if r.has_failed_cb else []
                assert [e[1] for e in ev] == want, \
                    f'deck {r.deck} failed at memory level: deck-level notifications {[e[1] for e in ev]}, expected {want}'

    def drop_link(self):
        World.drop_link(self)
        self._wire()


def h_deck(sym):
    """DeckMemoryManager / DeckMemory over the real Memory: query, then a deck read and a deck write, each with or without its
    optional failure callback (solver-chosen), under an error status / duplicated replies / link drop at solver-chosen
    points; afterwards the same operations are served again (no 'ongoing' record left behind)."""
    f = _faults(sym, sym.B['max_requests'])
    w = DeckWorld(sym, faults=f)
    phase = sym.B['faults_in']          # 'query' | 'transfers'
    q_cb = sym.bool('query_has_failed_cb')
    if phase == 'query':
        r_cb, w_cb, L = True, True, 1
    else:
        r_cb, w_cb = sym.bool('read_has_failed_cb'), sym.bool('write_has_failed_cb')
        L = [1, 21][sym.choice('read_len_idx', 2)]
    sym.apply_known()

    def body(w):
        f.on = phase == 'query'
        q = w.query(True if q_cb else False)
        w.deck_settle()
        if w.dropped:
            sym.goal('dropped-during-query')
        f.on = phase == 'transfers'
        if q.state != 'ok':
            sym.goal('query-failed')
            q = w.query(True)                 # must not be refused as 'Query ongoing'
            w.deck_settle()
            assert q.state == 'ok'
        w.deck = w.el.deck_memories[w.slot]
        r = w.deck_read(2, L, True if r_cb else False)
        w.deck_settle()
        if r.state != 'ok':
            sym.goal('read-failed')
        d = [data_pattern(1, j) for j in range(26)]
        wr = w.deck_write(5, d, True if w_cb else False)
        w.deck_settle()
        if wr.state != 'ok':
            sym.goal('write-failed')
        f.on = False
        if w.dropped:
            q = w.query(True)
            w.deck_settle()
            w.deck = w.el.deck_memories[w.slot]
        # follow-up: the deck is still served
        r2 = w.deck_read(0, 30, True)
        w.deck_settle()
        assert r2.state == 'ok'
        w2 = w.deck_write(1, [data_pattern(2, j) for j in range(3)], True)
        w.deck_settle()
        assert w2.state == 'ok'
        assert not w.table.held() and not w.table.deadlocks
        sym.goal('deck-served-afterwards')
    run(w, body)


_F = dict(dup=True, late=True, err=True, drop=True, follow_len=2)
_DUP = dict(dup=True, late=True, follow_len=2)
_ERR = dict(err=True, drop=True, follow_len=2)
HARNESSES = [
    Harness('read_steps', h_read_steps, quick=dict(steps=3), thorough=dict(steps=5), timeout=(300, 900),
            goals=('continued', 'completed', 'completed-after-several')),
    Harness('write_steps', h_write_steps, quick=dict(rest=[0, 1, 25, 26]), thorough=dict(rest=[0, 1, 24, 25, 26, 51]), timeout=(300, 900),
            float_model='real', goals=('continued', 'completed', 'progress-reported', 'continued-without-new-progress'),
            note='percentage arithmetic decided over the reals (int(100*a/b) as the exact floor)'),
    Harness('read_data', h_read_data, quick=dict(maxlen=63), thorough=dict(maxlen=100), timeout=(300, 900),
            goals=('empty-read', 'three-chunks', 'follow-up-served')),
    Harness('read_data[fast answers]', h_read_data, quick=dict(maxlen=25, fast=True), thorough=dict(maxlen=45, fast=True), timeout=(300, 900),
            goals=('answered-during-send',), note='replies dispatched while the sender is still inside send_packet'),
    Harness('write_data', h_write_data, quick=dict(maxlen=52), thorough=dict(maxlen=77), timeout=(400, 1500),
            goals=('empty-write', 'three-chunks', 'progress-callback', 'follow-up-served')),
    Harness('read_faults', h_read_faults, quick=dict(lengths=[0, 1, 20, 21, 40], max_requests=4, **_F),
            thorough=dict(lengths=[0, 1, 20, 21, 40, 41, 60, 61], max_requests=6, **_F), timeout=(400, 1500),
            goals=('duplicate-delivered', 'duplicate-overtaken', 'error-status', 'drop-with-outstanding', 'two-chunks',
                   'read-refused-while-busy', 'served-after-drop', 'follow-up-served')),
    # writes: one concern per harness (the product of all fault kinds over all lengths is far beyond the budget)
    Harness('write_dup', h_write_faults, quick=dict(len1=[0, 1, 26], len2=[1, 26], deltas=[0, 30], max_requests=4, **_DUP),
            thorough=dict(len1=[0, 1, 25, 26, 51], len2=[0, 1, 26], deltas=[0, 25, 60], max_requests=6, **_DUP),
            timeout=(600, 1800), goals=('duplicate-delivered', 'duplicate-overtaken', 'duplicate-aliases-next-write',
                                        'write-queued', 'both-written', 'follow-up-served')),
    Harness('write_err_drop', h_write_faults, quick=dict(len1=[0, 1, 26], len2=[1, 26], deltas=[0, 30], max_requests=4, **_ERR),
            thorough=dict(len1=[0, 1, 25, 26, 51, 76], len2=[0, 1, 26, 51], deltas=[0, 25, 80], max_requests=8, **_ERR),
            timeout=(400, 1800), goals=('error-status', 'drop-with-outstanding', 'write-queued', 'both-written',
                                        'second-written-after-first-failed', 'served-after-drop', 'follow-up-served')),
    Harness('write_dup_err', h_write_faults, quick=dict(len1=[1, 26], len2=[1], deltas=[0, 30], max_requests=3, **_F),
            thorough=dict(len1=[1, 26], len2=[1, 26], deltas=[0, 30], max_requests=4, **_F), timeout=(400, 1800),
            goals=('duplicate-delivered', 'duplicate-overtaken', 'error-status', 'drop-with-outstanding',
                   'second-written-after-first-failed', 'served-after-drop', 'follow-up-served')),
    Harness('write_flush', h_write_faults, quick=dict(len1=[26], len2=[1], deltas=[0], max_requests=4, flush=True, **_DUP),
            thorough=dict(len1=[1, 26], len2=[1, 26], deltas=[0, 30], max_requests=6, flush=True, progress=True, **_F),
            timeout=(300, 1800), goals=('write-superseded', 'duplicate-delivered', 'follow-up-served')),
    Harness('mixed', h_mixed, quick=dict(read_len=21, write_len=26, max_requests=4, **_DUP),
            thorough=dict(read_len=41, write_len=51, max_requests=6, **_DUP), timeout=(300, 1800),
            goals=('both-done', 'duplicate-overtaken', 'follow-up-served')),
    Harness('long', h_long, quick=dict(lengths=[100, 256]), thorough=dict(lengths=[100, 255, 256, 1000]), timeout=(300, 900),
            goals=('long-done',)),
    Harness('edges', h_edges, quick=dict(lengths=[1, 26]), thorough=dict(lengths=[1, 20, 26, 51]), timeout=(200, 600),
            goals=('address-zero', 'end-of-address-space')),
    Harness('deck[faults in query]', h_deck, quick=dict(max_requests=14, err=True, drop=True, faults_in='query'),
            thorough=dict(max_requests=28, err=True, drop=True, dup=True, faults_in='query'),
            timeout=(600, 1800), goals=('query-failed', 'dropped-during-query', 'deck-served-afterwards', 'error-status'),
            note='deck memory layer (deck_memory.py) on the real Memory: the 13-chunk info-section query under an error status / '
                 'link drop at every reply, failure callback present or absent'),
    Harness('deck[faults in transfers]', h_deck, quick=dict(max_requests=8, err=True, drop=True, faults_in='transfers'),
            thorough=dict(max_requests=16, err=True, drop=True, dup=True, faults_in='transfers'),
            timeout=(600, 1800), goals=('read-failed', 'write-failed', 'deck-served-afterwards', 'error-status'),
            note='deck read and deck write under an error status / link drop at every reply, optional failure callbacks present or absent'),
    Harness('tester', h_tester, quick=dict(maxlen=21), thorough=dict(maxlen=30), timeout=(300, 1500),
            goals=('intact', 'corruption-detected')),
    Harness('tester[pattern wrap]', h_tester, quick=dict(maxlen=21, low_bytes=[0, 0x80, 0xEC, 0xF5, 0xFF], no_corruption=True),
            thorough=dict(maxlen=30, low_bytes=[0, 1, 0x80, 0xE2, 0xEC, 0xF5, 0xFE, 0xFF], no_corruption=True), timeout=(300, 1500),
            goals=('intact',),
            note='ranges that start at a concrete phase of the 0..255 test pattern and run across its wrap-around'),
]
