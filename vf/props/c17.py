"""C17 Flight helpers always end on the ground command and track motion faithfully.

MotionCommander / _SetPointThread and PositionHlCommander are run for real against a virtual clock (vf/env/c17_env.py):
the name `time` inside both modules is the clock, the setpoint thread is a task that is run from inside the virtual sleep
(its queue's get(timeout) either times out, advancing the virtual instant by exactly the update period, or leaves the body
through Yield), the commander / high-level commander only record (name, virtual instant, arguments).

Oracle (written from the statement, never from the formulas of the code):
  MotionCommander
   E  when the context is left / land() returns or raises: the commander log ends with send_stop_setpoint,
      send_notify_setpoint_stop; no hover setpoint is streamed in the following 3 update periods; nothing but hover
      setpoints was sent before
   P  consecutive hover setpoints (and the last one and the stop) are at most one update period apart
   Z  the first streamed height is 0 and  z[i+1] == z[i] + vz * (t[i+1] - t[i])  where vz is the vertical velocity of the
      motion command in force at t[i] (as handed to the setpoint task)
   D  for every blocking primitive: the integral of the streamed velocity (vx, vy, yaw rate) over the time the primitive's
      commands are in force, and the difference of the streamed height, equal the requested displacement; afterwards the
      streamed velocity is zero.  A blocking primitive does not raise for a legal request (velocity > 0, any distance
      incl. 0 and negative, angle >= 0, radius > 0)
   V  for every start_*/stop primitive: the streamed velocity in force afterwards is the requested one
  PositionHlCommander
   get_position() == start + sum of requested displacements after every primitive; every go_to sent targets that position,
   yaw 0, duration >= 0 with (duration * velocity)^2 == |displacement|^2; leaving the context / land() ends the log with
   land(landing height, duration) , stop and get_position() z == landing height.

Numbers: float_model='real'.  Every symbolic quantity is an exact real; equalities are exact in the symbolic run.  In the
concrete replay (IEEE doubles) equalities are taken with tolerance 1e-9 (float rounding is outside the claim)."""
import math

from vf.harness import Harness
from vf.explore import Inconclusive
from vf.env.c17_env import Clock, CF, install, is_sym

import cflib.positioning.motion_commander as M
import cflib.positioning.position_hl_commander as PH
from cflib.positioning.motion_commander import MotionCommander
from cflib.positioning.position_hl_commander import PositionHlCommander

FUNCTIONS = ['cflib.positioning.motion_commander:MotionCommander', 'cflib.positioning.motion_commander:_SetPointThread',
             'cflib.positioning.position_hl_commander:PositionHlCommander']
STUBS = ['name `time` in motion_commander / position_hl_commander -> virtual clock (time(), sleep(); sleep(d<0) raises ValueError '
         'as time.sleep does)',
         'name `Queue` in motion_commander -> FakeQueue: get(timeout) times out exactly at the deadline of the wait or yields',
         'threading.Thread.start/join/is_alive: no OS thread; _SetPointThread.run is the real body, executed as a task',
         'cf.commander / cf.high_level_commander / cf.param: recording stand-ins (wire format of the commands is C08)',
         'math.sqrt on exact reals: fresh r >= 0 with r*r == x (vf/plugins/mathfn.py)']
ASSUMPTIONS = ['context switches only at blocking calls; the setpoint task is scheduled either as soon as an event is queued '
               '("eager") or when the commanding thread blocks ("lazy"); both are explored',
               'Queue.get(timeout=p) returns exactly p after the wait began (no scheduling jitter)',
               'the commanding code takes no virtual time between blocking calls',
               'legal requests: velocities and rates > 0, turn angles >= 0, radii > 0, any real distance (also 0 and negative)',
               'each blocking primitive / idle time lasts at most `periods` update periods (bounds of the harness)']
OUTSIDE = ['IEEE rounding of the height integration and of velocity * time (decided over the reals)',
           'preemption inside _SetPointThread.run, scheduling jitter of the timeout',
           'primitives longer than the bound (the stream-period statement is inductive over one queue timeout)',
           'that landing reaches height 0 (land() descends by the last *streamed* height; not part of the statement)',
           'wire encoding of the setpoints (C08)']
EXPLANATION = 'C17: programs of motion primitives with symbolic kind and symbolic real distances / angles / idle times run through ' \
              'the real MotionCommander + _SetPointThread (virtual time) and the real PositionHlCommander.'

PERIOD = 0.2          # _SetPointThread.UPDATE_PERIOD as documented; asserted against the class below
TOL = 1e-9


class BodyError(Exception):
    """The exception the user's code raises inside the with-block."""


def _is_control(e):
    return isinstance(e, (AssertionError, Inconclusive, BodyError)) or type(e).__module__.startswith('crosshair')


# ------------------------------------------------------------------------------------------------ comparison helpers
class Checks:
    """Collects the obligations of one run; symbolic ones are decided together (one query), concrete ones at once."""
    def __init__(self, sym):
        self.sym = sym
        self.pending = []

    def eq(self, a, b, what, tol=0.0):
        if is_sym(a) or is_sym(b):
            self.add((a == b) if not tol else _and(a - b <= tol, b - a <= tol), what)
        else:                      # two python floats: computed with IEEE rounding
            t = max(tol, TOL)
            self.add(bool(a - b <= t and b - a <= t), what)

    def le(self, a, b, what):
        if is_sym(a) or is_sym(b):
            self.add(a <= b, what)
        else:
            self.add(bool(a <= b + TOL), what)

    def add(self, cond, what):
        if not is_sym(cond):
            assert cond, what
        else:
            self.pending.append((cond, what))

    def flush(self, what):
        if not self.pending:
            return
        conds = [c for c, _ in self.pending]
        names = sorted(set(w.split(':')[0] for _, w in self.pending))
        self.pending = []
        allc = _and(*conds)
        assert allc, what + ' [' + ', '.join(names) + ']'


def _and(*conds):
    """Conjunction of (symbolic) booleans as ONE solver term (python `and` would fork per conjunct)."""
    sym = [c for c in conds if is_sym(c)]
    if not all(c for c in conds if not is_sym(c)):
        return False
    if not sym:
        return True
    import z3
    from crosshair.libimpl.builtinslib import SymbolicBool
    from crosshair.tracers import NoTracing
    with NoTracing():
        return SymbolicBool(z3.And(*[c.var for c in sym]))


# ------------------------------------------------------------------------------------------------ MotionCommander programs
LIN = {'forward': (1, 0, 0), 'back': (-1, 0, 0), 'left': (0, 1, 0), 'right': (0, -1, 0), 'up': (0, 0, 1), 'down': (0, 0, -1)}


def _velocity(sym, i, default, what='v'):
    """(argument list for the call, effective value).  quick: library default or one other value; thorough (B['symv']):
    a symbolic real."""
    B = sym.B
    if B.get('symv'):
        v = sym.real(f'{what}{i}', B.get('vlo', 0.1), B.get('vhi', 1.0))
        return [v], v
    alts = B.get('alt_' + what, {'v': [0.5], 'rate': [90.0]}[what])
    s = sym.choice(f'{what}sel{i}', 1 + len(alts))
    if s == 0:
        return [], default
    return [alts[s - 1]], alts[s - 1]


def _bounded(sym, name, lim, lo_zero=False):
    """symbolic real in [-lim, lim] (or [0, lim]); lim may be symbolic (then it is an assumption, one fork)."""
    if isinstance(lim, float):
        return sym.real(name, 0.0 if lo_zero else -lim, lim)
    x = sym.real(name, 0.0 if lo_zero else -10.0, 10.0)
    sym.assume(_and(x <= lim, -lim <= x))
    return x


def mc_step(sym, i, kind, mc, clock):
    """Create the symbolic arguments of step i, call the primitive, return the specification record."""
    B = sym.B
    span = B['periods'] * PERIOD          # longest duration of one primitive / idle time
    idle = None
    if kind in LIN:
        va, v = _velocity(sym, i, MotionCommander.VELOCITY)
        d = _bounded(sym, f'd{i}', span * v)
        ax = LIN[kind]
        spec = dict(type='block', D=(ax[0] * d, ax[1] * d, ax[2] * d, 0.0))
        call = lambda: getattr(mc, kind)(d, *va)
    elif kind == 'move':
        va, v = _velocity(sym, i, MotionCommander.VELOCITY)
        ns = B.get('move_sym', 1)
        lim = B.get('move_lim', 0.1)
        comps = [0.03125, -0.0625, 0.015625]      # powers of two: products with the concrete velocities stay exact
        which = sym.choice(f'axis{i}', 3) if ns == 1 else 0
        for j in range(3):
            if (ns == 1 and j == which) or ns >= 3 or (ns == 2 and j != 2):
                comps[j] = sym.real(f'm{i}{"xyz"[j]}', -lim, lim)
        spec = dict(type='block', D=(comps[0], comps[1], comps[2], 0.0))
        call = lambda: mc.move_distance(comps[0], comps[1], comps[2], *va)
    elif kind in ('turn_left', 'turn_right'):
        ra, rate = _velocity(sym, i, MotionCommander.RATE, 'rate')
        a = _bounded(sym, f'a{i}', span * rate, lo_zero=True)
        spec = dict(type='block', D=(0.0, 0.0, 0.0, a if kind == 'turn_left' else -a))
        call = lambda: getattr(mc, kind)(a, *ra)
    elif kind in ('circle_left', 'circle_right'):
        sgn = 1 if kind == 'circle_left' else -1
        var = sym.choice(f'csel{i}', 3)
        if var == 0:          # radius symbolic, full circle (default angle), velocity 0.5
            v = 0.5
            r = sym.real(f'r{i}', 0.001, span * v / (2 * math.pi))
            spec = dict(type='block', D=(2 * r * math.pi, 0.0, 0.0, sgn * 360.0))
            call = lambda: getattr(mc, kind)(r, v)
        elif var == 1:        # angle symbolic, radius 0.5, velocity 0.25: the code computes 360 v / (2 pi r) on doubles -> tolerance
            v, r = 0.25, 0.5
            a = sym.real(f'a{i}', 0.0, span * v * 360.0 / (2 * r * math.pi))
            spec = dict(type='block', D=(2 * r * math.pi * a / 360.0, 0.0, 0.0, sgn * a), tol=1e-9)
            call = lambda: getattr(mc, kind)(r, v, a)
        else:                 # library default velocity: 360.0 * 0.2 is rounded inside the code -> tolerance on the yaw
            r = sym.real(f'r{i}', 0.001, span * MotionCommander.VELOCITY / (2 * math.pi))
            spec = dict(type='block', D=(2 * r * math.pi, 0.0, 0.0, sgn * 360.0), tol=1e-9)
            call = lambda: getattr(mc, kind)(r)
    elif kind.startswith('start_') and kind[6:] in LIN:
        va, v = _velocity(sym, i, MotionCommander.VELOCITY)
        ax = LIN[kind[6:]]
        spec = dict(type='start', V=(ax[0] * v, ax[1] * v, ax[2] * v, 0.0))
        call = lambda: getattr(mc, kind)(*va)
        idle = True
    elif kind in ('start_turn_left', 'start_turn_right'):
        ra, rate = _velocity(sym, i, MotionCommander.RATE, 'rate')
        spec = dict(type='start', V=(0.0, 0.0, 0.0, rate if kind == 'start_turn_left' else -rate))
        call = lambda: getattr(mc, kind)(*ra)
        idle = True
    elif kind in ('start_circle_left', 'start_circle_right'):
        sgn = 1 if kind == 'start_circle_left' else -1
        v = 0.5
        r = sym.real(f'r{i}', 0.05, 2.0)
        spec = dict(type='start', V=(v, 0.0, 0.0, None), circle=(r, sgn))     # yaw rate * 2 pi r == 360 v
        call = lambda: getattr(mc, kind)(r, v)
        idle = True
    elif kind == 'start_linear_motion':
        vx, vy, yr = sym.real(f'lx{i}', -1.0, 1.0), sym.real(f'ly{i}', -1.0, 1.0), sym.real(f'lr{i}', -90.0, 90.0)
        vz = sym.real(f'lz{i}', -0.5, 0.5) if B.get('symv') else [0.0, 0.25, -0.125][sym.choice(f'lzsel{i}', 3)]
        spec = dict(type='start', V=(vx, vy, vz, yr))
        call = lambda: mc.start_linear_motion(vx, vy, vz, yr)
        idle = True
    elif kind == 'stop':
        spec = dict(type='start', V=(0.0, 0.0, 0.0, 0.0))
        call = lambda: mc.stop()
        idle = True
    elif kind == 'wait':
        spec = dict(type='wait')
        call = lambda: None
        idle = True
    else:
        raise AssertionError(kind)
    w = sym.real(f'w{i}', 0.0, span) if idle else None
    spec.update(kind=kind, idle=w, raised=None)
    q = clock.queues[-1] if clock.queues else None
    spec['put0'] = q.nput if q else 0
    try:
        call()
    except Exception as e:
        if _is_control(e):
            raise
        spec['raised'] = type(e).__name__
    spec['put1'] = q.nput if q else 0
    if spec['raised'] is None and w is not None:
        clock.sleep(w)          # the user's own time.sleep between non-blocking commands
    return spec


def h_mc(sym):
    B = sym.B
    assert M._SetPointThread.UPDATE_PERIOD == PERIOD
    sched = B.get('sched', 'any')
    if sched == 'any':
        sched = 'eager' if sym.bool('eager') else 'lazy'
    clock = Clock(sym.real('t0', 0.0, 1000.0), sched, max_ticks=B.get('max_ticks', 60))
    install(clock, [M])
    cf = CF(clock)
    log = cf.commander.log
    explicit = B.get('mode', 'with') == 'explicit'
    h0 = None
    if B.get('sym_height'):
        h0 = sym.real('h0', 0.0, B['periods'] * PERIOD * MotionCommander.VELOCITY)
        mc = MotionCommander(cf) if explicit else MotionCommander(cf, default_height=h0)
    else:
        mc = MotionCommander(cf)
    kinds = B['kinds']
    n = sym.choice('n', len(kinds) + 1) if B.get('varlen', True) else len(kinds)
    sym.apply_known()
    specs = []
    flight_exc = None
    raise_in_body = False
    try:
        if explicit:
            try:
                if h0 is not None:
                    mc.take_off(h0)
                else:
                    mc.take_off()
                for i in range(n):
                    specs.append(mc_step(sym, i, kinds[i][sym.choice(f'k{i}', len(kinds[i]))], mc, clock))
            finally:
                mc.land()
        else:
            with mc:
                for i in range(n):
                    specs.append(mc_step(sym, i, kinds[i][sym.choice(f'k{i}', len(kinds[i]))], mc, clock))
                raise_in_body = True if sym.bool('raise') else False
                if raise_in_body:
                    raise BodyError()
    except BodyError:
        sym.goal('body-raised')
    except Exception as e:
        if _is_control(e):
            raise
        flight_exc = type(e).__name__

    # ---- E: the flight ended on the ground command, whatever happened
    n_end = len(log)
    started = bool(clock.queues) or n_end > 0
    if started:
        names = [e[0] for e in log]
        assert names[-2:] == ['stop', 'notify'], f'flight left (exception: {flight_exc}) without stop + notify at the end of the ' \
                                                 f'command stream: ...{names[-3:]}'
        assert all(x == 'hover' for x in names[:-2]), ('unexpected command in the stream', [x for x in names[:-2] if x != 'hover'][:3])
    clock.sleep(3 * PERIOD)
    assert len(log) == n_end, f'{len(log) - n_end} hover setpoint(s) streamed after the flight was left (exception: {flight_exc})'
    assert not clock.tasks, 'setpoint task still alive'
    assert flight_exc is None, f'take-off / landing raised {flight_exc}'
    for s in specs:
        assert s['raised'] is None, f"{s['kind']} raised {s['raised']} for a legal request"
    sym.goal('landed')

    # ---- P, Z, D, V on the hover stream
    hov = log[:-2]
    stop_t = log[-2][1]
    q = clock.queues[-1]
    assert not q.items
    ck = Checks(sym)
    T = [e[1] for e in hov]
    S = [e[2] for e in hov]          # (vx, vy, yawrate, z)
    N = [e[3] for e in hov]          # number of events dequeued when the setpoint was sent
    assert len(hov) > 0
    for i in range(len(hov) - 1):
        ck.le(T[i + 1] - T[i], PERIOD, 'P: hover setpoints more than one update period apart')
    ck.le(stop_t - T[-1], PERIOD, 'P: stop later than one update period after the last hover setpoint')

    def vz_of(tag):
        if tag == 0:
            return 0.0
        ev = q.taken[tag - 1][1]
        assert isinstance(ev, tuple) and len(ev) == 4, ev
        return ev[2]
    ck.eq(S[0][3], 0.0, 'Z: first streamed height is not 0')
    for i in range(len(hov) - 1):
        ck.eq(S[i + 1][3], S[i][3] + vz_of(N[i]) * (T[i + 1] - T[i]), 'Z: streamed height does not integrate the commanded vertical velocity')
    ck.flush('stream')

    def first_idx(tag):
        for i in range(len(hov)):
            if N[i] >= tag:
                return i
        raise AssertionError('no hover setpoint after a motion command')
    for s in specs:
        a, b = s['put0'], s['put1']
        if s['type'] == 'block':
            D = s['D']
            tol = s.get('tol', 0.0)
            if b == a:
                got = (0.0, 0.0, 0.0, 0.0)
            else:
                i0, i1 = first_idx(a + 1), first_idx(b)
                acc = [0.0, 0.0, 0.0]
                for i in range(i0, i1):
                    dt = T[i + 1] - T[i]
                    for j in range(3):
                        acc[j] = acc[j] + S[i][j] * dt
                got = (acc[0], acc[1], S[i1][3] - S[i0][3], acc[2])
                for j in range(3):
                    ck.eq(S[i1][j], 0.0, f"D: {s['kind']} returned with a motion still commanded")
                ck.eq(vz_of(N[i1]), 0.0, f"D: {s['kind']} returned with a vertical motion still commanded")
                if i1 - i0 > 1:
                    sym.goal('streamed-during-primitive')
            for j in range(4):
                ck.eq(got[j], D[j], f"D: {s['kind']} commanded velocity x time != requested displacement ({'x y z yaw'.split()[j]})", tol)
            ck.flush(s['kind'])
            sym.goal('blocking')
        elif s['type'] == 'start':
            assert b > a, 'no motion command issued'
            i1 = first_idx(b)
            V = s['V']
            ck.eq(S[i1][0], V[0], f"V: {s['kind']} vx")
            ck.eq(S[i1][1], V[1], f"V: {s['kind']} vy")
            ck.eq(vz_of(N[i1]), V[2], f"V: {s['kind']} vz")
            if V[3] is None:
                r, sgn = s['circle']
                ck.eq(S[i1][2] * (2 * r * math.pi), sgn * 360.0 * V[0], f"V: {s['kind']} yaw rate x circumference != 360 x velocity")
            else:
                ck.eq(S[i1][2], V[3], f"V: {s['kind']} yaw rate")
            ck.flush(s['kind'])
            sym.goal('non-blocking')


ALL_BLOCK = ['forward', 'back', 'left', 'right', 'up', 'down', 'move', 'turn_left', 'turn_right', 'circle_left', 'circle_right']
ALL_START = ['start_forward', 'start_back', 'start_left', 'start_right', 'start_up', 'start_down', 'start_turn_left',
             'start_turn_right', 'start_circle_left', 'start_circle_right', 'start_linear_motion', 'stop', 'wait']

_REAL = dict(float_model='real', per_path=120.0)

HARNESSES = [
    Harness('mc_single[block]', h_mc, quick=dict(kinds=[ALL_BLOCK], periods=6), timeout=(280, 1500),
            goals=('landed', 'blocking', 'body-raised', 'streamed-during-primitive'), **_REAL),
]
