"""C17 Flight helpers always end on the ground command and track motion faithfully.

MotionCommander / _SetPointThread and PositionHlCommander are run for real against a virtual clock (vf/env/c17_env.py):
the name `time` inside both modules is the clock, the setpoint thread is a task that is run from inside the virtual sleep
(its queue's get(timeout) either times out, advancing the virtual instant by exactly the update period, or leaves the body
through Yield), the commander / high-level commander only record (name, virtual instant, arguments).

Oracle (written from the statement, never from the formulas of the code):
  MotionCommander
   E  when the context is left / land() returns or raises: the commander log ends with send_stop_setpoint,
      send_notify_setpoint_stop; no hover setpoint is streamed in the following 3 update periods; the setpoint task is dead;
      a second land() sends nothing
   P  consecutive hover setpoints (and the last one and the stop) are at most one update period apart
   Z  the first streamed height is 0 and  z[i+1] == z[i] + vz * (t[i+1] - t[i])  where vz is the vertical velocity of the
      motion command in force at t[i] (as handed to the setpoint task)
   D  for every blocking primitive: the integral of the streamed velocity (vx, vy, yaw rate) over the time the primitive's
      commands are in force, and the difference of the streamed height, equal the requested displacement; afterwards the
      streamed velocity is zero.  A blocking primitive does not raise for a legal request (velocity > 0, any distance
      incl. 0 and negative, angle >= 0, radius > 0)
   V  for every start_*/stop primitive: the streamed velocity in force afterwards is the requested one
  PositionHlCommander
   get_position() == start + sum of requested displacements after every primitive (take-off: z = the height asked for);
   at most one command per primitive, none only if the displacement is 0, else an absolute go_to to that position with
   duration >= 0 and (duration * velocity)^2 == |displacement|^2; leaving the context / land() ends the log with
   land(landing height, .), stop and get_position() z == landing height; a second land() sends nothing.

Numbers: float_model='real'.  Every symbolic quantity is an exact real; equalities are exact in the symbolic run.  In the
concrete replay (IEEE doubles) equalities are taken with tolerance 1e-9 (float rounding is outside the claim)."""
import math

from vf.harness import Harness
from vf.explore import Inconclusive
from vf.env.c17_env import Clock, CF, install, is_sym

import cflib.positioning.motion_commander as M
import cflib.positioning.position_hl_commander as PH
from cflib.positioning.motion_commander import MotionCommander
from cflib.positioning.position_hl_commander import PositionHlCommander

FUNCTIONS = ['cflib.positioning.motion_commander:MotionCommander', 'cflib.positioning.motion_commander:_SetPointThread',
             'cflib.positioning.position_hl_commander:PositionHlCommander']
STUBS = ['name `time` in motion_commander / position_hl_commander -> virtual clock (time(), sleep(); sleep(d<0) raises ValueError '
         'as time.sleep does)',
         'name `Queue` in motion_commander -> FakeQueue: get(timeout) times out exactly at the deadline of the wait or yields',
         'threading.Thread.start/join/is_alive: no OS thread; _SetPointThread.run is the real body, executed as a task',
         'cf.commander / cf.high_level_commander / cf.param: recording stand-ins (wire format of the commands is C08)',
         'math.sqrt on exact reals: fresh r >= 0 with r*r == x (vf/plugins/mathfn.py), plus the implied fact r == |t| when x is '
         'syntactically t*t (vf/env/c17_env.py; redundant constraint, spares the solver non-linear reasoning)',
         'the instant the flight starts is a symbolic real (all clock arithmetic stays exact in the real-number model)']
ASSUMPTIONS = ['context switches only at blocking calls; the setpoint task is scheduled either as soon as an event is queued '
               '("eager") or when the commanding thread blocks ("lazy"); both are explored',
               'Queue.get(timeout=p) returns exactly p after the wait began (no scheduling jitter)',
               'the commanding code takes no virtual time between blocking calls',
               'legal requests: velocities and rates > 0, turn angles >= 0, radii > 0, any real distance (also 0 and negative)',
               'each blocking primitive / idle time lasts at most `periods` update periods (bounds of the harness)']
OUTSIDE = ['IEEE rounding of the height integration and of velocity * time (decided over the reals)',
           'preemption inside _SetPointThread.run, scheduling jitter of the timeout',
           'primitives longer than the bound (the stream-period statement is inductive over one queue timeout)',
           'that landing reaches height 0 (land() descends by the last *streamed* height; not part of the statement)',
           'wire encoding of the setpoints (C08)']
EXPLANATION = 'C17: programs of motion primitives with symbolic kind and symbolic real distances / angles / idle times run through ' \
              'the real MotionCommander + _SetPointThread (virtual time) and the real PositionHlCommander.'

PERIOD = 0.2          # _SetPointThread.UPDATE_PERIOD as documented; asserted against the class below
TOL = 1e-9


class BodyError(Exception):
    """The exception the user's code raises inside the with-block."""


def _is_control(e):
    return isinstance(e, (AssertionError, Inconclusive, BodyError)) or type(e).__module__.startswith('crosshair')


# ------------------------------------------------------------------------------------------------ comparison helpers
class Checks:
    """Collects the obligations of one run; symbolic ones are decided together (one query), concrete ones at once."""
    def __init__(self, sym):
        self.sym = sym
        self.pending = []

    def eq(self, a, b, what, tol=0.0):
        if is_sym(a) or is_sym(b):
            self.add((a == b) if not tol else _and(a - b <= tol, b - a <= tol), what)
        else:                      # two python floats: computed with IEEE rounding
            t = max(tol, TOL)
            self.add(bool(a - b <= t and b - a <= t), what)

    def le(self, a, b, what):
        if is_sym(a) or is_sym(b):
            self.add(a <= b, what)
        else:
            self.add(bool(a <= b + TOL), what)

    def add(self, cond, what):
        if not is_sym(cond):
            assert cond, what
        else:
            self.pending.append((cond, what))

    def flush(self, what):
        if not self.pending:
            return
        conds = [c for c, _ in self.pending]
        names = sorted(set(w.split(':')[0] for _, w in self.pending))
        self.pending = []
        allc = _and(*conds)
        assert allc, what + ' [' + ', '.join(names) + ']'


def _and(*conds):
    """Conjunction of (symbolic) booleans as ONE solver term (python `and` would fork per conjunct)."""
    sym = [c for c in conds if is_sym(c)]
    if not all(c for c in conds if not is_sym(c)):
        return False
    if not sym:
        return True
    import z3
    from crosshair.libimpl.builtinslib import SymbolicBool
    from crosshair.tracers import NoTracing
    with NoTracing():
        return SymbolicBool(z3.And(*[c.var for c in sym]))


def _known(sym, final=False):
    """Known-finding predicates (known_findings.json) over inputs that only exist on some paths: each predicate is applied as
    soon as every name it mentions exists on this path (BaseSym.apply_known wants all names at one point)."""
    if not sym.known and sym.only is None:
        return
    ns = dict(sym.values_ns())
    G = {'__builtins__': {'any': any, 'all': all, 'range': range, 'len': len, 'abs': abs}}
    done = sym.notes.setdefault('_known_done', set())
    for j, pred in enumerate(sym.known):
        if j in done:
            continue
        try:
            v = eval(pred, G, ns)
        except NameError:
            continue
        done.add(j)
        sym.assume(not v)
    if sym.only is not None and 'only' not in done:
        try:
            v = eval(sym.only, G, ns)
        except NameError:
            if final:
                sym.assume(False)          # this path never enters the region of the finding
            return
        done.add('only')
        sym.assume(v)


# ------------------------------------------------------------------------------------------------ MotionCommander programs
LIN = {'forward': (1, 0, 0), 'back': (-1, 0, 0), 'left': (0, 1, 0), 'right': (0, -1, 0), 'up': (0, 0, 1), 'down': (0, 0, -1)}


def _velocity(sym, i, default, what='v'):
    """(argument list for the call, effective value).  quick: library default or one other value; thorough (B['symv']):
    a symbolic real."""
    B = sym.B
    if B.get('symv'):
        v = sym.real(f'{what}{i}', B.get('vlo', 0.1), B.get('vhi', 1.0))
        return [v], v
    alts = B.get('alt_' + what, {'v': [0.5], 'rate': [90.0]}[what])
    s = sym.choice(f'{what}sel{i}', 1 + len(alts))
    if s == 0:
        return [], default
    return [alts[s - 1]], alts[s - 1]


def _bounded(sym, name, lim, lo_zero=False):
    """symbolic real in [-lim, lim] (or [0, lim]); lim may be symbolic (then it is an assumption, one fork)."""
    if not is_sym(lim):
        return sym.real(name, 0.0 if lo_zero else -lim, lim)
    x = sym.real(name, 0.0 if lo_zero else -10.0, 10.0)
    sym.assume(_and(x <= lim, -lim <= x))
    return x


def mc_step(sym, i, kind, mc, clock):
    """Create the symbolic arguments of step i, call the primitive, return the specification record."""
    B = sym.B
    span = B['periods'] * PERIOD          # longest duration of one primitive / idle time
    idle = None
    if kind in LIN:
        va, v = _velocity(sym, i, MotionCommander.VELOCITY)
        d = _bounded(sym, f'd{i}', span * v)
        ax = LIN[kind]
        spec = dict(type='block', D=(ax[0] * d, ax[1] * d, ax[2] * d, 0.0))
        call = lambda: getattr(mc, kind)(d, *va)
    elif kind == 'move':
        va, v = _velocity(sym, i, MotionCommander.VELOCITY)
        ns = B.get('move_sym', 1)
        lim = B.get('move_lim', 0.1)
        comps = [0.03125, -0.0625, 0.015625]      # powers of two: products with the concrete velocities stay exact
        which = sym.choice(f'axis{i}', 3) if ns == 1 else 0
        for j in range(3):
            if (ns == 1 and j == which) or ns >= 3 or (ns == 2 and j != 2):
                comps[j] = sym.real(f'm{i}{"xyz"[j]}', -lim, lim)
        spec = dict(type='block', D=(comps[0], comps[1], comps[2], 0.0))
        call = lambda: mc.move_distance(comps[0], comps[1], comps[2], *va)
    elif kind in ('turn_left', 'turn_right'):
        ra, rate = _velocity(sym, i, MotionCommander.RATE, 'rate')
        a = _bounded(sym, f'a{i}', span * rate, lo_zero=True)
        spec = dict(type='block', D=(0.0, 0.0, 0.0, a if kind == 'turn_left' else -a))
        call = lambda: getattr(mc, kind)(a, *ra)
    elif kind in ('circle_left', 'circle_right'):
        sgn = 1 if kind == 'circle_left' else -1
        var = 3 if B.get('symv') else sym.choice(f'csel{i}', 3)
        if var == 3:          # thorough: radius, velocity and angle symbolic
            r, v, a = sym.real(f'r{i}', 0.05, 2.0), sym.real(f'v{i}', 0.1, 1.0), sym.real(f'a{i}', 0.0, 720.0)
            arc = 2 * r * math.pi * a / 360.0
            sym.assume(arc <= span * v)
            spec = dict(type='block', D=(arc, 0.0, 0.0, sgn * a))
            call = lambda: getattr(mc, kind)(r, v, a)
        elif var == 0:          # radius symbolic, full circle (default angle), velocity 0.5
            v = 0.5
            r = sym.real(f'r{i}', 0.001, span * v / (2 * math.pi))
            spec = dict(type='block', D=(2 * r * math.pi, 0.0, 0.0, sgn * 360.0))
            call = lambda: getattr(mc, kind)(r, v)
        elif var == 1:        # angle symbolic, radius 0.5, velocity 0.25: the code computes 360 v / (2 pi r) on doubles -> tolerance
            v, r = 0.25, 0.5
            a = sym.real(f'a{i}', 0.0, span * v * 360.0 / (2 * r * math.pi))
            spec = dict(type='block', D=(2 * r * math.pi * a / 360.0, 0.0, 0.0, sgn * a), tol=1e-9)
            call = lambda: getattr(mc, kind)(r, v, a)
        else:                 # library default velocity: 360.0 * 0.2 is rounded inside the code -> tolerance on the yaw
            r = sym.real(f'r{i}', 0.001, span * MotionCommander.VELOCITY / (2 * math.pi))
            spec = dict(type='block', D=(2 * r * math.pi, 0.0, 0.0, sgn * 360.0), tol=1e-9)
            call = lambda: getattr(mc, kind)(r)
    elif kind.startswith('start_') and kind[6:] in LIN:
        va, v = _velocity(sym, i, MotionCommander.VELOCITY)
        ax = LIN[kind[6:]]
        spec = dict(type='start', V=(ax[0] * v, ax[1] * v, ax[2] * v, 0.0))
        call = lambda: getattr(mc, kind)(*va)
        idle = True
    elif kind in ('start_turn_left', 'start_turn_right'):
        ra, rate = _velocity(sym, i, MotionCommander.RATE, 'rate')
        spec = dict(type='start', V=(0.0, 0.0, 0.0, rate if kind == 'start_turn_left' else -rate))
        call = lambda: getattr(mc, kind)(*ra)
        idle = True
    elif kind in ('start_circle_left', 'start_circle_right'):
        sgn = 1 if kind == 'start_circle_left' else -1
        v = sym.real(f'v{i}', 0.1, 1.0) if B.get('symv') else 0.5
        r = sym.real(f'r{i}', 0.05, 2.0)
        spec = dict(type='start', V=(v, 0.0, 0.0, None), circle=(r, sgn))     # yaw rate * 2 pi r == 360 v
        call = lambda: getattr(mc, kind)(r, v)
        idle = True
    elif kind == 'start_linear_motion':
        vx, vy, yr = sym.real(f'lx{i}', -1.0, 1.0), sym.real(f'ly{i}', -1.0, 1.0), sym.real(f'lr{i}', -90.0, 90.0)
        vz = sym.real(f'lz{i}', -0.5, 0.5) if B.get('symv') else [0.0, 0.25, -0.125][sym.choice(f'lzsel{i}', 3)]
        spec = dict(type='start', V=(vx, vy, vz, yr))
        call = lambda: mc.start_linear_motion(vx, vy, vz, yr)
        idle = True
    elif kind == 'stop':
        spec = dict(type='start', V=(0.0, 0.0, 0.0, 0.0))
        call = lambda: mc.stop()
        idle = True
    elif kind == 'wait':
        spec = dict(type='wait')
        call = lambda: None
        idle = True
    else:
        raise AssertionError(kind)
    w = sym.real(f'w{i}', 0.0, span) if idle else None
    spec.update(kind=kind, idle=w, raised=None)
    _known(sym)
    q = clock.queues[-1] if clock.queues else None
    spec['put0'] = q.nput if q else 0
    try:
        call()
    except Exception as e:
        if _is_control(e):
            raise
        spec['raised'] = type(e).__name__
    spec['put1'] = q.nput if q else 0
    if spec['raised'] is None and w is not None:
        clock.sleep(w)          # the user's own time.sleep between non-blocking commands
    return spec


def h_mc(sym):
    B = sym.B
    assert M._SetPointThread.UPDATE_PERIOD == PERIOD
    sched = B.get('sched', 'any')
    if sched == 'any':
        sched = 'eager' if sym.bool('eager') else 'lazy'
    clock = Clock(sym.real('t0', 0.0, 1000.0), sched, max_ticks=B.get('max_ticks', 60))
    install(clock, [M])
    cf = CF(clock)
    log = cf.commander.log
    explicit = B.get('mode', 'with') == 'explicit'
    h0 = None
    if B.get('sym_height'):
        h0 = sym.real('h0', 0.0, B['periods'] * PERIOD * MotionCommander.VELOCITY)
        mc = MotionCommander(cf) if explicit else MotionCommander(cf, default_height=h0)
    else:
        mc = MotionCommander(cf)
    kinds = B['kinds']
    n = sym.choice('n', len(kinds) + 1) if B.get('varlen', True) else len(kinds)
    _known(sym)
    specs = []
    flight_exc = None
    rm = B.get('raise_mode', 'sym')

    def take_off_spec(height):
        # taking off is "go up to `height`" from the ground; the library default is a python float and the code then
        # divides doubles (0.2 * 0.3 / 0.3): tolerance
        q = clock.queues[-1]
        specs.append(dict(type='block', kind='take_off', D=(0.0, 0.0, height, 0.0), put0=0, put1=q.nput, raised=None,
                          tol=0.0 if is_sym(height) else 1e-9))

    def body():
        for i in range(n):
            specs.append(mc_step(sym, i, kinds[i][sym.choice(f'k{i}', len(kinds[i]))], mc, clock))
        if (True if sym.bool('raise') else False) if rm == 'sym' else (rm == 'yes'):
            raise BodyError()
    try:
        if explicit:
            va, _ = _velocity(sym, 'T', MotionCommander.VELOCITY)
            vl, _ = _velocity(sym, 'L', MotionCommander.VELOCITY)
            try:
                if h0 is not None:
                    mc.take_off(h0, *va)
                elif va:
                    mc.take_off(velocity=va[0])
                else:
                    mc.take_off()
                take_off_spec(h0 if h0 is not None else 0.3)
                body()
            finally:
                mc.land(*vl)
        else:
            with mc:
                take_off_spec(h0 if h0 is not None else 0.3)
                body()
    except BodyError:
        sym.goal('body-raised')
    except Exception as e:
        if _is_control(e):
            raise
        flight_exc = type(e).__name__

    _known(sym, final=True)
    # ---- E: the flight ended on the ground command, whatever happened
    n_end = len(log)
    started = bool(clock.queues) or n_end > 0
    if started:
        names = [e[0] for e in log]
        assert names[-2:] == ['stop', 'notify'], f'flight left (exception: {flight_exc}) without stop + notify at the end of the ' \
                                                 f'command stream: ...{names[-3:]}'
    clock.sleep(3 * PERIOD)
    assert len(log) == n_end, f'{len(log) - n_end} hover setpoint(s) streamed after the flight was left (exception: {flight_exc})'
    if flight_exc is None:
        mc.land()               # landing again is a no-op
        assert len(log) == n_end, 'command sent by land() after the flight was over'
    assert not clock.tasks, 'setpoint task still alive'
    assert flight_exc is None, f'take-off / landing raised {flight_exc}'
    for s in specs:
        assert s['raised'] is None, f"{s['kind']} raised {s['raised']} for a legal request"
    sym.goal('landed')

    # ---- P, Z, D, V on the hover stream
    hov = [e for e in log[:-2] if e[0] == 'hover']
    stop_t = log[-2][1]
    q = clock.queues[-1]
    assert not q.items
    ck = Checks(sym)
    T = [e[1] for e in hov]
    S = [e[2] for e in hov]          # (vx, vy, yawrate, z)
    N = [e[3] for e in hov]          # number of events dequeued when the setpoint was sent
    assert len(hov) > 0
    for i in range(len(hov) - 1):
        ck.le(T[i + 1] - T[i], PERIOD, 'P: hover setpoints more than one update period apart')
    ck.le(stop_t - T[-1], PERIOD, 'P: stop later than one update period after the last hover setpoint')

    def vz_of(tag):
        if tag == 0:
            return 0.0
        ev = q.taken[tag - 1][1]
        if not (isinstance(ev, tuple) and len(ev) == 4):
            raise Inconclusive('the events handed to the setpoint task are no longer (vx, vy, vz, yaw rate) tuples')
        return ev[2]
    ck.eq(S[0][3], 0.0, 'Z: first streamed height is not 0')
    for i in range(len(hov) - 1):
        ck.eq(S[i + 1][3], S[i][3] + vz_of(N[i]) * (T[i + 1] - T[i]), 'Z: streamed height does not integrate the commanded vertical velocity')
    ck.flush('stream')

    def first_idx(tag):
        for i in range(len(hov)):
            if N[i] >= tag:
                return i
        raise AssertionError('no hover setpoint after a motion command')
    for s in specs:
        a, b = s['put0'], s['put1']
        if s['type'] == 'block':
            D = s['D']
            tol = s.get('tol', 0.0)
            if b == a:
                got = (0.0, 0.0, 0.0, 0.0)
            else:
                i0, i1 = first_idx(a + 1), first_idx(b)
                acc = [0.0, 0.0, 0.0]
                for i in range(i0, i1):
                    dt = T[i + 1] - T[i]
                    for j in range(3):
                        acc[j] = acc[j] + S[i][j] * dt
                got = (acc[0], acc[1], S[i1][3] - S[i0][3], acc[2])
                for j in range(3):
                    ck.eq(S[i1][j], 0.0, f"D: {s['kind']} returned with a motion still commanded")
                ck.eq(vz_of(N[i1]), 0.0, f"D: {s['kind']} returned with a vertical motion still commanded")
                if i1 - i0 > 1:
                    sym.goal('streamed-during-primitive')
            for j in range(4):
                ck.eq(got[j], D[j], f"D: {s['kind']} commanded velocity x time != requested displacement ({'x y z yaw'.split()[j]})", tol)
            ck.flush(s['kind'])
            sym.goal('blocking')
        elif s['type'] == 'start':
            assert b > a, 'no motion command issued'
            i1 = first_idx(b)
            V = s['V']
            ck.eq(S[i1][0], V[0], f"V: {s['kind']} vx")
            ck.eq(S[i1][1], V[1], f"V: {s['kind']} vy")
            ck.eq(vz_of(N[i1]), V[2], f"V: {s['kind']} vz")
            if V[3] is None:
                r, sgn = s['circle']
                ck.eq(S[i1][2] * (2 * r * math.pi), sgn * 360.0 * V[0], f"V: {s['kind']} yaw rate x circumference != 360 x velocity")
            else:
                ck.eq(S[i1][2], V[3], f"V: {s['kind']} yaw rate")
            ck.flush(s['kind'])
            sym.goal('non-blocking')


# ------------------------------------------------------------------------------------------------ PositionHlCommander
PHL_LIN = LIN
PHL_KINDS = ['forward', 'back', 'left', 'right', 'up', 'down', 'move', 'go_to', 'go_to_default_z', 'set_default_velocity',
             'set_default_height', 'set_landing_height']


def _opt(sym, name, lo, hi, present=None):
    """An optional argument: (present?, value). Present -> symbolic real."""
    if present is None:
        present = True if sym.bool('has_' + name) else False
    return (True, sym.real(name, lo, hi)) if present else (False, None)


def h_phl(sym):
    B = sym.B
    clock = Clock(sym.real('t0', 0.0, 1000.0), 'eager')
    install(clock, [PH])
    cf = CF(clock)
    hl = cf.high_level_commander.log
    R = B.get('range', 4.0)
    start = [sym.real('x0', -R, R), sym.real('y0', -R, R), sym.real('z0', -R, R)]
    kw = {}
    st = dict(v=0.5, h=0.5, lh=0.0)          # documented defaults of the constructor
    for key, arg, lo, hi in (('v', 'default_velocity', 0.1, 2.0), ('h', 'default_height', 0.1, 2.0),
                             ('lh', 'default_landing_height', -R, R)):
        has, val = _opt(sym, 'c_' + key, lo, hi, present=None if B.get('ctor_args', True) else False)
        if has:
            kw[arg] = val
            st[key] = val
    pc = PositionHlCommander(cf, start[0], start[1], start[2], **kw)
    assert not hl
    clock.sleep(sym.real('w0', 0.0, 2.0))          # the user does something else between construction and take-off
    kinds = B['kinds']
    n = sym.choice('n', len(kinds) + 1) if B.get('varlen', True) else len(kinds)
    explicit = B.get('mode', 'with') == 'explicit'
    _known(sym)
    ck = Checks(sym)
    pos = list(start)
    flight_exc = None

    def position_is(where):
        got = pc.get_position()
        for j in range(3):
            ck.eq(got[j], pos[j], f'position: get_position() {"xyz"[j]} != start + commanded displacements ({where})')

    def step(i):
        kind = kinds[i][sym.choice(f'k{i}', len(kinds[i]))]
        n0 = len(hl)
        target = None
        vel = st['v']
        if kind in PHL_LIN or kind == 'move':
            has_v, v = _opt(sym, f'v{i}', 0.1, 2.0, present=None if B.get('step_v', True) else False)
            va = [v] if has_v else []
            vel = v if has_v else st['v']
            if kind == 'move':
                dx, dy, dz = (sym.real(f'm{i}{c}', -R, R) for c in 'xyz')
                pc.move_distance(dx, dy, dz, *va)
            else:
                d = sym.real(f'd{i}', -R, R)
                ax = PHL_LIN[kind]
                dx, dy, dz = ax[0] * d, ax[1] * d, ax[2] * d
                getattr(pc, kind)(d, *va)
            target = [pos[0] + dx, pos[1] + dy, pos[2] + dz]
        elif kind in ('go_to', 'go_to_default_z'):
            has_v, v = _opt(sym, f'v{i}', 0.1, 2.0, present=None if B.get('step_v', True) else False)
            vel = v if has_v else st['v']
            gx, gy = sym.real(f'g{i}x', -R, R), sym.real(f'g{i}y', -R, R)
            if kind == 'go_to':
                gz = sym.real(f'g{i}z', -R, R)
                if has_v:
                    pc.go_to(gx, gy, gz, v)
                else:
                    pc.go_to(gx, gy, gz)
            else:
                gz = st['h']
                if has_v:
                    pc.go_to(gx, gy, velocity=v)
                else:
                    pc.go_to(gx, gy)
            target = [gx, gy, gz]
        elif kind == 'set_default_velocity':
            st['v'] = sym.real(f'sv{i}', 0.1, 2.0)
            pc.set_default_velocity(st['v'])
        elif kind == 'set_default_height':
            st['h'] = sym.real(f'sh{i}', -R, R)
            pc.set_default_height(st['h'])
        elif kind == 'set_landing_height':
            st['lh'] = sym.real(f'sl{i}', -R, R)
            pc.set_landing_height(st['lh'])
        else:
            raise AssertionError(kind)
        new = hl[n0:]
        _known(sym)
        if target is None:
            assert not new, 'a settings change sent a command'
        else:
            delta = [target[j] - pos[j] for j in range(3)]
            assert len(new) <= 1, 'more than one command for one primitive'
            if not new:
                ck.add(_and(delta[0] == 0, delta[1] == 0, delta[2] == 0), 'go_to: no command sent for a non-zero displacement')
                sym.goal('zero-move')
            else:
                name, _, a = new[0]
                assert name == 'go_to', name
                x, y, z, yaw, dur, relative = a[0], a[1], a[2], a[3], a[4], a[5]
                assert not relative, 'relative go_to'
                for j, g in enumerate((x, y, z)):
                    ck.eq(g, target[j], f'go_to: target {"xyz"[j]} is not start + commanded displacements')
                ck.le(0.0, dur, 'go_to: negative duration')
                dv = dur * vel
                ck.eq(dv * dv, delta[0] * delta[0] + delta[1] * delta[1] + delta[2] * delta[2], 'go_to: duration != distance / velocity')
                sym.goal('go_to')
            pos[:] = target
        position_is(kind)
        ck.flush(kind)

    try:
        if explicit:
            has_h, h = _opt(sym, 'to_h', 0.1, 2.0)
            has_v, v = _opt(sym, 'to_v', 0.1, 2.0)
            lkw = {}
            try:
                pc.take_off(**({'height': h} if has_h else {}), **({'velocity': v} if has_v else {}))
                pos[2] = h if has_h else st['h']
                for i in range(n):
                    step(i)
            finally:
                has_lv, lv = _opt(sym, 'l_v', 0.1, 2.0)
                has_lh, lh_arg = _opt(sym, 'l_h', -R, R)
                if has_lv:
                    lkw['velocity'] = lv
                if has_lh:
                    lkw['landing_height'] = lh_arg
                land_v = lv if has_lv else st['v']
                land_h = lh_arg if has_lh else st['lh']
                z_before = pos[2]
                pc.land(**lkw)
        else:
            try:
                with pc:
                    pos[2] = st['h']
                    position_is('take_off')
                    for i in range(n):
                        step(i)
                    land_v, land_h, z_before = st['v'], st['lh'], pos[2]
                    if sym.bool('raise'):
                        raise BodyError()
            finally:
                land_v, land_h, z_before = st['v'], st['lh'], pos[2]
    except BodyError:
        sym.goal('body-raised')
    except Exception as e:
        if _is_control(e):
            raise
        flight_exc = type(e).__name__
    _known(sym, final=True)
    names = [e[0] for e in hl]
    assert names[-2:] == ['land', 'stop'], f'flight left (exception: {flight_exc}) without land + stop at the end of the command ' \
                                           f'stream: ...{names[-3:]}'
    assert flight_exc is None, f'the flight raised {flight_exc}'
    la = hl[-2][2]
    ck.eq(la[0], land_h, 'land: not to the landing height')
    pos[2] = land_h
    position_is('land')
    ck.flush('land')
    n_end = len(hl)
    pc.land()
    assert len(hl) == n_end, 'command sent after the flight was over'
    sym.goal('landed')


ALL_BLOCK = ['forward', 'back', 'left', 'right', 'up', 'down', 'move', 'turn_left', 'turn_right', 'circle_left', 'circle_right']
ALL_START = ['start_forward', 'start_back', 'start_left', 'start_right', 'start_up', 'start_down', 'start_turn_left',
             'start_turn_right', 'start_circle_left', 'start_circle_right', 'start_linear_motion', 'stop', 'wait']

_REAL = dict(float_model='real', per_path=120.0)
_G1 = ('landed', 'blocking', 'body-raised', 'streamed-during-primitive')
_G1S = ('landed', 'non-blocking', 'body-raised')
_PAIR2 = ['up', 'down', 'forward', 'turn_left', 'start_down', 'stop']
_NOALT = dict(alt_v=[], alt_rate=[])


def _single(name, kinds, goals, sched='any', t=(280, 1700), **extra):
    """One primitive (or none) inside `with MotionCommander`: every duration up to 6 update periods, library-default or one
    other velocity (quick) / symbolic velocity per kind (thorough harnesses mc1v[*]), raise-in-body flag symbolic."""
    return Harness(f'mc1[{name}]', h_mc, quick=dict(kinds=[kinds], periods=6, sched=sched, **extra), timeout=t, goals=goals, **_REAL)


def _singlev(name, kinds, goals, sched='any', tiers=('thorough',), **extra):
    return Harness(f'mc1v[{name}]', h_mc, quick=dict(kinds=[kinds], periods=6, sched=sched, symv=True, **extra), timeout=(280, 1700),
                   tiers=tiers, goals=goals, **_REAL)


def _pair(first, sched, raise_mode):
    q = dict(kinds=[[first], _PAIR2], periods=3, sched=sched, varlen=False, raise_mode=raise_mode, **_NOALT)
    th = dict(kinds=[[first], _PAIR2], periods=5, sched=sched, varlen=False, raise_mode=raise_mode, **_NOALT)
    goals = ('landed', 'blocking') if first in ALL_BLOCK else ('landed', 'non-blocking')
    return Harness(f'mc2[{first}]', h_mc, quick=q, thorough=th, timeout=(280, 1700),
                   goals=goals + (('body-raised',) if raise_mode == 'yes' else ()), **_REAL)


def _triple(first, sched, raise_mode):
    b = dict(kinds=[[first], ['up', 'down', 'start_down', 'stop'], ['down', 'forward', 'start_up', 'stop']], periods=2, sched=sched,
             varlen=False, raise_mode=raise_mode, **_NOALT)
    return Harness(f'mc3[{first}]', h_mc, quick=b, timeout=(1700, 1700), tiers=('thorough',), goals=('landed',), **_REAL)


HARNESSES = [
    _single('horizontal', ['forward', 'back', 'left', 'right'], _G1),
    _single('vertical,eager', ['up', 'down'], _G1, sched='eager'),
    _single('vertical,lazy', ['up', 'down'], _G1, sched='lazy'),
    _single('move,eager', ['move'], _G1, sched='eager'),
    _single('move,lazy', ['move'], _G1, sched='lazy'),
    _single('turn,circle', ['turn_left', 'turn_right', 'circle_left', 'circle_right'], _G1),
    _single('start-linear', ALL_START[:6], _G1S),
    _single('start-other', ALL_START[6:], _G1S),
    # thorough: the same single-primitive programs with symbolic velocities / rates (and all three components of move_distance)
    _singlev('horizontal', ['forward', 'back', 'left', 'right'], _G1, tiers=('quick', 'thorough')),
    _singlev('vertical,eager', ['up', 'down'], _G1, sched='eager'),
    _singlev('vertical,lazy', ['up', 'down'], _G1, sched='lazy'),
    _singlev('move', ['move'], ('landed', 'blocking', 'streamed-during-primitive'), sched='eager', move_sym=3, raise_mode='no'),
    _singlev('turn,circle', ['turn_left', 'turn_right', 'circle_left', 'circle_right'], _G1, tiers=('quick', 'thorough')),
    _singlev('start-linear', ALL_START[:6], _G1S),
    _singlev('start-other', ALL_START[6:], _G1S),
    # take-off height symbolic (0 included): as constructor default inside `with`, and as argument of take_off() ... land()
    Harness('mc_height[with]', h_mc, quick=dict(kinds=[['down', 'forward', 'stop']], periods=2, sched='any', sym_height=True, **_NOALT),
            thorough=dict(kinds=[['up', 'down', 'forward', 'stop', 'start_down']], periods=4, sched='any', sym_height=True, **_NOALT),
            timeout=(280, 1700), goals=('landed', 'blocking', 'body-raised'), **_REAL),
    Harness('mc_height[explicit]', h_mc, quick=dict(kinds=[['down', 'start_down', 'turn_left']], periods=2, sched='any', sym_height=True,
                                                    mode='explicit', raise_mode='no', **_NOALT),
            thorough=dict(kinds=[['down', 'start_down', 'turn_left', 'up']], periods=4, sched='any', sym_height=True,
                          mode='explicit', raise_mode='sym', **_NOALT),
            timeout=(280, 1700), goals=('landed', 'blocking'), **_REAL),
    Harness('mc_explicit', h_mc, quick=dict(kinds=[['up', 'start_up']], periods=2, sched='any', mode='explicit', alt_rate=[]),
            thorough=dict(kinds=[['up', 'forward', 'start_up', 'down', 'turn_left']], periods=4, sched='any', mode='explicit'),
            timeout=(280, 1700), goals=('landed', 'blocking', 'body-raised'), **_REAL),
    _pair('up', 'eager', 'no'), _pair('down', 'lazy', 'yes'), _pair('forward', 'lazy', 'no'), _pair('turn_left', 'eager', 'yes'),
    _pair('start_up', 'eager', 'yes'), _pair('start_down', 'lazy', 'no'), _pair('start_forward', 'eager', 'no'),
    _pair('stop', 'lazy', 'yes'),
    _triple('up', 'eager', 'no'), _triple('start_up', 'lazy', 'yes'), _triple('down', 'lazy', 'no'), _triple('start_forward', 'eager', 'yes'),
]
HARNESSES += [
    Harness('phl1', h_phl, quick=dict(kinds=[PHL_KINDS]), timeout=(280, 1700), goals=('landed', 'go_to', 'zero-move', 'body-raised'), **_REAL),
    Harness('phl1[explicit]', h_phl, quick=dict(kinds=[['up', 'go_to', 'set_landing_height']], mode='explicit', ctor_args=False),
            thorough=dict(kinds=[PHL_KINDS], mode='explicit', ctor_args=False),
            timeout=(280, 1700), goals=('landed', 'go_to', 'zero-move'), **_REAL),
    Harness('phl2', h_phl, quick=dict(kinds=[['up', 'right', 'go_to', 'set_default_velocity', 'set_default_height'],
                                             ['down', 'move', 'go_to', 'go_to_default_z', 'set_landing_height']],
                                      ctor_args=False, varlen=False, step_v=False),
            thorough=dict(kinds=[PHL_KINDS, PHL_KINDS], ctor_args=False, varlen=False, step_v=False),
            timeout=(280, 1700), goals=('landed', 'go_to', 'zero-move', 'body-raised'), **_REAL),
    Harness('phl3', h_phl, quick=dict(kinds=[['up', 'go_to', 'set_default_velocity', 'set_default_height'],
                                             ['move', 'go_to_default_z', 'left', 'set_landing_height'],
                                             ['down', 'go_to', 'go_to_default_z', 'back']], ctor_args=False, varlen=False, step_v=False),
            timeout=(1700, 1700), tiers=('thorough',), goals=('landed', 'go_to', 'zero-move', 'body-raised'), **_REAL),
    Harness('phl4', h_phl, quick=dict(kinds=[['up', 'set_default_height'], ['go_to', 'set_landing_height'], ['go_to_default_z', 'forward'],
                                             ['down', 'move']], ctor_args=False, varlen=False, step_v=False),
            timeout=(1700, 1700), tiers=('thorough',), goals=('landed', 'go_to', 'zero-move', 'body-raised'), **_REAL),
]
