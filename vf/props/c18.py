"""C18 CPX framing and routing preserve packets under any stream fragmentation.

Oracle: the wire formats written down in vf/env/c18_env.py (CPX routing header, 16-bit length prefix on TCP,
0xFF/length/XOR framing with 0xFF 0x00 clear-to-send on UART, CRTP header byte + data inside function CRTP), written
from the CPX protocol description, not from cflib.  The checks compare what the real code writes to a scripted
in-memory socket / serial port with that reference, and what it reads from reference-encoded streams with the
packets that were encoded, for every way the solver can cut the stream into recv() results."""
from vf.harness import Harness
from vf.explore import Yield
from vf.env.base import step
from vf.env import c18_env as E

E.install()

from cflib.cpx import CPXPacket, CPXTarget, CPXFunction, CPXRouter      # noqa: E402
from cflib.cpx.transports import SocketTransport                        # noqa: E402
from cflib.crtp.tcpdriver import TcpDriver                              # noqa: E402
from cflib.crtp.serialdriver import SerialDriver                        # noqa: E402
from cflib.crtp.crtpstack import CRTPPacket                             # noqa: E402

FUNCTIONS = ['cflib.cpx:CPXPacket', 'cflib.cpx:CPXRouter', 'cflib.cpx:CPX', 'cflib.cpx:CPXTarget', 'cflib.cpx:CPXFunction',
             'cflib.cpx.transports:SocketTransport', 'cflib.cpx.transports:UARTTransport',
             'cflib.crtp.tcpdriver:TcpDriver.connect', 'cflib.crtp.tcpdriver:TcpDriver.send_packet',
             'cflib.crtp.tcpdriver:TcpDriver.receive_packet', 'cflib.crtp.tcpdriver:_CPXReceiveThread.run',
             'cflib.crtp.serialdriver:SerialDriver.connect', 'cflib.crtp.serialdriver:SerialDriver.send_packet',
             'cflib.crtp.serialdriver:SerialDriver.receive_packet', 'cflib.crtp.serialdriver:_CPXReceiveThread.run',
             'cflib.crtp.crtpstack:CRTPPacket.__init__']
STUBS = ['cflib.cpx.transports.socket -> in-memory FakeSocket: recv(n) returns 1..min(n, pending) bytes, the count is a solver '
         'variable; recv on an empty stream leaves the thread body (Yield)',
         'cflib.cpx.transports.serial -> FakeSerial with pyserial timeout=None semantics (read(n) returns exactly n bytes); '
         'pyserial is not installed in the sandbox, the name is injected; cflib.crtp.serialdriver.list_ports -> one fake port',
         'cflib.cpx.queue.Queue -> subclass of the real queue.Queue whose blocking get on an empty queue leaves the thread body '
         '(Yield); storage and order are the library\'s',
         'cflib.cpx.transports.Lock -> FakeLock (acquire of a held lock runs the router task, which releases it on clear-to-send)',
         'threading.Thread.start never starts an OS thread; CPXRouter.run and _CPXReceiveThread.run are stepped',
         'print() silenced in cflib.cpx, cflib.cpx.transports, cflib.crtp.tcpdriver, cflib.crtp.serialdriver; '
         'traceback.format_exc (imported locally by CPXRouter.run / _CPXReceiveThread.run to print the exception they swallow) '
         'returns a fixed string',
         'symbolic mode only: struct.unpack with an empty format returns () and ord() of a 1-byte symbolic bytes object returns '
         'its element (stock CrossHair raises / enumerates the value); both wrappers live in vf/env/c18_env.py']
ASSUMPTIONS = ['wire formats are those in vf/env/c18_env.py (firmware sources are not in the sandbox)',
               'recv blocks until at least one byte is there and never returns b\'\' (peer does not close mid-stream)',
               'context switches only at blocking calls (recv/read, queue get, lock acquire)',
               'a receiver exists (has called receivePacket once) before the packets it must get arrive; packets of a function '
               'nobody has asked for yet may be dropped (queues are created on first receive, as the property states)',
               'the last-packet flag of tunnelled CRTP packets and the two CRTP link bits are not constrained by the oracle',
               'host byte order is little-endian (struct format "H" without prefix is native order)',
               'socket.send() takes the whole buffer (SocketTransport.writePacket ignores its return value)',
               'UART harnesses: one byte per frame is symbolic (CRTP header byte, or last payload byte), the others are fixed '
               'values; frames are complete when the router task runs']
OUTSIDE = ['peer closing the socket mid-frame', 'corrupted UART frames (checksum mismatch is only printed by cflib)',
           'UART packets above the 100 byte limit', 'packets whose data attribute is replaced after construction (CPXPacket.length '
           'is computed once in __init__)', 'payloads longer than the bound except for the single 300-byte frame harness',
           'preemption between two bytecodes']
EXPLANATION = 'C18: the real CPXPacket codec, SocketTransport/UARTTransport framing, CPXRouter.run and the TCP/serial CRTP ' \
              'drivers run on scripted in-memory streams; header bytes, payload bytes, CRTP port/channel and the sizes returned ' \
              'by every recv() are solver variables.'

T, F = E.TARGETS, E.FUNCS
TNAMES = ('STM32', 'ESP32', 'HOST', 'GAP8')
FNAMES = ('SYSTEM', 'CONSOLE', 'CRTP', 'WIFI_CTRL', 'APP', 'TEST', 'BOOTLOADER')
HOST, STM32 = T['HOST'], T['STM32']


def _container(kind, pl):
    if kind == 'tuple':
        return tuple(pl)
    if kind == 'bytearray':
        return bytearray(pl)
    return list(pl)


# ------------------------------------------------------------------------------------------------ packet codec
def h_decode(sym):
    """Every pair of routing-header bytes: decoded as the spec says, or refused (unsupported version, values outside the
    enumerations), never mis-decoded."""
    L = sym.B['len']
    b0, b1 = sym.int('b0', 0, 255), sym.int('b1', 0, 255)
    pl = sym.bytes('p', L)
    sym.apply_known()
    p = CPXPacket()
    try:
        p.wireData = bytearray([b0, b1] + pl)
        raised = None
    except Exception as e:      # noqa
        raised = e
    ver, func = b1 // 64, b1 % 64
    last, src, dst = (b0 // 64) % 2, (b0 // 8) % 8, b0 % 8
    if ver != 0:
        assert raised is not None, 'packet of an unsupported version accepted'
        sym.goal('version-rejected')
        return
    if not (src in E.VALID_TARGETS and dst in E.VALID_TARGETS and func in E.VALID_FUNCS):
        assert raised is not None, 'value outside the enumeration decoded'
        sym.goal('invalid-rejected')
        return
    assert raised is None, 'valid packet refused'
    assert isinstance(p.source, CPXTarget) and isinstance(p.destination, CPXTarget) and isinstance(p.function, CPXFunction)
    assert p.source.value == src and p.destination.value == dst and p.function.value == func
    assert p.source.name == TNAMES[src - 1] and p.destination.name == TNAMES[dst - 1]
    assert F[p.function.name] == func
    assert p.lastPacket == (last == 1), 'last-packet flag'
    assert p.version == 0
    assert p.length == L and len(p.data) == L
    assert list(p.data) == pl, 'payload'
    sym.goal('decoded')


def h_roundtrip(sym):
    """Encode with the real packet class for every (source, destination, function, flag, version), compare the bytes with
    the reference header, decode them again with the real class."""
    L = sym.B['len']
    sname, dname, fname = TNAMES[sym.choice('src', 4)], TNAMES[sym.choice('dst', 4)], FNAMES[sym.choice('func', 7)]
    last = sym.bool('last')
    ver = sym.int('ver', 0, 3) if sym.B.get('versions', True) else 0
    pl = sym.bytes('p', L)
    sym.apply_known()
    p = CPXPacket(function=CPXFunction[fname], destination=CPXTarget[dname], source=CPXTarget[sname],
                  data=_container(sym.B['container'], pl))
    assert p.length == L
    p.lastPacket = last
    p.version = ver
    wire = p.wireData
    lastbit = 1 if last else 0
    assert len(wire) == L + 2
    assert list(wire) == E.ref_header(T[sname], T[dname], F[fname], lastbit, ver) + pl, 'wire bytes differ from the CPX header layout'
    q = CPXPacket()
    try:
        q.wireData = wire
        raised = None
    except Exception as e:      # noqa
        raised = e
    if ver != 0:
        assert raised is not None, 'packet of an unsupported version accepted'
        sym.goal('version-rejected')
        return
    assert raised is None
    assert q.source is CPXTarget[sname] and q.destination is CPXTarget[dname] and q.function is CPXFunction[fname]
    assert q.lastPacket == last
    assert q.length == L and list(q.data) == pl
    sym.goal('roundtrip')
    if last:
        sym.goal('last-flag')


# ------------------------------------------------------------------------------------------------ TCP stream
HDRS = (('HOST', 'STM32', 'CRTP', False), ('HOST', 'GAP8', 'APP', True), ('ESP32', 'HOST', 'WIFI_CTRL', False),
        ('GAP8', 'HOST', 'BOOTLOADER', True))


def _new_socket_transport():
    del E.SOCKET.created[:]
    t = SocketTransport('aideck.local', 5000)
    s = t._socket
    assert s is E.SOCKET.created[-1] and s.addr == ('aideck.local', 5000)
    return t, s


def h_stream(sym):
    """N packets written with the real writePacket; the written bytes are checked against the reference framing, then
    handed back as the incoming stream and read with the real readPacket under every fragmentation."""
    N, ML, lens = sym.B['n'], sym.B.get('maxlen', 0), sym.B.get('lens')
    t, s = _new_socket_transport()
    s.cut = E.Cutter(sym, sym.B.get('maxcuts'))
    descr = []
    for i in range(N):
        if lens:
            L = lens[i]
        elif i in sym.B.get('among', {}):       # the tree is split over several harnesses by the first length(s)
            L = sym.B['among'][i][sym.choice(f'len{i}', len(sym.B['among'][i]))]
        else:
            L = sym.choice(f'len{i}', ML + 1)
        if L <= 16:
            pl = sym.bytes(f'p{i}_', L)
        else:       # long frame: symbolic ends, fixed pattern in the middle
            pl = sym.bytes(f'p{i}_', 2) + [(7 * j + i) % 256 for j in range(L - 4)] + sym.bytes(f'q{i}_', 2)
        sname, dname, fname, last = HDRS[i % len(HDRS)]
        p = CPXPacket(function=CPXFunction[fname], destination=CPXTarget[dname], source=CPXTarget[sname], data=pl)
        p.lastPacket = last
        t.writePacket(p)
        descr.append((sname, dname, fname, last, pl))
    sym.apply_known()
    assert len(s.sent) == N, 'one send per packet'
    starts = [0]
    for i in range(N):
        sname, dname, fname, last, pl = descr[i]
        ref = E.ref_tcp_frame(T[sname], T[dname], F[fname], 1 if last else 0, pl)
        assert len(s.sent[i]) == len(ref), 'frame length'
        assert list(s.sent[i]) == ref, 'written frame differs from length-prefixed CPX framing'
        s.feed(list(s.sent[i]))
        starts.append(starts[-1] + len(ref))
    for i in range(N):
        sname, dname, fname, last, pl = descr[i]
        q = t.readPacket()
        assert q.source is CPXTarget[sname] and q.destination is CPXTarget[dname] and q.function is CPXFunction[fname], \
            ('routing fields of packet', i)
        assert q.lastPacket == last
        assert q.length == len(pl) and len(q.data) == len(pl), ('payload length of packet', i)
        assert list(q.data) == pl, ('payload of packet', i)
        assert s.pos == starts[i + 1], ('reader not at the frame boundary after packet', i)
    assert s.pending() == 0
    try:
        t.readPacket()
        assert False, 'a packet appeared from an empty stream'
    except Yield:
        pass
    _stream_goals(sym, s, starts, [len(d[4]) for d in descr])


def _stream_goals(sym, s, starts, lens):
    ends = set(pos + k for (pos, n, k) in s.reads)
    if all(n == k for (pos, n, k) in s.reads):
        sym.goal('unfragmented')
    for i, st in enumerate(starts[:-1]):
        if st + 1 in ends:
            sym.goal('prefix-split')
        if st + 3 in ends:
            sym.goal('header-split')
        if any(st + 4 < e < st + 4 + lens[i] for e in ends):
            sym.goal('payload-split')
        if lens[i] > 0 and st + 4 in ends:
            sym.goal('split-between-header-and-payload')


# ------------------------------------------------------------------------------------------------ router
def _take(router, fname, into, timed=False):
    """One receivePacket call of a consumer of `fname`; a call that would block takes nothing.  timed: the consumer polls with
    a timeout (as the CRTP drivers do) and, on an empty queue, the timeout runs out (queue.Empty)."""
    import queue as _q
    try:
        E.SteppedQueue.expire = timed
        into.append(router.receivePacket(CPXFunction[fname], timeout=0.1 if timed else None))
        return True
    except Yield:
        return False
    except _q.Empty:
        assert timed
        return False
    finally:
        E.SteppedQueue.expire = False


def h_router(sym):
    """CPXRouter.run stepped per arriving frame.  Packets reach the queue of their function only, in arrival order;
    refused packets (unsupported version) vanish without disturbing the others."""
    N = sym.B['n']
    allowed = tuple(F[n] for n in sym.B['funcs'])
    REG = sym.B['receivers']
    late = sym.B.get('late', ())        # receivers whose first call comes at a solver-chosen time
    t, s = _new_socket_transport()
    r = CPXRouter(t)
    fv = [sym.int(f'func{i}', 0, 63) for i in range(N)]
    ver = [sym.int(f'ver{i}', 0, 1) if sym.B.get('versions') else 0 for i in range(N)]
    x = [sym.int(f'x{i}', 0, 255) for i in range(N)]
    regat = {f: (sym.int(f'reg_{f}', 0, N) if f in late else 0) for f in REG}    # receiver's first call precedes arrival #regat
    take_at = sym.int('take_at', 0, N) if late else N      # an extra consumer call for REG[0] after arrival #take_at
    # the router task is stepped by re-entering run(), which forgets its locals: frames that arrive back to back (no step
    # between them) are handled inside one activation of the loop, locals included
    timed = {f: (True if (sym.B.get('polls') and sym.bool(f'timed_{f}')) else False) for f in REG}
    burst = [True if (sym.B.get('bursts') and i < N - 1 and sym.bool(f'burst{i}')) else False for i in range(N)]
    sym.apply_known()
    got = {f: [] for f in REG}
    registered = set()
    for i in range(N + 1):
        for f in REG:
            if f not in registered and regat[f] == i:
                assert not _take(r, f, got[f], timed[f]), 'a packet was waiting in a queue that did not exist'
                registered.add(f)
                if timed[f]:
                    sym.goal('poll-timed-out-before-arrival')
        if i == N:
            break
        sym.assume(any(fv[i] == a for a in allowed))
        s.feed(E.ref_tcp_frame(T['STM32'], HOST, fv[i], i % 2, [i, x[i]], ver[i]))
        if burst[i]:
            sym.goal('back-to-back')
            continue
        assert step(r) == 'yield', 'router thread ended'
        assert s.pending() == 0
        if take_at == i and REG[0] in registered:
            if _take(r, REG[0], got[REG[0]], timed[REG[0]]):
                sym.goal('taken-between-arrivals')
    for f in REG:
        while _take(r, f, got[f]):
            pass
    for f in REG:
        mine = [i for i in range(N) if fv[i] == F[f] and ver[i] == 0]
        required = [i for i in mine if i >= regat[f]]
        optional = [i for i in mine if i < regat[f]]
        tags = []
        for pk in got[f]:
            assert pk.function is CPXFunction[f], 'packet handed to a receiver of another function'
            assert pk.source is CPXTarget.STM32 and pk.destination is CPXTarget.HOST
            assert len(pk.data) == 2
            k = pk.data[0]
            assert pk.data[1] == x[k] and pk.lastPacket == (k % 2 == 1), 'payload/flag changed in the queue'
            tags.append(k)
        head = tags[:len(tags) - len(required)] if len(tags) >= len(required) else None
        assert head is not None and tags[len(head):] == required, ('packets missing or out of arrival order', f, tags, required)
        assert all(k in optional for k in head) and head == sorted(set(head)), ('stray packets', f, head)
        if len(required) >= 2:
            sym.goal('fifo-two-same-function')
        if len(required) >= 1 and len(required) < len([i for i in range(N) if ver[i] == 0]):
            sym.goal('interleaved-functions')
    if any(v != 0 for v in ver):
        sym.goal('bad-version-between')
    if any(all(fv[i] != F[f] for f in REG) for i in range(N)):
        sym.goal('function-without-receiver')


# ------------------------------------------------------------------------------------------------ CRTP tunnel (TCP)
def _connect_tcp():
    del E.SOCKET.created[:]
    errors = []
    d = TcpDriver()
    d.connect('tcp://aideck.local:5000', None, errors.append)
    s = E.SOCKET.created[-1]
    assert s.addr == ('aideck.local', 5000)
    assert getattr(d.cpx._router, '_vf_started', False) and getattr(d._thread, '_vf_started', False)
    return d, s, errors


def _check_tcp_frames_wellformed(frames):
    for fr in frames:
        assert len(fr) >= 4 and fr[0] + 256 * fr[1] == len(fr) - 2, 'length prefix of a written frame'


def _split_stream(chunks):
    """The byte stream on the socket (however many send() calls produced it) cut into frames by the length prefixes, as the
    peer's reader does."""
    stream = []
    for c in chunks:
        stream.extend(list(c))
    frames, i = [], 0
    while i < len(stream):
        assert i + 2 <= len(stream), 'stream ends inside a length prefix'
        n = stream[i] + 256 * stream[i + 1]
        for cand in range(0, 64):           # frame lengths are small here: find the concrete value by forking
            if n == cand:
                n = cand
                break
        else:
            raise AssertionError('length prefix announces more than 63 bytes')
        assert n >= 2 and i + 2 + n <= len(stream), 'length prefix runs past the end of the stream'
        frames.append(stream[i:i + 2 + n])
        i += 2 + n
    return frames


def h_tunnel_tx_two_senders(sym):
    """Two senders share the CPX link of a TcpDriver (the CRTP tunnel and an application using driver.cpx.sendPacket).  The
    second sender gets to run when the first is at a solver-chosen socket send() call (a thread switch at that system
    call); whatever the interleaving, the peer must be able to cut the stream into the two frames, each intact."""
    d, s, errors = _connect_tcp()
    n0 = len(s.sent)
    port, chan = sym.int('port', 0, 15), sym.choice('chan', 4)
    pl = sym.bytes('p', sym.choice('len', 3))
    xb = sym.bytes('x', 1 + sym.choice('xlen', 2))
    at = sym.choice('switch_at_send_call', 3)
    pk = CRTPPacket()
    pk.set_header(port, chan)
    pk.data = pl
    other = CPXPacket(CPXFunction.APP, CPXTarget.GAP8, CPXTarget.HOST, xb)
    sym.apply_known()
    state = {'calls': 0, 'done': False}
    plain = s.send

    def run_other():
        state['done'] = True
        try:
            d.cpx.sendPacket(other)
        except Yield:
            state['done'] = False          # it blocks on a lock the first sender holds: it runs when that one is through

    def send(data):
        k = state['calls']
        state['calls'] += 1
        if k == at and not state['done'] and not state.get('inside'):
            state['inside'] = True
            try:
                run_other()
                sym.goal('switched-inside-first-sender')
            finally:
                state['inside'] = False
        return plain(data)
    s.send = send
    d.send_packet(pk)
    s.send = plain
    if not state['done']:
        d.cpx.sendPacket(other)
    frames = _split_stream(s.sent[n0:])
    assert len(frames) == 2, 'two packets were sent: the stream must hold two frames'
    a = [f for f in frames if f[3] == F['CRTP']]
    b = [f for f in frames if f[3] == F['APP']]
    assert len(a) == 1 and len(b) == 1, 'one CRTP tunnel frame and one APP frame'
    assert a[0][5:] == pl and (a[0][4] - 16 * port - chan) in (0, 4, 8, 12), 'tunnelled CRTP packet changed'
    assert b[0][4:] == xb and b[0][2] % 64 == HOST * 8 + T['GAP8'], 'application packet changed'
    assert errors == []
    sym.goal('both-frames-intact')


def h_tunnel_tx(sym):
    """TcpDriver.send_packet: the bytes on the socket are the CPX frame HOST->STM32/CRTP carrying header byte + data."""
    NP, ML = sym.B['n'], sym.B.get('maxlen', 0)
    d, s, errors = _connect_tcp()
    n0 = len(s.sent)
    want = []
    for i in range(NP):
        # port symbolic, channel forked into its 4 values: `port<<4 | 12 | channel` with two symbolic operands would go
        # through 64-bit bit-vector conversions (2 s per path measured); with one symbolic operand it stays linear
        port, chan = sym.int(f'port{i}', 0, 15), sym.choice(f'chan{i}', 4)
        L = sym.choice(f'len{i}', ML + 1) if 'lens' not in sym.B else sym.B['lens'][i]
        pl = sym.bytes(f'p{i}_', L)
        pk = CRTPPacket()
        if sym.B.get('via_header'):
            pk = CRTPPacket(port * 16 + chan, pl)
        else:
            pk.set_header(port, chan)
            pk.data = pl
        d.send_packet(pk)
        want.append((port, chan, pl))
        if L > 0:
            sym.goal('with-payload')
    sym.apply_known()
    frames = _split_stream(s.sent[n0:])
    assert len(frames) == NP, 'one frame per CRTP packet'
    for i, (port, chan, pl) in enumerate(want):
        fr = frames[i]
        L = len(pl)
        assert len(fr) == L + 5
        assert fr[0] == L + 3 and fr[1] == 0, 'length prefix'
        assert fr[2] % 64 == HOST * 8 + STM32 and fr[2] < 128, 'source HOST, destination STM32'
        assert fr[3] == F['CRTP'], 'function CRTP, version 0'
        link = fr[4] - 16 * port - chan         # the two link bits (mask 0x0c) are not constrained
        assert link == 12 or link == 0 or link == 4 or link == 8, 'CRTP header byte'
        assert fr[5:] == pl, 'CRTP payload'
    assert errors == []
    sym.goal('sent')


def h_tunnel_rx(sym):
    """Frames STM32->HOST arrive on the socket (fragmented), CPXRouter.run and _CPXReceiveThread.run are stepped, and
    TcpDriver.receive_packet returns the CRTP packets with port, channel and data unchanged, in order; packets of
    another function do not show up."""
    N, ML = sym.B['n'], sym.B['maxlen']
    d, s, errors = _connect_tcp()
    s.cut = E.Cutter(sym, sym.B.get('maxcuts'))
    assert step(d._thread) == 'yield'        # the receiver is waiting for CRTP packets before any arrive
    iscrtp = [True if sym.bool(f'crtp{i}') else False for i in range(N)]
    hdr = [sym.int(f'hdr{i}', 0, 255) for i in range(N)]
    lastbit = [i % 2 for i in range(N)]
    batch = sym.bool('batch')
    pls, out = [], []

    def drain():
        while True:
            pk = d.receive_packet(0)
            if pk is None:
                return
            out.append(pk)
    for i in range(N):
        L = sym.choice(f'len{i}', ML + 1)
        pl = sym.bytes(f'p{i}_', L)
        pls.append(pl)
    sym.apply_known()
    if batch:
        sym.goal('batch')
    for i in range(N):
        s.feed(E.ref_tcp_frame(STM32, HOST, F['CRTP'] if iscrtp[i] else F['CONSOLE'], lastbit[i], [hdr[i]] + pls[i]))
        if not batch:
            assert step(d.cpx._router) == 'yield' and s.pending() == 0
            assert step(d._thread) == 'yield'
            drain()
    if batch:
        assert step(d.cpx._router) == 'yield' and s.pending() == 0
        assert step(d._thread) == 'yield'
        drain()
    exp = [i for i in range(N) if iscrtp[i]]
    assert len(out) == len(exp), ('CRTP packets lost or invented', len(out), len(exp))
    for pk, i in zip(out, exp):
        assert pk.port == hdr[i] // 16 and pk.channel == hdr[i] % 4, 'port/channel changed'
        assert pk.header // 16 == hdr[i] // 16 and pk.header % 4 == hdr[i] % 4, 'header changed'
        assert len(pk.data) == len(pls[i]) and list(pk.data) == pls[i], 'data changed'
    assert errors == [], 'link error reported'
    assert d.receive_packet(0) is None
    if len(exp) >= 2:
        sym.goal('two-crtp-in-order')
    if 0 < len(exp) < N:
        sym.goal('other-function-filtered')
    if any(n != k for (_, n, k) in s.reads):
        sym.goal('fragmented')


# ------------------------------------------------------------------------------------------------ CRTP tunnel (UART)
def _serial_payload(sym, name, L, mode):
    """UART frames carry an XOR checksum over all bytes.  XOR of two symbolic operands goes through 64-bit bit-vector
    conversions in the bit-operation plugin and the range check of the checksum byte then costs seconds per query, so
    per harness variant one byte of every frame is symbolic: mode 'header' -> the CRTP header byte (concrete payload),
    mode 'last' -> the last payload byte (concrete header); mode 'all' -> every payload byte (not used: too slow)."""
    if mode == 'all':
        return sym.bytes(name, L)
    conc = [(37 * j + 0xF9) % 256 for j in range(L)]
    if mode == 'last' and L > 0:
        conc[-1] = sym.int(name + 'last', 0, 255)
    return conc


def h_serial(sym):
    """SerialDriver over UARTTransport on a fake port: written frames equal 0xFF/len/.../XOR framing of the CPX packet,
    every write waits for the peer's clear-to-send, received frames come out as the CRTP packets that were framed, and
    the host grants clear-to-send after each received frame."""
    NTX, NRX, ML = sym.B['ntx'], sym.B['nrx'], sym.B['maxlen']
    del E.SERIAL.created[:]
    errors = []
    d = SerialDriver()
    peer = {'unacked': 0, 'cts_from_host': 0, 'data': []}

    def on_write(port, data):
        if data[:2] == [0xFF, 0x00] and len(data) == 2:
            peer['cts_from_host'] += 1
        else:
            assert peer['unacked'] == 0, 'host wrote a frame before the peer signalled clear-to-send for the previous one'
            peer['data'].append(data)
            peer['unacked'] += 1

    def peer_ready():
        """the peer has consumed the pending frame: it sends clear-to-send"""
        if peer['unacked']:
            peer['unacked'] -= 1
            E.SERIAL.created[-1].feed([0xFF, 0x00])

    def scheduler():
        peer_ready()
        assert step(d.cpx._router) == 'yield'
    E.FakeSerialModule.on_write = on_write
    E.FakeLock.scheduler = scheduler
    try:
        d.connect('serial://ttyFAKE0', None, errors.append)
        port = E.SERIAL.created[-1]
        assert port.device == '/dev/ttyFAKE0' and port.timeout is None
        assert peer['cts_from_host'] == 1, 'sync frame not answered'
        n0 = len(peer['data'])
        assert step(d._thread) == 'yield'
        # ---- host -> Crazyflie
        want = []
        objs = []
        for i in range(NTX):
            if i > 0 and sym.B.get('resend') and sym.choice(f'again{i}', 2) == 1:
                # the application sends the SAME packet object once more (a keep-alive / setpoint loop does that)
                d.send_packet(objs[-1])
                want.append(want[-1])
                sym.goal('same-packet-object-sent-again')
                continue
            if sym.B['symbolic_byte'] == 'last':
                p_, c_ = 5 + i, 3 - i
            else:
                p_, c_ = sym.int(f'port{i}', 0, 15), (sym.choice('chan0', 4) if i == 0 else (want[0][1] + i) % 4)
            L = sym.choice('txlen0', ML + 1) if i == 0 else (ML - len(want[0][2]) + i - 1) % (ML + 1)
            pl = _serial_payload(sym, f't{i}_', L, sym.B['symbolic_byte'])
            pk = CRTPPacket()
            pk.set_header(p_, c_)
            pk.data = pl
            d.send_packet(pk)
            want.append((p_, c_, pl))
            objs.append(pk)
            assert pk.port == p_ and pk.channel == c_ and list(pk.data) == pl, 'send_packet modified the caller\'s packet'
        # ---- Crazyflie -> host
        hdr = [sym.int(f'hdr{i}', 0, 255) if sym.B['symbolic_byte'] == 'header' else 0x5D + 0x11 * i for i in range(NRX)]
        lastbit = [(i + 1) % 2 for i in range(NRX)]
        pls = []
        for i in range(NRX):
            L = sym.choice('rxlen0', ML + 1) if i == 0 else (ML - len(pls[0]) + i - 1) % (ML + 1)
            pls.append(_serial_payload(sym, f'r{i}_', L, sym.B['symbolic_byte']))
        sym.apply_known()
        out = []
        for i in range(NRX):
            assert peer['cts_from_host'] == 1 + i, 'host did not grant clear-to-send after the previous frame'
            if sym.B.get('cts_first') and i == 0:
                peer_ready()        # clear-to-send for the host's last frame arrives just before the data frame
            port.feed(E.ref_uart_frame(STM32, HOST, F['CRTP'], lastbit[i], [hdr[i]] + pls[i]))
            assert step(d.cpx._router) == 'yield' and port.pending() == 0
            assert step(d._thread) == 'yield'
            pk = d.receive_packet(0)
            assert pk is not None, 'CRTP packet lost'
            out.append(pk)
            assert d.receive_packet(0) is None
        assert peer['cts_from_host'] == 1 + NRX
        for i in range(NRX):
            pk = out[i]
            assert pk.port == hdr[i] // 16 and pk.channel == hdr[i] % 4, 'port/channel changed'
            assert list(pk.data) == pls[i] and len(pk.data) == len(pls[i]), 'data changed'
        assert len(peer['data']) == n0 + NTX
        for fr in peer['data']:
            assert len(fr) >= 5 and fr[0] == 0xFF and fr[1] == len(fr) - 3, 'UART framing: start byte / length'
            xs = 0
            for b in fr[:-1]:
                xs = xs ^ b
            assert fr[-1] == xs, 'UART framing: checksum'
            assert fr[2] % 64 == HOST * 8 + STM32 and fr[2] < 128
        for i, (p_, c_, pl) in enumerate(want):
            fr = peer['data'][n0 + i]
            assert fr[3] == F['CRTP'] and len(fr) == len(pl) + 6
            assert fr[4] // 16 == p_ and fr[4] % 4 == c_, 'CRTP header byte'
            assert fr[5:-1] == pl, 'CRTP payload'
        assert errors == [], 'link error reported'
        if NTX >= 2:
            sym.goal('waited-for-cts')
        sym.goal('done')
    finally:
        E.FakeSerialModule.on_write = None
        E.FakeLock.scheduler = None


_NOTE = 'payload lengths and the byte count returned by each recv are solver variables forked into every value (the fake ' \
        'socket slices with them); header fields and payload bytes stay symbolic'
ALLF = FNAMES
SG = ('unfragmented', 'prefix-split', 'header-split', 'payload-split', 'split-between-header-and-payload')
RG = ('fifo-two-same-function', 'interleaved-functions', 'function-without-receiver')
Q, QT, TH = ('quick',), ('quick', 'thorough'), ('thorough',)

HARNESSES = [
    Harness('decode', h_decode, quick=dict(len=4), thorough=dict(len=6), timeout=(200, 600),
            goals=('decoded', 'version-rejected', 'invalid-rejected')),
    Harness('roundtrip[tuple]', h_roundtrip, quick=dict(len=4, container='tuple'), thorough=dict(len=6, container='tuple'),
            timeout=(200, 600), goals=('roundtrip', 'version-rejected', 'last-flag')),
    Harness('roundtrip[bytearray]', h_roundtrip, quick=dict(len=3, container='bytearray', versions=False),
            thorough=dict(len=6, container='bytearray', versions=False), timeout=(200, 600), goals=('roundtrip', 'last-flag')),
    Harness('roundtrip[list]', h_roundtrip, quick=dict(len=0, container='list', versions=False),
            thorough=dict(len=6, container='list', versions=False), timeout=(200, 600), goals=('roundtrip', 'last-flag')),
    # quick: every fragmentation of every stream of 2 packets with payloads 0..3 (tree split over two processes)
    Harness('stream[2 packets, first 0-2]', h_stream, quick=dict(n=2, maxlen=3, among={0: (0, 1, 2)}), timeout=(280, 900),
            goals=SG, note=_NOTE, tiers=Q),
    Harness('stream[2 packets, first 3]', h_stream, quick=dict(n=2, maxlen=3, among={0: (3,)}), timeout=(280, 900),
            goals=SG, note=_NOTE, tiers=Q),
    # a frame longer than 255 bytes (both length bytes used) followed by a short one, one short read anywhere
    Harness('stream[300-byte frame]', h_stream, quick=dict(n=2, lens=(300, 1), maxcuts=1), timeout=(280, 900),
            goals=('unfragmented', 'prefix-split', 'header-split', 'payload-split'), note=_NOTE),
    Harness('router[all functions]', h_router, quick=dict(n=2, funcs=ALLF, receivers=('CRTP', 'APP'), versions=True),
            thorough=dict(n=3, funcs=ALLF, receivers=('CRTP', 'APP', 'CONSOLE'), versions=True), timeout=(280, 1500),
            goals=RG + ('bad-version-between',)),
    Harness('router[back-to-back frames]', h_router, quick=dict(n=3, funcs=('CRTP', 'APP', 'CONSOLE'), receivers=('CRTP', 'APP'), versions=True, bursts=True),
            thorough=dict(n=4, funcs=('CRTP', 'APP', 'CONSOLE'), receivers=('CRTP', 'APP'), versions=True, bursts=True), timeout=(280, 1500),
            goals=RG + ('bad-version-between', 'back-to-back'),
            note='several frames handled inside one activation of CPXRouter.run (state kept in its locals is in scope)'),
    Harness('router[3 packets]', h_router, quick=dict(n=3, funcs=('CONSOLE', 'CRTP', 'APP', 'BOOTLOADER'), receivers=('CRTP', 'APP')),
            thorough=dict(n=4, funcs=('CONSOLE', 'CRTP', 'APP', 'BOOTLOADER'), receivers=('CRTP', 'APP')), timeout=(280, 1500), goals=RG),
    Harness('router[late receiver]', h_router,
            quick=dict(n=3, funcs=('CONSOLE', 'CRTP', 'APP'), receivers=('CRTP', 'APP'), late=('CRTP',)),
            thorough=dict(n=3, funcs=('CONSOLE', 'CRTP', 'APP'), receivers=('CRTP', 'APP'), late=('CRTP', 'APP')),
            timeout=(280, 1500), goals=RG + ('taken-between-arrivals',)),
    Harness('router[timed polls]', h_router,
            quick=dict(n=2, funcs=('CRTP', 'APP'), receivers=('CRTP', 'APP'), late=('CRTP',), polls=True),
            thorough=dict(n=3, funcs=('CRTP', 'APP'), receivers=('CRTP', 'APP'), late=('CRTP',), polls=True),
            timeout=(280, 1500), goals=('poll-timed-out-before-arrival', 'taken-between-arrivals', 'fifo-two-same-function'),
            note='receivers poll with a timeout (as the CRTP drivers do); a poll that runs out on an empty queue must not lose the '
                 'packets that arrive before the next poll'),
    Harness('tunnel_tx', h_tunnel_tx, quick=dict(n=2, maxlen=4), thorough=dict(n=2, maxlen=7), timeout=(280, 1500),
            goals=('sent', 'with-payload')),
    Harness('tunnel_tx[two senders]', h_tunnel_tx_two_senders, goals=('both-frames-intact', 'switched-inside-first-sender'), timeout=(280, 900),
            note='a second sender on the same CPX link runs when the first is at a solver-chosen send() call'),
    Harness('tunnel_tx[max size]', h_tunnel_tx, quick=dict(n=2, lens=(30, 29)), timeout=(200, 600), goals=('sent', 'with-payload')),
    Harness('tunnel_tx[header ctor]', h_tunnel_tx, quick=dict(n=1, maxlen=4, via_header=True),
            thorough=dict(n=1, maxlen=30, via_header=True), timeout=(200, 900), goals=('sent', 'with-payload')),
    Harness('tunnel_rx', h_tunnel_rx, quick=dict(n=2, maxlen=1, maxcuts=1), thorough=dict(n=3, maxlen=1, maxcuts=1),
            timeout=(280, 1500), goals=('two-crtp-in-order', 'other-function-filtered', 'fragmented', 'batch'), note=_NOTE),
    Harness('serial[header byte]', h_serial, quick=dict(ntx=2, nrx=2, maxlen=3, symbolic_byte='header'),
            thorough=dict(ntx=2, nrx=2, maxlen=4, symbolic_byte='header', cts_first=True), timeout=(280, 1500),
            goals=('done', 'waited-for-cts')),
    Harness('serial[same packet twice]', h_serial, quick=dict(ntx=3, nrx=1, maxlen=2, symbolic_byte='last', resend=True),
            timeout=(280, 900), goals=('done', 'same-packet-object-sent-again')),
    Harness('serial[payload byte]', h_serial, quick=dict(ntx=2, nrx=2, maxlen=3, symbolic_byte='last'),
            thorough=dict(ntx=2, nrx=3, maxlen=8, symbolic_byte='last', cts_first=True), timeout=(280, 1500),
            goals=('done', 'waited-for-cts')),
]
# thorough: every fragmentation of 3 packets (payloads 0..2) and of 2 packets (payloads 0..5); the tree is split by the
# first length (and the second, for the largest) over several processes
for _l0 in range(3):
    HARNESSES.append(Harness(f'stream[3 packets, first {_l0}]', h_stream, thorough=dict(n=3, maxlen=2, among={0: (_l0,)}),
                             timeout=(0, 1700), goals=SG[:2], note=_NOTE, tiers=TH))
for _l0 in range(5):
    HARNESSES.append(Harness(f'stream[2 packets <=5, first {_l0}]', h_stream, thorough=dict(n=2, maxlen=5, among={0: (_l0,)}),
                             timeout=(0, 1700), goals=SG[:2], note=_NOTE, tiers=TH))
HARNESSES.append(Harness('stream[2 packets <=5, first 5, second 0-4]', h_stream,
                         thorough=dict(n=2, maxlen=5, among={0: (5,), 1: (0, 1, 2, 3, 4)}), timeout=(0, 1700), goals=SG[:2],
                         note=_NOTE, tiers=TH))
HARNESSES.append(Harness('stream[2 packets <=5, first 5, second 5]', h_stream,
                         thorough=dict(n=2, maxlen=5, among={0: (5,), 1: (5,)}), timeout=(0, 1700), goals=SG[:2],
                         note=_NOTE, tiers=TH))
