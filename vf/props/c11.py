"""C11 The table cache never yields a wrong table, even after a crash.

Code under test (real, from /repo): TocCache.__init__/fetch/insert/_encoder/_decoder, TocFetcher's use of the cache
(hit -> cached table, miss -> download then insert) through the real Log.refresh_toc / Param.refresh_toc, and the two
element classes.

Oracle (written from the property statement, independent of toccache.py):
  * a table comes out of the cache only for the checksum it went in under; the file is <rw>/<8 upper-case hex>.json
    where the hex digits *mean* the checksum (evaluated digit by digit, on replay by plain CPython);
  * what comes out equals what went in, entry for entry: same keys, same element class, same ident / group / name /
    ctype / pytype / access (/ extended), fresh persistence marker; after a connection the library's tables equal the
    device tables (literal expectations per concrete table, persistence re-derived from the device);
  * a cache file cut at any byte offset is a miss (no table, no exception) and the next connection downloads, ends with
    the device tables and leaves a complete file behind;
  * nothing is created, written or removed in the read-only directory.

Harnesses
  fmt-model        validation of the '%08X' rendering model (vf/env/c11_env.py) against CPython on fixed vectors + its
                   meaning over all 2**32 values
  key              TocCache alone on an in-memory file system: configuration (ro/rw present or not) x three symbolic
                   32-bit checksums (stored now / stored earlier in the read-only directory / queried)
  fidelity[*]      insert -> fetch with JSON replaced by a lossless object store: symbolic ident / access / extended /
                   strings (attr) or elements built by the real constructors from symbolic wire bytes (wire)
  fetcher[*]       two connections through the real fetchers, symbolic checksum bytes announced by the device:
                   equal -> cached table used and nothing requested; different -> downloaded, inserted, old file kept
  collision        one cache shared by the log and the parameter fetcher (as in Crazyflie), both checksums symbolic,
                   including log checksum == parameter checksum
  crash[*]         real temp directory, real json, real files: the cache file of a concrete table cut at EVERY offset k
                   (the solver forks over k value by value: symbolic=False, exhaustive), then fetch, a connection, and a
                   further connection served from the repaired file
"""
import os
import shutil

from vf.harness import Harness
from vf.env.base import step
from vf.env import c03_env as E3
from vf.env import c11_env as E
from vf.env.c03_env import CF3, TocDevice, Entry, PORT_LOG, PORT_PARAM
import cflib.crazyflie.toccache as TC
from cflib.crazyflie.toccache import TocCache
from cflib.crazyflie.log import Log, LogTocElement
from cflib.crazyflie.param import Param, ParamTocElement, _ExtendedTypeFetcher

E.install_fmt()

FUNCTIONS = ['cflib.crazyflie.toccache:TocCache.__init__', 'cflib.crazyflie.toccache:TocCache.fetch',
             'cflib.crazyflie.toccache:TocCache.insert', 'cflib.crazyflie.toccache:TocCache._encoder',
             'cflib.crazyflie.toccache:TocCache._decoder', 'cflib.crazyflie.toc:TocFetcher.start',
             'cflib.crazyflie.toc:TocFetcher._new_packet_cb', 'cflib.crazyflie.toc:TocFetcher._toc_fetch_finished',
             'cflib.crazyflie.toc:Toc.add_element', 'cflib.crazyflie.log:LogTocElement.__init__',
             'cflib.crazyflie.log:Log.refresh_toc', 'cflib.crazyflie.log:Log._new_packet_cb',
             'cflib.crazyflie.param:ParamTocElement', 'cflib.crazyflie.param:Param.refresh_toc',
             'cflib.crazyflie.param:_ExtendedTypeFetcher']
STUBS = ["'%08X' / '%s/%08X.json' % <symbolic int>: nibble-wise rendering model installed over CrossHair's str.__mod__ patch "
         '(vf/env/c11_env.py; stock CrossHair enumerates the value); validated against CPython by harness fmt-model and '
         'never trusted by the oracles, which evaluate the digits of the produced name',
         'key / fidelity / fetcher / collision: open, os.path.exists, os.makedirs, glob inside cflib.crazyflie.toccache '
         'replaced by an in-memory file system that records every mutation (file names are symbolic strings there)',
         'fidelity[*]: json inside cflib.crazyflie.toccache replaced by a lossless object store that calls default= and '
         'object_hook the way json does (innermost object first); the other harnesses use the real json',
         'crash[*]: real files in a scratch directory under /tmp, real json, real open/glob/os',
         'connections: CF3 + TocDevice from vf/env/c03_env.py (real _IncomingPacketHandler stepped per packet, real '
         'Crazyflie.send_packet, device side of the TOC protocol); cooperative Lock/Queue inside cflib.crazyflie.param; '
         'no OS thread is started']
ASSUMPTIONS = ['checksums are 32-bit unsigned (they come out of struct.unpack("<I"))',
               'cache directories hold only files written by TocCache.insert (possibly cut short); the read-only directory '
               'was filled by an insert when it was somebody\'s writable directory',
               'within one kind (log or parameter) equal checksums mean equal tables (that is what the checksum is for); '
               'nothing is assumed across kinds',
               'a crash cuts the file at a byte offset; bytes before the cut are intact',
               'context switches only at blocking calls; one packet is dispatched at a time']
OUTSIDE = ['JSON\'s own round trip of str/int/bool leaves for arbitrary values (the real json is exercised on the concrete tables '
           'of crash[*], including quotes, backslashes, control and non-ASCII characters)',
           'foreign or hand-edited files in the cache directories (well-formed JSON that is not a table, files whose name merely '
           'ends in the 8 hex digits)', 'checksums outside 0..2**32-1', 'I/O errors other than a short file; concurrent '
           'processes sharing a cache directory', 'tables larger than the bound (element count <= 3)']
EXPLANATION = 'C11: TocCache key selection over symbolic 32-bit checksums and all ro/rw configurations, encoder/decoder ' \
              'fidelity over symbolic element attributes, fetcher hit/miss behaviour and log/param checksum collisions, and ' \
              'every truncation offset of real cache files followed by real connections.'

CRC_MAX = 2 ** 32 - 1
KINDS = {'log': (LogTocElement, PORT_LOG), 'param': (ParamTocElement, PORT_PARAM)}


def sbool(sym, name):
    return True if sym.bool(name) else False


def concretise(sym, v, lo, hi):
    """The value of v in lo..hi as a plain int (binary search: log2(hi-lo) solver decisions per path)."""
    while lo < hi:
        mid = (lo + hi) // 2
        if v <= mid:
            hi = mid
        else:
            lo = mid + 1
    return lo


# ---------------------------------------------------------------- oracle: table snapshots and comparisons
ATTRS = ('ident', 'group', 'name', 'ctype', 'pytype', 'access')


def record(e):
    """What the rest of the library reads from an element."""
    r = {a: getattr(e, a) for a in ATTRS}
    r['class'] = type(e)
    r['vars'] = dict(vars(e))        # every instance attribute, whatever it is called: the rest of the library may read any of them
    if isinstance(e, ParamTocElement):
        r['extended'] = e.extended
    return r


def snapshot(toc):
    """{group key: {name key: record}} of a table dictionary."""
    return {g: {n: record(e) for n, e in d.items()} for g, d in toc.items()}


def assert_same_table(loaded, snap, what):
    """`loaded` (a table dictionary) is entry-for-entry what `snap` recorded."""
    assert isinstance(loaded, dict), (what, 'not a table')
    assert sorted(loaded.keys()) == sorted(snap.keys()), (what, 'groups differ')
    for g, d in snap.items():
        ld = loaded[g]
        assert isinstance(ld, dict) and sorted(ld.keys()) == sorted(d.keys()), (what, 'names differ in group', g)
        for n, r in d.items():
            e = ld[n]
            assert type(e) is r['class'], (what, 'element class', g, n)
            for a in ATTRS:
                assert getattr(e, a) == r[a], (what, 'attribute differs', a, g, n)
            lv = vars(e)
            assert sorted(lv.keys()) == sorted(r['vars'].keys()), (what, 'the loaded element does not carry the same attributes', g, n)
            for a in sorted(lv.keys()):
                if a != 'persistent':            # the persistence marker is not stored; it is re-derived by the extended-type fetch
                    assert lv[a] == r['vars'][a], (what, 'attribute differs', a, g, n)
            if r['class'] is ParamTocElement:
                assert e.extended == r['extended'], (what, 'extended marker differs', g, n)
                assert (True if e.is_extended() else False) == (True if r['extended'] else False)


def hex_value(sym, s):
    """Value of a string of upper-case hex digits; asserts every character is one.  No branch on the characters."""
    v = 0
    for i in range(len(s)):
        o = ord(s[i])
        ok = ((o >= 48) & (o <= 57)) | ((o >= 65) & (o <= 70))
        assert ok, 'not an upper-case hex digit'
        v = v * 16 + (o - 48 - 7 * (o >= 65))
    return v


def assert_cache_name(sym, path, directory, crc):
    """path is <directory>/<8 upper-case hex digits meaning crc>.json"""
    pre = directory + '/'
    assert len(path) == len(pre) + 8 + 5, 'file name length'
    assert path[:len(pre)] == pre, 'file not directly in the writable directory'
    assert path[len(pre) + 8:] == '.json', 'file name suffix'
    assert hex_value(sym, path[len(pre):len(pre) + 8]) == crc, 'hex digits do not mean the checksum'


# ---------------------------------------------------------------- concrete tables (device side + literal expectations)
# (type byte, group, name, persistent) and what the protocol says the library must show for it
def _log(t, g, n):
    exp = {1: ('uint8_t', '<B'), 2: ('uint16_t', '<H'), 3: ('uint32_t', '<L'), 4: ('int8_t', '<b'), 5: ('int16_t', '<h'),
           6: ('int32_t', '<i'), 7: ('float', '<f'), 8: ('FP16', '<e')}[t]
    return dict(t=t, g=g, n=n, pers=False, ctype=exp[0], pytype=exp[1])


def _par(t, g, n, pers=False):
    exp = {0x0: ('int8_t', '<b'), 0x1: ('int16_t', '<h'), 0x2: ('int32_t', '<i'), 0x3: ('int64_t', '<q'),
           0x6: ('float', '<f'), 0x7: ('double', '<d'), 0x8: ('uint8_t', '<B'), 0x9: ('uint16_t', '<H'),
           0xA: ('uint32_t', '<L'), 0xB: ('uint64_t', '<Q')}[t & 0x0F]
    return dict(t=t, g=g, n=n, pers=pers, ctype=exp[0], pytype=exp[1], ro=bool(t & 0x40), ext=bool(t & 0x10))


LOG_TABLES = {
    'empty': [],
    'one': [_log(7, 'stabilizer', 'roll')],
    'two': [_log(7, 'a', 'x'), _log(2, 'b', 'x')],
    'three': [_log(7, 'pm', 'vbat'), _log(1, 'pm', 'state'), _log(6, 'baro', 'asl')],
    # quotes, backslashes, a slash, a control character, DEL and non-ASCII (ISO-8859-1) bytes in names
    'odd': [_log(3, 'q"uo\\te', 'b\\"s\\\\'), _log(4, 'caf\xe9\xff', '\x01\x7f/{}[],:'), _log(8, '\xb5', "'")],
}
PARAM_TABLES = {
    'empty': [],
    'one': [_par(0x08, 'ring', 'effect')],
    'two': [_par(0x06, 'a', 'x'), _par(0x48, 'a', 'y')],
    'three': [_par(0x06, 'pid', 'kp'), _par(0x58, 'cfg', 'id', pers=True), _par(0x19, 'cfg', 'rate', pers=False)],
    'odd': [_par(0x12, 'q"uo\\te', '\xe9\\u00e9', pers=True), _par(0x4A, '\x01\x7f', '"')],
}


def device(kind, rows, crc_bytes):
    """TocDevice answering with the given little-endian checksum bytes (symbolic or concrete)."""
    table = [Entry(r['t'], [ord(c) for c in r['g']], [ord(c) for c in r['n']], r['pers']) for r in rows]

    class Dev(TocDevice):
        def _crc_bytes(self):
            return list(crc_bytes)
    return Dev(KINDS[kind][1], table)


def crc_of(bs):
    return bs[0] + 256 * bs[1] + 65536 * bs[2] + 16777216 * bs[3]


def le32(v):
    return [v & 255, (v >> 8) & 255, (v >> 16) & 255, (v >> 24) & 255]


def assert_device_table(kind, toc, rows, persist, what):
    """The library's table holds exactly the device rows (literal protocol expectations)."""
    els = [(g, n, e) for g, d in toc.toc.items() for n, e in d.items()]
    assert len(els) == len(rows), (what, 'number of entries', len(els), len(rows))
    for i, r in enumerate(rows):
        mine = [x for x in els if x[2].ident == i]
        assert len(mine) == 1, (what, 'entries with index', i, len(mine))
        g, n, e = mine[0]
        assert type(e) is KINDS[kind][0], (what, 'element class', type(e).__name__)
        assert g == r['g'] and n == r['n'] and e.group == r['g'] and e.name == r['n'], (what, 'group/name', i)
        assert e.ctype == r['ctype'] and e.pytype == r['pytype'], (what, 'types', i)
        if kind == 'param':
            assert e.access == (ParamTocElement.RO_ACCESS if r['ro'] else ParamTocElement.RW_ACCESS), (what, 'access', i)
            assert (True if e.is_extended() else False) == r['ext'], (what, 'extended marker', i)
            if persist:
                assert (True if e.is_persistent() else False) == r['pers'], (what, 'persistence marker', i)


# ---------------------------------------------------------------- a connection's table downloads
def _ext_fetchers(cf):
    out = []
    for c in cf.incoming.cb:
        o = getattr(c.callback, '__self__', None)
        if isinstance(o, _ExtendedTypeFetcher) and not any(o is x for x in out):
            out.append(o)
    return out


class Session:
    """What Crazyflie does with its one TocCache after the link is up: log table first, then the parameter table
    (real Log.refresh_toc / Param.refresh_toc, replies from the device models)."""
    def __init__(self, cache, devs, version=10):
        E3.reset()
        E3.patch_param_sync()
        self.cf = CF3(version)
        self.cache = cache
        self.devs = devs             # {port: TocDevice}
        self.done = []
        self.k = 0
        self.log = self.param = None

    def pump(self):
        cf = self.cf
        while self.k < len(cf.sent):
            assert self.k < 64, 'more requests than any of these downloads needs'
            pk = cf.sent[self.k]
            self.k += 1
            cf.deliver(self.devs[pk.port].answer(pk))
            for t in _ext_fetchers(cf):
                step(t)

    def fetch_log(self):
        self.log = Log(self.cf)
        self.log.refresh_toc(lambda: self.done.append('log'), self.cache)
        self.pump()
        return self.log.toc

    def fetch_param(self):
        self.param = Param(self.cf)
        self.param.refresh_toc(lambda: self.done.append('param'), self.cache)
        self.pump()
        return self.param.toc

    def items_requested(self, port):
        return [r[2] for r in self.devs[port].requests if r[0] == 'item']


# ---------------------------------------------------------------- 0. the rendering model itself
VECTORS = [0, 9, 10, 15, 16, 0x9A, 0xFF, 0x100, 0x789ABCDE, 0x0A0B0C0D, 0xF0E0D0C0, 0x09999999, 0x0AAAAAAA, 0x7FFFFFFF,
           0x80000000, 0x99999999, 0xDEADBEEF, 0xFFFFFFFF, 0x10000000, 0x000F0000]


def h_fmt_model(sym):
    before = E.fmt_model_uses()
    for i, v in enumerate(VECTORS):
        x = sym.int(f'x{i}', v, v)            # a solver variable pinned to the vector: takes the model's route
        assert '%08X.json' % x == '%08X.json' % v, ('model differs from CPython', v)
        if i % 5 == 3:
            assert '%s/%08X.json' % ('some/dir', x) == 'some/dir/' + ('%08X' % v) + '.json', ('model differs from CPython', v)
    # near variants of the conversion (what a changed toccache.py might plausibly use), a few vectors each
    for i, v in enumerate([0, 0xA, 0x1F, 0xABC, 0x9F00D, 0xDEADBEEF]):
        y = sym.int(f'y{i}', v, v)
        assert '%X' % y == '%X' % v and '%x.json' % y == '%x.json' % v, ('unpadded', v)
        assert '%6X' % y == '%6X' % v and '%010x' % y == '%010x' % v and '%04X' % y == '%04X' % v, ('padded', v)
    a = sym.int('a', 0, CRC_MAX)
    assert_cache_name(sym, '%s/%08X.json' % ('d', a), 'd', a)      # over all 2**32 values: the digits mean the number
    assert len('%08X.json' % a) == 13
    if (not sym.symbolic) or E.fmt_model_uses() >= before + len(VECTORS) + len(VECTORS) // 5 + 2 + 30:
        sym.goal('model-exercised')


# ---------------------------------------------------------------- 1. key selection, TocCache alone
def _table(kind, rows):
    toc = {}
    for i, r in enumerate(rows):
        e = KINDS[kind][0]()
        e.ident, e.group, e.name, e.ctype, e.pytype = i, r['g'], r['n'], r['ctype'], r['pytype']
        e.access = (1 if r.get('ro') else 0)
        if kind == 'param':
            e.extended = r['ext']
        toc.setdefault(r['g'], {})[r['n']] = e
    return toc


def h_key(sym):
    cfg = sym.choice('config', 4)
    ro = 'dist/ro' if cfg in (0, 2) else None
    rw = 'home/rw' if cfg in (0, 1) else None
    a, b, c = sym.int('crc_stored', 0, CRC_MAX), sym.int('crc_queried', 0, CRC_MAX), sym.int('crc_in_ro', 0, CRC_MAX)
    ta, tc = _table('log', LOG_TABLES['two']), _table('param', PARAM_TABLES['two'])
    sa, sc = snapshot(ta), snapshot(tc)
    fs = E.FakeFS()
    rw_exists = sbool(sym, 'rw_dir_exists') if rw else False
    sym.apply_known()
    with E.substituted(TC, open=fs.open, os=fs.os, glob=fs.glob):
        if rw_exists:
            fs.dirs.append(rw)
        if ro:
            # the read-only directory was filled by an insert when it was somebody's writable directory
            TocCache(rw_cache=ro).insert(c, tc)
            assert len(fs.files) == 1
            assert_cache_name(sym, fs.files[0][0], ro, c)
        ro_before = [(e[0], e[1]) for e in fs.files]
        del fs.ops[:]
        cache = TocCache(ro_cache=ro, rw_cache=rw)
        if rw:
            assert fs.os.path.isdir(rw), 'writable directory not created'
            if rw_exists:
                assert not fs.ops, 'file system touched although the writable directory exists'
                sym.goal('rw-dir-existed')
        n_before = len(fs.files)
        cache.insert(a, ta)
        if rw:
            mine = fs.listing(rw)
            assert len(mine) == 1 and len(fs.files) == n_before + 1, 'not exactly one file written'
            assert_cache_name(sym, mine[0][0], rw, a)
            sym.goal('written')
        else:
            assert len(fs.files) == n_before, 'a file appeared without a writable directory'
            assert not fs.ops, 'file system touched without a writable directory'
            sym.goal('nothing-written')
        # the same object and a fresh one (next start of the program) must answer alike
        for which, cch in (('same', cache), ('restarted', TocCache(ro_cache=ro, rw_cache=rw))):
            r = cch.fetch(b)
            if not r:                  # a miss is whatever the fetcher takes for one (None today)
                assert not rw or a != b, (which, 'miss although the checksum was stored')
                assert not ro or c != b, (which, 'miss although the read-only directory has the checksum')
                sym.goal('miss')
            else:
                kinds = set(type(e) for d in r.values() for e in d.values())
                if kinds == {LogTocElement}:
                    assert rw and a == b, (which, 'table returned for a checksum it was not stored under')
                    assert_same_table(r, sa, which)
                    sym.goal('hit-rw')
                else:
                    assert ro and c == b, (which, 'table returned for a checksum it was not stored under')
                    assert_same_table(r, sc, which)
                    sym.goal('hit-ro')
        if ro:
            assert not fs.mutations_under(ro), 'read-only directory written'
            now = fs.listing(ro)
            assert len(now) == len(ro_before) and all(x[0] is y[0] and x[1] == y[1] for x, y in zip(now, ro_before)), \
                'read-only directory changed'


# ---------------------------------------------------------------- 2. field fidelity
def sym_str(sym, name, n, lo=0, hi=0x10FFFF):
    return E.mkstr(sym, [sym.int(f'{name}{i}', lo, hi) for i in range(n)])


def h_fidelity(sym):
    kind, n, how = sym.B['kind'], sym.B['n'], sym.B['how']
    cls, port = KINDS[kind]
    toc = {}
    keys = [('G0', 'N0'), ('G0', 'N1'), ('G1', 'N0')]      # dictionary keys stay concrete (the cache code never looks
    for i in range(n):                                     # at them); the elements' own group / name are symbolic
        if i == 0:
            gl, nl = 1 + sym.choice('glen', 3), 1 + sym.choice('nlen', 3)
        else:
            gl, nl = (2, 3) if i == 1 else (3, 1)
        if how == 'attr':
            e = cls()
            e.ident = sym.int(f'ident{i}', -2 ** 31, 2 ** 32)
            e.group, e.name = sym_str(sym, f'g{i}_', gl), sym_str(sym, f'm{i}_', nl)
            e.ctype, e.pytype = sym_str(sym, f'ct{i}_', 2), sym_str(sym, f'py{i}_', 2)
            e.access = sym.int(f'access{i}', -1, 256)
            if kind == 'param':
                e.extended = sym.bool(f'ext{i}')
                if i == 0 and sbool(sym, 'pers0'):
                    e.mark_persistent()            # not stored: must come back unmarked
        else:
            # built by the real constructor from the bytes of an item reply, as TocFetcher does
            ident = sym.int(f'ident{i}', 0, 65535)
            if i > 0:            # further elements: concrete type byte (its decoding forks per code), symbolic ident / names
                t = (2, 8)[i - 1] if kind == 'log' else (0x5B, 0x06)[i - 1]
            elif kind == 'log':
                t = sym.int(f'type{i}', 1, 8)
            else:
                code = sym.int(f'type{i}', 0, 11)
                sym.assume(code != 4)
                t = code + 16 * sym.int(f'flags{i}', 0, 15)
            ent = Entry(t, [sym.int(f'g{i}_{j}', 1, 255) for j in range(gl)], [sym.int(f'm{i}_{j}', 1, 255) for j in range(nl)])
            pk = TocDevice(port, []).item_reply(True, ident, ent)
            e = cls(ident, pk.data[1:][2:])
        g, m = keys[i]
        toc.setdefault(g, {})[m] = e
    crc = sym.int('crc', 0, CRC_MAX)
    snap = snapshot(toc)
    fs, oj = E.FakeFS(), E.ObjJson()
    sym.apply_known()
    with E.substituted(TC, open=fs.open, os=fs.os, glob=fs.glob, json=oj):
        cache = TocCache(rw_cache='rw')
        cache.insert(crc, toc)
        assert len(fs.files) == 1 and oj.default_calls == n, 'table not written through the encoder'
        for which, cch in (('same', cache), ('restarted', TocCache(rw_cache='rw'))):
            loaded = cch.fetch(crc)
            assert loaded is not None, (which, 'stored table not found')
            assert loaded is not toc
            assert_same_table(loaded, snap, which)
            for g, d in loaded.items():
                for m, e in d.items():
                    assert e is not toc[g][m]
                    if kind == 'param':
                        assert e.is_persistent() is False, 'persistence marker must be re-derived, not invented'
                        if (g, m) == keys[0] and which == 'restarted':
                            if e.is_extended():
                                sym.goal('extended')
                            else:
                                sym.goal('not-extended')
        assert_same_table(toc, snap, 'the stored table itself')      # insert did not disturb the live table
    sym.goal('round-trip')


# ---------------------------------------------------------------- 3. the fetchers' use of the cache
def h_fetcher(sym):
    kind = sym.B['kind']
    port = KINDS[kind][1]
    tables = LOG_TABLES if kind == 'log' else PARAM_TABLES
    rows1, rows2 = tables[sym.B['first']], tables[sym.B['second']]
    a, b = sym.bytes('crc1_', 4), sym.bytes('crc2_', 4)
    fs = E.FakeFS()
    sym.apply_known()
    with E.substituted(TC, open=fs.open, os=fs.os, glob=fs.glob):
        # ---- first connection: nothing cached
        d1 = device(kind, rows1, a)
        s1 = Session(TocCache(rw_cache='rw'), {port: d1})
        toc = s1.fetch_log() if kind == 'log' else s1.fetch_param()
        assert s1.done == [kind]
        assert_device_table(kind, toc, rows1, True, 'first connection')
        assert s1.items_requested(port) == list(range(len(rows1)))
        assert len(fs.files) == 1, 'downloaded table not cached'
        assert_cache_name(sym, fs.files[0][0], 'rw', crc_of(a))
        first_file = (fs.files[0][0], fs.files[0][1])
        # ---- second connection (program restarted): the device announces checksum b
        same = True if crc_of(a) == crc_of(b) else False
        rows = rows1 if same else rows2        # within one kind, equal checksums mean equal tables
        d2 = device(kind, rows, b)
        s2 = Session(TocCache(rw_cache='rw'), {port: d2})
        toc = s2.fetch_log() if kind == 'log' else s2.fetch_param()
        assert s2.done == [kind], 'connection did not complete exactly once'
        assert_device_table(kind, toc, rows, True, 'second connection')
        if same and rows1:
            assert s2.items_requested(port) == [], 'downloaded although the announced checksum is cached'
            assert len(fs.files) == 1
            sym.goal('hit')
        else:
            assert s2.items_requested(port) == list(range(len(rows))), 'cached table used for another checksum'
            if not same:
                assert len(fs.files) == 2, 'second table not cached next to the first'
                assert fs.files[0][0] is first_file[0] and fs.files[0][1] == first_file[1], 'first cache file disturbed'
                assert_cache_name(sym, fs.files[1][0], 'rw', crc_of(b))
            sym.goal('miss')
        # ---- third connection: whatever was announced last is served from the cache now
        if rows:
            d3 = device(kind, rows, b)
            s3 = Session(TocCache(rw_cache='rw'), {port: d3})
            toc = s3.fetch_log() if kind == 'log' else s3.fetch_param()
            assert s3.done == [kind]
            assert_device_table(kind, toc, rows, True, 'third connection')
            assert s3.items_requested(port) == [], 'not served from the cache'


def h_collision(sym):
    """One TocCache for both fetchers; the log and the parameter checksum are arbitrary, equal included."""
    lrows, prows = LOG_TABLES[sym.B['log']], PARAM_TABLES[sym.B['param']]
    cl, cp = sym.bytes('crc_log_', 4), sym.bytes('crc_param_', 4)
    fs = E.FakeFS()
    sym.apply_known(env={'crc_log': crc_of(cl), 'crc_param': crc_of(cp)})
    with E.substituted(TC, open=fs.open, os=fs.os, glob=fs.glob):
        for conn in range(sym.B['connections']):
            devs = {PORT_LOG: device('log', lrows, cl), PORT_PARAM: device('param', prows, cp)}
            s = Session(TocCache(rw_cache='rw'), devs)
            ltoc = s.fetch_log()
            assert s.done == ['log'], (conn, 'log table download did not complete')
            assert_device_table('log', ltoc, lrows, False, ('log table, connection', conn))
            ptoc = s.fetch_param()
            assert s.done == ['log', 'param'], (conn, 'parameter table download did not complete')
            assert_device_table('param', ptoc, prows, True, ('parameter table, connection', conn))
            assert_device_table('log', ltoc, lrows, False, ('log table after the parameter download, connection', conn))
            if conn > 0:
                if crc_of(cl) != crc_of(cp):
                    assert s.items_requested(PORT_LOG) == [] and s.items_requested(PORT_PARAM) == [], 'not served from the cache'
                    sym.goal('both-cached')
        if crc_of(cl) == crc_of(cp) or sym.known:      # (a listed finding is re-witnessed inside its predicate by the worker)
            sym.goal('collision')


# ---------------------------------------------------------------- 4. crash points, real files
def _scratch(tag):
    d = '/tmp/vf-c11-%d-%s' % (os.getpid(), tag)
    shutil.rmtree(d, ignore_errors=True)
    os.makedirs(d)
    return d


def _tree(d):
    out = []
    for base, dirs, files in sorted(os.walk(d)):
        for f in sorted(files):
            p = os.path.join(base, f)
            with open(p, 'rb') as fh:
                out.append((p, fh.read(), os.stat(p).st_mtime_ns))
        for x in sorted(dirs):
            out.append((os.path.join(base, x), None, None))
    return out


def _foreign_variants(content):
    """Complete files that json can (mostly) parse but that do not describe a table of this library version."""
    import json as _json
    doc = _json.loads(content.decode('utf-8'))

    def strip(field):
        d = _json.loads(content.decode('utf-8'))
        for g in d.values():
            for e in g.values():
                e.pop(field, None)
        return _json.dumps(d).encode()

    def retag(name):
        d = _json.loads(content.decode('utf-8'))
        for g in d.values():
            for e in g.values():
                e['__class__'] = name
        return _json.dumps(d).encode()
    out = [('json-null', b'null'), ('json-list', b'[]'), ('json-number', b'42'), ('json-string', b'"toc"'),
           ('group-is-string', _json.dumps({'g': 'x'}).encode()), ('element-is-list', _json.dumps({'g': {'x': [1, 2]}}).encode()),
           ('binary', bytes(range(256))), ('utf16', content.decode('utf-8').encode('utf-16')), ('trailing-garbage', content + b'}')]
    if doc:
        def changed(item):
            try:
                return _json.loads(item[1].decode('utf-8')) != doc
            except Exception:
                return True
        out += [v for v in [('no-ident', strip('ident')), ('no-extended', strip('extended')), ('no-access', strip('access')),
                ('no-class', strip('__class__')), ('unknown-class', retag('NoSuchTocElement')), ('class-is-int', retag(7))] if changed(v)]
    return out


def h_crash(sym):
    lrows, prows, victim = LOG_TABLES[sym.B['log']], PARAM_TABLES[sym.B['param']], sym.B['victim']
    CL, CP, CRO = 0x0BADCAFE, 0xF00D0001, 0x00C0FFEE
    top = _scratch(sym.B['log'] + '-' + sym.B['param'] + '-' + victim)
    try:
        ro, rw = top + '/ro', top + '/home/cache'       # rw does not exist yet
        os.makedirs(ro)
        TocCache(rw_cache=ro).insert(CRO, _table('log', LOG_TABLES['one']))
        ro_before = _tree(ro)
        assert len(ro_before) == 1
        devs = lambda: {PORT_LOG: device('log', lrows, le32(CL)), PORT_PARAM: device('param', prows, le32(CP))}   # noqa: E731
        # ---- connection 1: downloads and writes both files with the real insert
        s1 = Session(TocCache(ro_cache=ro, rw_cache=rw), devs())
        l1, p1 = s1.fetch_log(), s1.fetch_param()
        assert s1.done == ['log', 'param']
        assert_device_table('log', l1, lrows, False, 'connection 1')
        assert_device_table('param', p1, prows, True, 'connection 1')
        assert sorted(os.listdir(rw)) == sorted(['%08X.json' % CL, '%08X.json' % CP]), os.listdir(rw)
        snaps = {'log': snapshot(l1.toc), 'param': snapshot(p1.toc)}
        vcrc, vport, vrows = (CL, PORT_LOG, lrows) if victim == 'log' else (CP, PORT_PARAM, prows)
        oport = PORT_PARAM if victim == 'log' else PORT_LOG
        vfile = rw + '/' + ('%08X.json' % vcrc)
        with open(vfile, 'rb') as fh:
            content = fh.read()
        L = len(content)
        assert 2 <= L <= sym.B.get('maxlen', 2048)
        if sym.B.get('mode') == 'foreign':
            # ---- "otherwise unparsable": the file is complete, well-formed bytes that are not a usable table
            variants = _foreign_variants(content) + [('truncated-half', content[:L // 2]), ('empty', b'')]
            k = sym.choice('variant', len(variants))
            sym.apply_known()
            if sym.B.get('victim_in_ro'):
                # the unusable file sits in the READ-ONLY directory (shipped cache): it must be treated as a miss and left alone
                os.remove(vfile)
                with open(ro + '/' + ('%08X.json' % vcrc), 'wb') as fh:
                    fh.write(variants[k][1])
                ro_before = _tree(ro)
                sym.goal('unusable-file-in-ro')
            else:
                with open(vfile, 'wb') as fh:
                    fh.write(variants[k][1])
            sym.goal('foreign:' + variants[k][0])
        else:
            # ---- the crash: the write of that file got as far as byte k
            k = concretise(sym, sym.int('k', 0, L - 1), 0, L - 1)
            sym.apply_known()
            with open(vfile, 'wb') as fh:
                fh.write(content[:k])
            if k == 0:
                sym.goal('empty-file')
            if k == L - 1:
                sym.goal('last-byte-missing')
        # ---- the cache alone: a miss, not a table, not an exception
        cache = TocCache(ro_cache=ro, rw_cache=rw)
        got = cache.fetch(vcrc)
        if sym.B.get('mode') != 'foreign':
            assert not got, ('truncated cache file produced a table', k)       # a miss is whatever the fetcher takes for one
        # (foreign content: fetch must not raise; whether what it returns is taken for a table is decided by connection 2 below)
        other = cache.fetch(CP if victim == 'log' else CL)
        assert_same_table(other, snaps['param' if victim == 'log' else 'log'], 'the intact file')
        # ---- connection 2: downloads the victim's table, the other comes from the cache
        s2 = Session(TocCache(ro_cache=ro, rw_cache=rw), devs())
        l2, p2 = s2.fetch_log(), s2.fetch_param()
        assert s2.done == ['log', 'param'], 'connection failed after the crash'
        assert_device_table('log', l2, lrows, False, 'connection 2')
        assert_device_table('param', p2, prows, True, 'connection 2')
        assert s2.items_requested(vport) == list(range(len(vrows))), 'table not downloaded after the crash'
        if (prows if victim == 'log' else lrows):
            assert s2.items_requested(oport) == [], 'intact file not used'
        with open(vfile, 'rb') as fh:
            assert fh.read() == content, 'cache file not rewritten completely'
        # ---- connection 3: both from the cache, equal to what was stored and to the device
        s3 = Session(TocCache(ro_cache=ro, rw_cache=rw), devs())
        l3, p3 = s3.fetch_log(), s3.fetch_param()
        assert s3.done == ['log', 'param']
        assert_device_table('log', l3, lrows, False, 'connection 3')
        assert_device_table('param', p3, prows, True, 'connection 3')
        assert_same_table(l3.toc, snaps['log'], 'log table from the cache')
        assert_same_table(p3.toc, snaps['param'], 'parameter table from the cache')
        if lrows:
            assert s3.items_requested(PORT_LOG) == []
        if prows:
            assert s3.items_requested(PORT_PARAM) == []
        assert sorted(os.listdir(rw)) == sorted(['%08X.json' % CL, '%08X.json' % CP])
        assert _tree(ro) == ro_before, 'read-only directory changed'
        sym.goal('recovered')
    finally:
        shutil.rmtree(top, ignore_errors=True)


_NOTE_CRASH = 'k is the only symbolic input and is concretised by binary search before the file is cut (the JSON scanner is C ' \
              'code): an exhaustive, solver-driven fork over every offset, not a symbolic treatment of the file content'
HARNESSES = [
    Harness('foreign[log]', h_crash, quick=dict(log='one', param='one', victim='log', mode='foreign'), symbolic=False,
            goals=('recovered', 'foreign:no-ident', 'foreign:unknown-class', 'foreign:json-null'), timeout=(300, 900),
            note='complete but unusable cache files (older format, unknown class, wrong JSON shape), chosen by the solver from a fixed list'),
    Harness('foreign[log,in ro]', h_crash, quick=dict(log='one', param='one', victim='log', mode='foreign', victim_in_ro=True), symbolic=False,
            goals=('recovered', 'unusable-file-in-ro'), timeout=(300, 900),
            note='the unusable file is in the read-only directory: miss, download, and the read-only directory stays byte-identical'),
    Harness('foreign[param]', h_crash, quick=dict(log='one', param='one', victim='param', mode='foreign'), symbolic=False,
            goals=('recovered', 'foreign:no-extended', 'foreign:unknown-class'), timeout=(300, 900),
            note='complete but unusable cache files (older format, unknown class, wrong JSON shape), chosen by the solver from a fixed list'),
    Harness('fmt-model', h_fmt_model, goals=('model-exercised',), timeout=(120, 300)),
    Harness('key', h_key, goals=('written', 'nothing-written', 'miss', 'hit-rw', 'hit-ro', 'rw-dir-existed'), timeout=(300, 900)),
    Harness('fidelity[log,attr]', h_fidelity, quick=dict(kind='log', n=2, how='attr'), thorough=dict(kind='log', n=3, how='attr'),
            goals=('round-trip',), timeout=(300, 900)),
    Harness('fidelity[param,attr]', h_fidelity, quick=dict(kind='param', n=2, how='attr'), thorough=dict(kind='param', n=3, how='attr'),
            goals=('round-trip', 'extended', 'not-extended'), timeout=(300, 900)),
    Harness('fidelity[log,wire]', h_fidelity, quick=dict(kind='log', n=2, how='wire'), thorough=dict(kind='log', n=3, how='wire'),
            goals=('round-trip',), timeout=(300, 1200)),
    Harness('fidelity[param,wire]', h_fidelity, quick=dict(kind='param', n=2, how='wire'), thorough=dict(kind='param', n=3, how='wire'),
            goals=('round-trip', 'extended', 'not-extended'), timeout=(300, 1200)),
    Harness('fetcher[log]', h_fetcher, quick=dict(kind='log', first='two', second='one'),
            thorough=dict(kind='log', first='three', second='odd'), goals=('hit', 'miss'), timeout=(300, 900)),
    Harness('fetcher[param]', h_fetcher, quick=dict(kind='param', first='two', second='one'),
            thorough=dict(kind='param', first='three', second='odd'), goals=('hit', 'miss'), timeout=(300, 900)),
    Harness('fetcher[log,empty]', h_fetcher, quick=dict(kind='log', first='empty', second='one'), goals=('miss',), timeout=(300, 900)),
    Harness('collision[equal sizes]', h_collision, quick=dict(log='one', param='one', connections=2),
            thorough=dict(log='two', param='two', connections=3), goals=('collision', 'both-cached'), timeout=(300, 900)),
    Harness('collision', h_collision, quick=dict(log='one', param='three', connections=2),
            thorough=dict(log='three', param='three', connections=3), goals=('collision', 'both-cached'), timeout=(300, 900)),
    Harness('crash[empty-log]', h_crash, quick=dict(log='empty', param='one', victim='log'), goals=('empty-file', 'last-byte-missing', 'recovered'),
            symbolic=False, note=_NOTE_CRASH, timeout=(300, 900)),
    Harness('crash[log]', h_crash, quick=dict(log='one', param='one', victim='log'), goals=('empty-file', 'last-byte-missing', 'recovered'),
            symbolic=False, note=_NOTE_CRASH, timeout=(600, 1800)),
    Harness('crash[param]', h_crash, quick=dict(log='one', param='one', victim='param'), goals=('empty-file', 'last-byte-missing', 'recovered'),
            symbolic=False, note=_NOTE_CRASH, timeout=(600, 1800)),
    Harness('crash[mixed,extended]', h_crash, quick=dict(log='three', param='three', victim='param'),
            goals=('empty-file', 'last-byte-missing', 'recovered'), symbolic=False, note=_NOTE_CRASH, timeout=(900, 2400),
            tiers=('thorough',)),
    Harness('crash[mixed,log]', h_crash, quick=dict(log='three', param='three', victim='log'),
            goals=('empty-file', 'last-byte-missing', 'recovered'), symbolic=False, note=_NOTE_CRASH, timeout=(900, 2400),
            tiers=('thorough',)),
    Harness('crash[odd-names,log]', h_crash, quick=dict(log='odd', param='odd', victim='log'),
            goals=('empty-file', 'last-byte-missing', 'recovered'), symbolic=False, note=_NOTE_CRASH, timeout=(900, 2400),
            tiers=('thorough',)),
    Harness('crash[odd-names,param]', h_crash, quick=dict(log='odd', param='odd', victim='param'),
            goals=('empty-file', 'last-byte-missing', 'recovered'), symbolic=False, note=_NOTE_CRASH, timeout=(900, 2400),
            tiers=('thorough',)),
]
