"""C05 Log blocks are created as configured and log data decodes to device values.

Real code: cflib.crazyflie.log (Log.add_config, LogConfig.create/_setup_log_elements/start/stop/delete/unpack_log_data,
Log._new_packet_cb, LogVariable, LogTocElement) and cflib.crazyflie.syncLogger.SyncLogger.
Oracle: the firmware side of CRTP port 5 written from the protocol in vf/env/c05_env.py (own type table, own parsers of the
settings channel with the firmware's integer division, arithmetic little-endian decoding); nothing is taken from
LogTocElement.types."""
import struct

from vf.harness import Harness
from vf.env import c05_env as E
from vf.env.c05_env import (LogCF, connect, disconnect, packet, toc_element, assume_distinct, fw_block_messages, FW_TYPES,
                            FW_BY_ID, ref_int, le)
from cflib.crazyflie.log import LogConfig
from cflib.crazyflie.syncLogger import SyncLogger

FUNCTIONS = ['cflib.crazyflie.log:Log.add_config', 'cflib.crazyflie.log:Log._new_packet_cb', 'cflib.crazyflie.log:Log._find_block',
             'cflib.crazyflie.log:Log.refresh_toc', 'cflib.crazyflie.log:Log._send_reset_packet',
             'cflib.crazyflie.log:LogConfig.__init__', 'cflib.crazyflie.log:LogConfig.add_variable',
             'cflib.crazyflie.log:LogConfig.add_memory', 'cflib.crazyflie.log:LogConfig.create',
             'cflib.crazyflie.log:LogConfig._setup_log_elements', 'cflib.crazyflie.log:LogConfig.start',
             'cflib.crazyflie.log:LogConfig.stop', 'cflib.crazyflie.log:LogConfig.delete',
             'cflib.crazyflie.log:LogConfig.unpack_log_data', 'cflib.crazyflie.log:LogConfig._set_added',
             'cflib.crazyflie.log:LogConfig._set_started', 'cflib.crazyflie.log:LogVariable',
             'cflib.crazyflie.log:LogTocElement', 'cflib.crazyflie.toc:Toc', 'cflib.crazyflie.syncLogger:SyncLogger',
             'cflib.crazyflie:Crazyflie.send_packet', 'cflib.crtp.crtpstack:CRTPPacket', 'cflib.utils.callbacks:Caller.call']
STUBS = ['LogCF (MiniCF + disconnected Caller + the real Log); send_packet is the real Crazyflie.send_packet on a recording link',
         'cflib.crazyflie.log.TocFetcher replaced by a stub that installs the table at once (the download is property C03); '
         'the reset handshake around it (refresh_toc, reset ack, log_blocks cleared) is the real code',
         'packets are handed to the registered port callbacks directly (dispatcher is property C07)',
         'SyncLogger iteration is driven by the harness: next() is only called when its (real) queue is non-empty or the logger '
         'is disconnected, because a real blocking Queue.get would hang the single task',
         'logging disabled']
ASSUMPTIONS = ['firmware wire layouts and type ids/sizes are those in vf/env/c05_env.py (written from the CRTP log protocol; firmware '
               'sources are not in the sandbox); the firmware derives the record count of a create/append message by integer '
               'division, so a trailing partial record is ignored',
               'TOC idents are pairwise distinct; variable names within a configuration are pairwise distinct',
               'for TOC variables the firmware takes the stored type from its own table and only the low nibble (fetch type) from '
               'the wire; both nibbles are checked for raw-memory variables',
               'raw-memory records are (type, uint32 LE address) as cflib documents them; the wire format has no marker, so the '
               'reference parser is told which records are raw-memory',
               'struct.unpack itself (CPython; modelled by the structfp plugin, validated against CPython at the start of a run) '
               'is trusted for the float and half-float reference values; integers are decoded arithmetically by the oracle',
               'create harnesses give the variables symbolic type nibbles after the (real) acceptance step ran with 1-byte '
               'placeholders: a superset of the reachable configurations',
               'context switches only at blocking calls: one packet is handled without preemption']
OUTSIDE = ['MAX_BLOCKS / MAX_VARIABLES accounting across several live blocks; block id wrap-around after 255 configurations',
           'legacy protocol (V1) with more than 14 variables: V1 messages are never split, the 15th variable makes send_packet '
           'refuse the 32-byte packet (the statement restricts the create claim to the current protocol)',
           'status bytes the firmware never sends (Log._err_codes has no text for them: KeyError in the packet callback)',
           'arity of added_cb/started_cb on error acks (called as (False) / (Log, False) instead of (LogConfig, False))',
           'samples still queued in SyncLogger when the disconnect arrives (they are dropped: next() stops at once)',
           'TOC download (C03), dispatcher (C07), resend timers (C10)']
EXPLANATION = 'C05: acceptance with symbolic period and forked type/kind/membership mixes around the 26-byte boundary; create/append ' \
              'messages for 0..N variables with symbolic 16-bit idents and type nibbles parsed by a firmware-side reference parser; ' \
              'data packets with symbolic timestamp and payload bytes for every fetch-type mix; lifecycle and SyncLogger event ' \
              'lists where the solver picks among the enabled events.'

NAMES = [f'g.v{k}' for k in range(32)]


def size_of(type_id):
    return FW_BY_ID[type_id][2]


def new_cf(ver, entries):
    cf = LogCF(ver)
    connect(cf, entries)
    return cf


# ---------------------------------------------------------------------------------------------------------------- create/append
def h_create(sym):
    """All-TOC configurations, n variables (forked), symbolic idents and type nibbles, protocol V2 or V1."""
    v2 = sym.B['v2']
    nmax = sym.B['nmax']
    n = sym.choice('n', nmax + 1)
    ver = sym.int('ver', 4, 20) if v2 else sym.int('ver', 0, 3)
    idents = [sym.int(f'ident{k}', 0, 65535 if v2 else 255) for k in range(n)]
    ftypes = [sym.int(f'ftype{k}', 1, 8) for k in range(n)]
    first_id = (1, 254, 0)[sym.choice('idsel', 3)]
    assume_distinct(sym, idents)
    sym.apply_known()
    cf = new_cf(ver, [toc_element(idents[k], 'g', f'v{k}', 1) for k in range(n)])
    cf.log._config_id_counter = first_id
    lc = LogConfig('blk', 100)
    for k in range(n):
        lc.add_variable(NAMES[k], 'uint8_t')
    cf.log.add_config(lc)
    assert lc.valid and cf.drain() == []
    assert len(lc.variables) == n
    for k in range(n):           # symbolic fetch type; add_variable(name, type) stores the same id as stored type
        lc.variables[k].fetch_as = ftypes[k]
        lc.variables[k].stored_as = ftypes[k]
    lc.create()
    msgs = cf.drain()
    bid, recs = fw_block_messages(msgs, v2)
    assert bid == first_id, 'block id'
    assert len(recs) == n, ('number of records seen by the firmware', len(recs), n)
    for k in range(n):
        kind, t, ident = recs[k]
        assert ident == idents[k], ('record ident', k)
        assert (t & 0x0F) == ftypes[k], ('fetch type nibble', k)
    if len(msgs) > 1:
        sym.goal('split')
    if len(msgs) > 2:
        sym.goal('split3')
    if any(len(d) == 30 and (len(d) - 2) % 3 for (_, _, d) in msgs):
        sym.goal('dangling-byte')
    sym.goal('created')


def h_create_mem(sym):
    """Table and raw-memory variables mixed (kind per variable forked), current protocol; memory variables carry a symbolic
    32-bit address and symbolic fetch/stored type ids."""
    n = sym.B['n']
    ver = sym.int('ver', 4, 20)
    mem = [sym.bool(f'mem{k}') for k in range(n)]
    mem = [True if m else False for m in mem]
    idents = [sym.int(f'ident{k}', 0, 65535) for k in range(n)]
    ftypes = [sym.int(f'ftype{k}', 1, 8) for k in range(n)]
    stypes = [sym.int(f'stype{k}', 1, 8) for k in range(n)]
    addrs = [sym.int(f'addr{k}', 0, 2 ** 32 - 1) for k in range(n)]
    assume_distinct(sym, idents)
    sym.apply_known()
    cf = new_cf(ver, [toc_element(idents[k], 'g', f'v{k}', 1) for k in range(n)])
    lc = LogConfig('blk', 100)
    for k in range(n):
        if mem[k]:
            lc.add_memory(f'raw{k}', 'uint8_t', 'uint8_t', addrs[k])
        else:
            lc.add_variable(NAMES[k], 'uint8_t')
    cf.log.add_config(lc)
    assert lc.valid and cf.drain() == [] and len(lc.variables) == n
    for k in range(n):
        lc.variables[k].fetch_as = ftypes[k]
        lc.variables[k].stored_as = stypes[k] if mem[k] else ftypes[k]
    lc.create()          # an accepted configuration: any exception here is a violation
    msgs = cf.drain()
    bid, recs = fw_block_messages(msgs, True, mem)
    assert bid == 1
    assert len(recs) == n, ('number of records seen by the firmware', len(recs), n)
    for k in range(n):
        kind, t, val = recs[k]
        assert (t & 0x0F) == ftypes[k], ('fetch type nibble', k)
        if mem[k]:
            assert kind == 'mem' and val == addrs[k], ('raw-memory address', k)
            assert (t >> 4) == stypes[k], ('stored type nibble', k)
            sym.goal('memory-variable')
        else:
            assert kind == 'toc' and val == idents[k], ('record ident', k)
    if len(msgs) > 1:
        sym.goal('split')


# ---------------------------------------------------------------------------------------------------------------- data decode
def ref_value(type_id, bs):
    """What the device encoded in the bytes `bs` of a variable fetched as `type_id` (firmware type table)."""
    name, tid, size, signed, ffmt = FW_BY_ID[type_id]
    assert len(bs) == size
    if ffmt is None:
        return ref_int(bs, signed)
    return struct.unpack(ffmt, bytes(bs))[0]


def same_value(got, exp, is_float):
    """Equality, bit-exact for floats up to the NaN payload (every NaN equals every NaN)."""
    if is_float:
        if exp != exp:
            return got != got
    return got == exp


def h_decode(sym):
    """One block with 1..K variables of every fetch-type mix (forked), symbolic block id byte, timestamp and payload.
    Bounds: k = max variables; exact = only k variables; first = type index of variable 0 fixed (sharding)."""
    K = sym.B['k']
    pkid = sym.int('pkid', 0, 255)
    ours = True if pkid == 1 else False          # the first configuration of a session gets block id 1
    if not ours:
        nv, tsel = 1, [sym.B.get('first', 0)]
    else:
        nv = K if sym.B.get('exact') else 1 + sym.choice('nv', K)
        tsel = [sym.choice(f't{k}', 8) if (k or 'first' not in sym.B) else sym.B['first'] for k in range(nv)]
    types = [FW_TYPES[t] for t in tsel]
    total = sum(t[2] for t in types)
    ts = sym.bytes('ts', 3)
    payload = sym.bytes('p', total)
    sym.apply_known()
    cf = new_cf(10, [toc_element(10 + k, 'g', f'v{k}', 1) for k in range(nv)])
    lc = LogConfig('blk', 100)
    for k in range(nv):
        lc.add_variable(NAMES[k], types[k][0])
    got = []
    lc.data_received_cb.add_callback(lambda t, d, c: got.append((t, d, c)))
    cf.log.add_config(lc)
    assert lc.valid
    cf.deliver(packet(E.CHAN_LOGDATA, [pkid] + ts + payload))
    assert lc.id == 1
    if not ours:
        assert got == [], 'data for another block id delivered to this block'
        sym.goal('other-block')
        return
    assert len(got) == 1, 'data callback not called exactly once'
    t, data, conf = got[0]
    assert conf is lc
    assert t == ts[0] + 256 * ts[1] + 65536 * ts[2], 'timestamp is not the 24-bit little-endian value'
    assert len(data) == nv
    off = 0
    for k in range(nv):
        name, tid, size, signed, ffmt = types[k]
        exp = ref_value(tid, payload[off:off + size])
        assert same_value(data[NAMES[k]], exp, ffmt is not None), ('value of variable', k, name)
        off += size
        if ffmt == '<f':
            sym.goal('float')
        if ffmt == '<e':
            sym.goal('fp16')
        if signed:
            sym.goal('signed')
    sym.goal('decoded')


# ---------------------------------------------------------------------------------------------------------------- acceptance
NFILL = 27


def accept_toc(stored_ids):
    """TOC: K candidate variables g.v<k> (stored type given) and 27 one-byte fillers g.f<k>."""
    ents = [toc_element(100 + k, 'g', f'v{k}', stored_ids[k]) for k in range(len(stored_ids))]
    ents += [toc_element(200 + k, 'g', f'f{k}', 1) for k in range(NFILL)]
    return ents


def check_accept(sym, cf, lc, present, size, period_ms, want_vars):
    """accepted <=> every table variable present AND size <= 26 AND 1 <= period_ms // 10 <= 254."""
    added = []
    cf.log.block_added_cb.add_callback(lambda c: added.append(c))
    try:
        cf.log.add_config(lc)
    except (KeyError, AttributeError):      # the documented refusals
        pass
    assert cf.drain() == [], 'add_config sent a packet'
    accepted = lc.valid is True
    expected = present and size <= E.MAX_LOG_PAYLOAD and 10 <= period_ms and period_ms <= 2549
    if expected:
        assert accepted, ('valid configuration refused', size)
        assert len(added) == 1 and added[0] is lc and any(b is lc for b in cf.log.log_blocks)
        assert lc.period == period_ms // 10, 'period (10 ms units) that will be sent to the device'
        got = [(v.name, v.fetch_as) for v in lc.variables]
        assert sorted(got) == sorted(want_vars), 'variables of the accepted configuration'
        sym.goal('accepted')
        if size == E.MAX_LOG_PAYLOAD:
            sym.goal('accepted-26-bytes')
    else:
        assert lc.valid is False, ('invalid configuration accepted', size)
        assert added == [] and not any(b is lc for b in cf.log.log_blocks), 'rejected configuration registered'
        try:
            lc.start()                       # whatever the application does with the rejected object, nothing goes out
        except Exception:
            pass
        assert cf.drain() == [], 'packet sent for a rejected configuration'
        sym.goal('rejected')
        if not present:
            sym.goal('rejected-missing')
        elif size > E.MAX_LOG_PAYLOAD:
            sym.goal('rejected-size')
            if size == E.MAX_LOG_PAYLOAD + 1:
                sym.goal('rejected-27-bytes')
        else:
            sym.goal('rejected-period')


def h_accept_size(sym):
    """K table variables of every fetch type (forked) + nf one-byte fillers (forked), all present; symbolic period."""
    K = sym.B['k']
    period_ms = sym.int('period_ms', 0, 3000)
    nf = sym.B['fmin'] + sym.choice('nf', sym.B['fmax'] - sym.B['fmin'] + 1)
    tsel = [sym.choice(f't{k}', 8) for k in range(K)]
    sym.apply_known()
    cf = new_cf(10, accept_toc([1] * K))
    lc = LogConfig('blk', period_ms)
    want = []
    for k in range(K):
        lc.add_variable(NAMES[k], FW_TYPES[tsel[k]][0])
        want.append((NAMES[k], FW_TYPES[tsel[k]][1]))
    for k in range(nf):
        lc.add_variable(f'g.f{k}', 'uint8_t')
        want.append((f'g.f{k}', 1))
    size = nf + sum(FW_TYPES[t][2] for t in tsel)
    check_accept(sym, cf, lc, True, size, period_ms, want)


KIND_TYPED, KIND_DEFAULT, KIND_MEM = range(3)
ACC_FETCH = [7, 8, 4]        # float, FP16, int8_t   (explicit fetch types of the typed / raw-memory variants)
ACC_STORED = [2, 3, 1]       # uint16_t, uint32_t, uint8_t (types in the device table, used by add_variable(name) without type)


def h_accept_kinds(sym):
    """3 variables, each typed / default-typed (type from the table) / raw memory (forked), table membership forked, fillers
    so that the payload lands on 24..28 bytes; symbolic period."""
    K = 3
    period_ms = sym.int('period_ms', 0, 3000)
    kinds = [sym.choice(f'kind{k}', 3) for k in range(K)]
    member = [(True if sym.bool(f'member{k}') else False) if kinds[k] != KIND_MEM else True for k in range(K)]
    addr = sym.int('addr', 0, 2 ** 32 - 1)
    sym.apply_known()
    cf = new_cf(10, accept_toc(ACC_STORED))
    lc = LogConfig('blk', period_ms)
    want = []
    size = sym.B['fill']
    for k in range(K):
        name = NAMES[k] if member[k] else f'g.missing{k}'
        if kinds[k] == KIND_TYPED:
            lc.add_variable(name, FW_BY_ID[ACC_FETCH[k]][0])
            tid = ACC_FETCH[k]
        elif kinds[k] == KIND_DEFAULT:
            lc.add_variable(name)
            tid = ACC_STORED[k]
            sym.goal('default-typed')
        else:
            name = f'raw{k}'
            lc.add_memory(name, FW_BY_ID[ACC_FETCH[k]][0], 'uint32_t', addr)
            tid = ACC_FETCH[k]
            sym.goal('raw-memory')
        want.append((name, tid))
        size += size_of(tid)
    for k in range(sym.B['fill']):
        lc.add_variable(f'g.f{k}', 'uint8_t')
        want.append((f'g.f{k}', 1))
    check_accept(sym, cf, lc, all(member), size, period_ms, want)


HARNESSES = [
    Harness('accept_size', h_accept_size, quick=dict(k=2, fmin=18, fmax=25), thorough=dict(k=2, fmin=0, fmax=27), timeout=(300, 1500),
            goals=('accepted', 'accepted-26-bytes', 'rejected-size', 'rejected-27-bytes', 'rejected-period'), smt_timeout=1.5),
    Harness('accept_kinds', h_accept_kinds, quick=dict(fill=19), thorough=dict(fill=19), timeout=(300, 1500),
            goals=('accepted', 'accepted-26-bytes', 'rejected-missing', 'rejected-size', 'rejected-27-bytes', 'rejected-period',
                   'default-typed', 'raw-memory'), smt_timeout=1.5),
    Harness('create_v2', h_create, quick=dict(v2=True, nmax=12), thorough=dict(v2=True, nmax=26), timeout=(200, 900),
            goals=('created', 'split')),
    Harness('create_v1', h_create, quick=dict(v2=False, nmax=12), thorough=dict(v2=False, nmax=14), timeout=(200, 900),
            goals=('created',)),
    Harness('create_mem', h_create_mem, quick=dict(n=7), thorough=dict(n=9), timeout=(300, 1200),
            goals=('memory-variable', 'split')),
    Harness('decode', h_decode, quick=dict(k=3), thorough=dict(k=4), timeout=(300, 1500), smt_timeout=1.5,
            goals=('decoded', 'other-block', 'float', 'fp16', 'signed')),
]
