"""C05 Log blocks are created as configured and log data decodes to device values.

Real code: cflib.crazyflie.log (Log.add_config, LogConfig.create/_setup_log_elements/start/stop/delete/unpack_log_data,
Log._new_packet_cb, LogVariable, LogTocElement) and cflib.crazyflie.syncLogger.SyncLogger.
Oracle: the firmware side of CRTP port 5 written from the protocol in vf/env/c05_env.py (own type table, own parsers of the
settings channel with the firmware's integer division, arithmetic little-endian decoding); nothing is taken from
LogTocElement.types."""
import struct

from crosshair.tracers import NoTracing

from vf.harness import Harness
from vf.env import c05_env as E
from vf.env.c05_env import (LogCF, connect, disconnect, packet, toc_element, assume_distinct, fw_block_messages, FW_TYPES,
                            FW_BY_ID, ref_int, le)
from cflib.crazyflie.log import LogConfig
from cflib.crazyflie.syncLogger import SyncLogger

FUNCTIONS = ['cflib.crazyflie.log:Log.add_config', 'cflib.crazyflie.log:Log._new_packet_cb', 'cflib.crazyflie.log:Log._find_block',
             'cflib.crazyflie.log:Log.refresh_toc', 'cflib.crazyflie.log:Log._send_reset_packet',
             'cflib.crazyflie.log:LogConfig.__init__', 'cflib.crazyflie.log:LogConfig.add_variable',
             'cflib.crazyflie.log:LogConfig.add_memory', 'cflib.crazyflie.log:LogConfig.create',
             'cflib.crazyflie.log:LogConfig._setup_log_elements', 'cflib.crazyflie.log:LogConfig.start',
             'cflib.crazyflie.log:LogConfig.stop', 'cflib.crazyflie.log:LogConfig.delete',
             'cflib.crazyflie.log:LogConfig.unpack_log_data', 'cflib.crazyflie.log:LogConfig._set_added',
             'cflib.crazyflie.log:LogConfig._set_started', 'cflib.crazyflie.log:LogVariable',
             'cflib.crazyflie.log:LogTocElement', 'cflib.crazyflie.toc:Toc', 'cflib.crazyflie.syncLogger:SyncLogger',
             'cflib.crazyflie:Crazyflie.send_packet', 'cflib.crtp.crtpstack:CRTPPacket', 'cflib.utils.callbacks:Caller.call']
STUBS = ['LogCF (MiniCF + disconnected Caller + the real Log); send_packet is the real Crazyflie.send_packet on a recording link',
         'cflib.crazyflie.log.TocFetcher replaced by a stub that installs the table at once (the download is property C03); '
         'the reset handshake around it (refresh_toc, reset ack, log_blocks cleared) is the real code',
         'packets are handed to the registered port callbacks directly (dispatcher is property C07)',
         'SyncLogger iteration is driven by the harness: next() is only called when a sample is waiting or the session is over; '
         'its queue is the real queue.Queue, subclassed only so that a get() that would block for ever raises instead of hanging',
         'logging disabled']
ASSUMPTIONS = ['firmware wire layouts and type ids/sizes are those in vf/env/c05_env.py (written from the CRTP log protocol; firmware '
               'sources are not in the sandbox); the firmware derives the record count of a create/append message by integer '
               'division, so a trailing partial record is ignored',
               'TOC idents are pairwise distinct; variable names within a configuration are pairwise distinct',
               'for TOC variables the firmware takes the stored type from its own table and only the low nibble (fetch type) from '
               'the wire; both nibbles are checked for raw-memory variables',
               'raw-memory records are (type, uint32 LE address) as cflib documents them; the wire format has no marker, so the '
               'reference parser is told which records are raw-memory',
               'struct.unpack itself (CPython; modelled by the structfp plugin, validated against CPython at the start of a run) '
               'is trusted for the float and half-float reference values; integers are decoded arithmetically by the oracle',
               'create harnesses give the variables symbolic type nibbles after the (real) acceptance step ran with 1-byte '
               'placeholders: a superset of the reachable configurations',
               'context switches only at blocking calls: one packet is handled without preemption']
OUTSIDE = ['MAX_BLOCKS / MAX_VARIABLES accounting across several live blocks; block id wrap-around after 255 configurations',
           'legacy protocol (V1) with more than 14 variables: V1 messages are never split, the 15th variable makes send_packet '
           'refuse the 32-byte packet (the statement restricts the create claim to the current protocol)',
           'status bytes the firmware never sends (Log._err_codes has no text for them: KeyError in the packet callback)',
           'arity of added_cb/started_cb on error acks (called as (False) / (Log, False) instead of (LogConfig, False))',
           'samples still queued in SyncLogger when the disconnect arrives (they are dropped: next() stops at once)',
           'TOC download (C03), dispatcher (C07), resend timers (C10)']
EXPLANATION = 'C05: acceptance with symbolic period and forked type/kind/membership mixes around the 26-byte boundary; create/append ' \
              'messages for 0..N variables with symbolic 16-bit idents and type nibbles parsed by a firmware-side reference parser; ' \
              'data packets with symbolic timestamp and payload bytes for every fetch-type mix; lifecycle and SyncLogger event ' \
              'lists where the solver picks among the enabled events.'

NAMES = [f'g.v{k}' for k in range(32)]

# LogConfig.__init__ computes int(period_in_ms / 10) in floating point.  With the IEEE model the solver does not decide
# int -> double -> divide -> truncate within the per-path budget, so the harnesses with a symbolic period run with the
# real-number float model (exact division, truncation).  That model agrees with IEEE doubles on the whole input domain of
# these harnesses; the agreement is checked here for every integer of the domain when the module is loaded.
PERIOD_MAX_MS = 3000
assert all(int(p / 10) == p // 10 for p in range(PERIOD_MAX_MS + 1)), 'real-number model of period_in_ms / 10 is not adequate'
PERIOD_NOTE = 'period_in_ms is a symbolic int 0..3000; period_in_ms / 10 is modelled in real arithmetic (float_model=real); ' \
              'agreement of trunc(real quotient) with CPython int(p / 10) is checked for all 3001 values at import'


def size_of(type_id):
    return FW_BY_ID[type_id][2]


def new_cf(ver, entries):
    cf = LogCF(ver)
    connect(cf, entries)
    return cf


# ---------------------------------------------------------------------------------------------------------------- create/append
def h_create(sym):
    """All-TOC configurations, n variables (forked), symbolic idents and type nibbles, protocol V2 or V1."""
    v2 = sym.B['v2']
    nmax = sym.B['nmax']
    n = sym.choice('n', nmax + 1)
    ver = sym.int('ver', 4, 20) if v2 else sym.int('ver', 0, 3)
    idents = [sym.int(f'ident{k}', 0, 65535 if v2 else 255) for k in range(n)]
    ftypes = [sym.int(f'ftype{k}', 1, 8) for k in range(n)]
    first_id = (1, 254, 0)[sym.choice('idsel', 3)]
    assume_distinct(sym, idents)
    sym.apply_known()
    cf = new_cf(ver, [toc_element(idents[k], 'g', f'v{k}', 1) for k in range(n)])
    cf.log._config_id_counter = first_id
    lc = LogConfig('blk', 100)
    for k in range(n):
        lc.add_variable(NAMES[k], 'uint8_t')
    cf.log.add_config(lc)
    assert lc.valid and cf.drain() == []
    assert len(lc.variables) == n
    for k in range(n):           # symbolic fetch type; add_variable(name, type) stores the same id as stored type
        lc.variables[k].fetch_as = ftypes[k]
        lc.variables[k].stored_as = ftypes[k]
    lc.create()
    msgs = cf.drain()
    bid, recs = fw_block_messages(msgs, v2)
    assert bid == first_id, 'block id'
    assert len(recs) == n, ('number of records seen by the firmware', len(recs), n)
    for k in range(n):
        kind, t, ident = recs[k]
        assert ident == idents[k], ('record ident', k)
        assert (t & 0x0F) == ftypes[k], ('fetch type nibble', k)
    if len(msgs) > 1:
        sym.goal('split')
    if len(msgs) > 2:
        sym.goal('split3')
    if any(len(d) == 30 and (len(d) - 2) % 3 for (_, _, d) in msgs):
        sym.goal('dangling-byte')
    sym.goal('created')


def h_create_mem(sym):
    """Table and raw-memory variables mixed (kind per variable forked), current protocol; memory variables carry a symbolic
    32-bit address and symbolic fetch/stored type ids."""
    n = sym.B['n']
    ver = sym.int('ver', 4, 20)
    mem = [sym.bool(f'mem{k}') for k in range(n)]
    mem = [True if m else False for m in mem]
    idents = [sym.int(f'ident{k}', 0, 65535) for k in range(n)]
    ftypes = [sym.int(f'ftype{k}', 1, 8) for k in range(n)]
    stypes = [sym.int(f'stype{k}', 1, 8) for k in range(n)]
    addrs = [sym.int(f'addr{k}', 0, 2 ** 32 - 1) for k in range(n)]
    assume_distinct(sym, idents)
    sym.apply_known()
    cf = new_cf(ver, [toc_element(idents[k], 'g', f'v{k}', 1) for k in range(n)])
    lc = LogConfig('blk', 100)
    for k in range(n):
        if mem[k]:
            lc.add_memory(f'raw{k}', 'uint8_t', 'uint8_t', addrs[k])
        else:
            lc.add_variable(NAMES[k], 'uint8_t')
    cf.log.add_config(lc)
    assert lc.valid and cf.drain() == [] and len(lc.variables) == n
    for k in range(n):
        lc.variables[k].fetch_as = ftypes[k]
        lc.variables[k].stored_as = stypes[k] if mem[k] else ftypes[k]
    lc.create()          # an accepted configuration: any exception here is a violation
    msgs = cf.drain()
    bid, recs = fw_block_messages(msgs, True, mem)
    assert bid == 1
    assert len(recs) == n, ('number of records seen by the firmware', len(recs), n)
    for k in range(n):
        kind, t, val = recs[k]
        assert (t & 0x0F) == ftypes[k], ('fetch type nibble', k)
        if mem[k]:
            assert kind == 'mem' and val == addrs[k], ('raw-memory address', k)
            assert (t >> 4) == stypes[k], ('stored type nibble', k)
            sym.goal('memory-variable')
        else:
            assert kind == 'toc' and val == idents[k], ('record ident', k)
    if len(msgs) > 1:
        sym.goal('split')


# ---------------------------------------------------------------------------------------------------------------- data decode
def ref_value(type_id, bs):
    """What the device encoded in the bytes `bs` of a variable fetched as `type_id` (firmware type table)."""
    name, tid, size, signed, ffmt = FW_BY_ID[type_id]
    assert len(bs) == size
    if ffmt is None:
        return ref_int(bs, signed)
    return struct.unpack(ffmt, bytes(bs))[0]


def same_value(sym, got, exp, is_float):
    """Equality; for floats bit-exact up to the NaN payload (every NaN equals every NaN).  Symbolic shortcut for floats: when
    the decoded value and the reference value are the SAME solver term (same float conversion of the same payload bytes) they
    are equal for every payload, NaN patterns included, and no floating-point constraint has to enter the path condition."""
    if is_float:
        if sym.symbolic:
            with NoTracing():
                gv, ev = getattr(got, 'var', None), getattr(exp, 'var', None)
                if gv is not None and ev is not None and gv.eq(ev):
                    return True
        if exp != exp:
            return got != got
    return got == exp


def h_decode(sym):
    """One block with 0..K variables of every fetch-type mix (forked), symbolic block id byte, timestamp and payload.
    Bounds: k = max variables; exact = only k variables; first = type index of variable 0 fixed (sharding)."""
    K = sym.B['k']
    pkid = sym.int('pkid', 0, 255)
    ours = True if pkid == 1 else False          # the first configuration of a session gets block id 1
    if not ours:
        nv, tsel = 1, [sym.B.get('first', 0)]
    else:
        nv = K if sym.B.get('exact') else sym.choice('nv', K + 1)        # 0..K variables (an empty block is legal)
        tsel = [sym.choice(f't{k}', 8) if (k or 'first' not in sym.B) else sym.B['first'] for k in range(nv)]
    types = [FW_TYPES[t] for t in tsel]
    total = sum(t[2] for t in types)
    ts = sym.bytes('ts', 3)
    payload = sym.bytes('p', total)
    sym.apply_known()
    cf = new_cf(10, [toc_element(10 + k, 'g', f'v{k}', 1) for k in range(nv)])
    lc = LogConfig('blk', 100)
    for k in range(nv):
        if sym.B.get('memory') and ours and k % 2 == 0:
            # raw-memory variable whose STORED type differs in size from its fetch type: the data packet carries fetch-size values
            stored = FW_TYPES[(tsel[k] + 1 + sym.choice(f's{k}', 7)) % 8][0]
            lc.add_memory(NAMES[k], types[k][0], stored, 0x20000000 + 4 * k)
            sym.goal('memory-variable')
        else:
            lc.add_variable(NAMES[k], types[k][0])
    got = []
    lc.data_received_cb.add_callback(lambda t, d, c: got.append((t, d, c)))
    cf.log.add_config(lc)
    assert lc.valid
    cf.deliver(packet(E.CHAN_LOGDATA, [pkid] + ts + payload))
    assert lc.id == 1
    if not ours:
        assert got == [], 'data for another block id delivered to this block'
        sym.goal('other-block')
        return
    assert len(got) == 1, 'data callback not called exactly once'
    t, data, conf = got[0]
    assert conf is lc
    assert t == ts[0] + 256 * ts[1] + 65536 * ts[2], 'timestamp is not the 24-bit little-endian value'
    assert len(data) == nv
    if nv == 0:
        sym.goal('empty-block')
    off = 0
    for k in range(nv):
        name, tid, size, signed, ffmt = types[k]
        exp = ref_value(tid, payload[off:off + size])
        assert same_value(sym, data[NAMES[k]], exp, ffmt is not None), ('value of variable', k, name)
        off += size
        if ffmt == '<f':
            sym.goal('float')
        if ffmt == '<e':
            sym.goal('fp16')
        if signed:
            sym.goal('signed')
    sym.goal('decoded')


# ---------------------------------------------------------------------------------------------------------------- acceptance
NFILL = 27


def accept_toc(stored_ids):
    """TOC: K candidate variables g.v<k> (stored type given) and 27 one-byte fillers g.f<k>."""
    ents = [toc_element(100 + k, 'g', f'v{k}', stored_ids[k]) for k in range(len(stored_ids))]
    ents += [toc_element(200 + k, 'g', f'f{k}', 1) for k in range(NFILL)]
    return ents


def check_accept(sym, cf, lc, present, size, period_ms, want_vars):
    """accepted <=> every table variable present AND size <= 26 AND 1 <= period_ms // 10 <= 254."""
    added = []
    cf.log.block_added_cb.add_callback(lambda c: added.append(c))
    try:
        cf.log.add_config(lc)
    except (KeyError, AttributeError):      # the documented refusals
        pass
    assert cf.drain() == [], 'add_config sent a packet'
    accepted = lc.valid is True
    expected = present and size <= E.MAX_LOG_PAYLOAD and 10 <= period_ms and period_ms <= 2549
    if expected:
        assert accepted, ('valid configuration refused', size)
        assert len(added) == 1 and added[0] is lc and any(b is lc for b in cf.log.log_blocks)
        assert lc.period == period_ms // 10, 'period (10 ms units) that will be sent to the device'
        got = [(v.name, v.fetch_as) for v in lc.variables]
        assert sorted(got) == sorted(want_vars), 'variables of the accepted configuration'
        sym.goal('accepted')
        if size == E.MAX_LOG_PAYLOAD:
            sym.goal('accepted-26-bytes')
    else:
        assert lc.valid is False, ('invalid configuration accepted', size)
        assert added == [] and not any(b is lc for b in cf.log.log_blocks), 'rejected configuration registered'
        try:
            lc.start()                       # whatever the application does with the rejected object, nothing goes out
        except Exception:
            pass
        assert cf.drain() == [], 'packet sent for a rejected configuration'
        sym.goal('rejected')
        if not present:
            sym.goal('rejected-missing')
        elif size > E.MAX_LOG_PAYLOAD:
            sym.goal('rejected-size')
            if size == E.MAX_LOG_PAYLOAD + 1:
                sym.goal('rejected-27-bytes')
        else:
            sym.goal('rejected-period')


def h_accept_size(sym):
    """K table variables of every fetch type (forked) + nf one-byte fillers (forked), all present; symbolic period."""
    K = sym.B['k']
    period_ms = sym.int('period_ms', 0, PERIOD_MAX_MS)
    nf = sym.B['fmin'] + sym.choice('nf', sym.B['fmax'] - sym.B['fmin'] + 1)
    tsel = [sym.choice(f't{k}', 8) for k in range(K)]
    sym.apply_known()
    cf = new_cf(10, accept_toc([1] * K))
    lc = LogConfig('blk', period_ms)
    want = []
    for k in range(K):
        lc.add_variable(NAMES[k], FW_TYPES[tsel[k]][0])
        want.append((NAMES[k], FW_TYPES[tsel[k]][1]))
    for k in range(nf):
        lc.add_variable(f'g.f{k}', 'uint8_t')
        want.append((f'g.f{k}', 1))
    size = nf + sum(FW_TYPES[t][2] for t in tsel)
    check_accept(sym, cf, lc, True, size, period_ms, want)


KIND_TYPED, KIND_DEFAULT, KIND_MEM = range(3)
ACC_FETCH = [7, 8, 4]        # float, FP16, int8_t   (explicit fetch types of the typed / raw-memory variants)
ACC_STORED = [2, 3, 1]       # uint16_t, uint32_t, uint8_t (types in the device table, used by add_variable(name) without type)


def h_accept_kinds(sym):
    """3 variables, each typed / default-typed (type from the table) / raw memory (forked), table membership forked, fillers
    so that the payload lands on 24..29 bytes; symbolic period."""
    K = 3
    period_ms = sym.int('period_ms', 0, PERIOD_MAX_MS)
    kinds = [sym.choice(f'kind{k}', 3) for k in range(K)]
    member = [(True if sym.bool(f'member{k}') else False) if kinds[k] != KIND_MEM else True for k in range(K)]
    addr = sym.int('addr', 0, 2 ** 32 - 1)
    fill = sym.B['fill'] + sym.choice('extra', 2)
    sym.apply_known()
    cf = new_cf(10, accept_toc(ACC_STORED))
    lc = LogConfig('blk', period_ms)
    want = []
    size = fill
    for k in range(K):
        name = NAMES[k] if member[k] else f'g.missing{k}'
        if kinds[k] == KIND_TYPED:
            lc.add_variable(name, FW_BY_ID[ACC_FETCH[k]][0])
            tid = ACC_FETCH[k]
        elif kinds[k] == KIND_DEFAULT:
            lc.add_variable(name)
            tid = ACC_STORED[k]
            sym.goal('default-typed')
        else:
            name = f'raw{k}'
            lc.add_memory(name, FW_BY_ID[ACC_FETCH[k]][0], 'uint32_t', addr)
            tid = ACC_FETCH[k]
            sym.goal('raw-memory')
        want.append((name, tid))
        size += size_of(tid)
    for k in range(fill):
        lc.add_variable(f'g.f{k}', 'uint8_t')
        want.append((f'g.f{k}', 1))
    check_accept(sym, cf, lc, all(member), size, period_ms, want)


# ---------------------------------------------------------------------------------------------------------------- lifecycle
CREATE_STATUS = [E.OK, E.EEXIST, E.ENOMEM, E.E2BIG]       # what the firmware answers to create/append
OTHER_STATUS = [E.OK, E.ENOENT]                           # ... to start / stop / delete
LC_TYPED = [('g.v0', 2), ('g.v1', 7)]                     # uint16_t, float: explicit fetch type
LC_DEFAULT = [('g.v2', 4), ('g.v3', 8)]                   # added without type: int8_t, FP16 in the device table


class Recorder:
    """added_cb / started_cb listener of any arity (cflib itself calls these with one, two or other first arguments)."""
    def __init__(self):
        self.calls = []

    def __call__(self, *args):
        self.calls.append(args)

    def transitions(self, lc):
        """The (LogConfig, flag) notifications; everything else must be an error notification ending in False."""
        out = []
        for a in self.calls:
            if len(a) == 2 and a[0] is lc:
                out.append(a[1])
            else:
                assert a[-1] is False, ('notification that is neither (config, flag) nor an error report', len(a))
        return out


def expect_create(msgs, v2, cf, want):
    """The firmware's reading of the create message(s): every configured variable once, found by table ident."""
    bid, recs = fw_block_messages(msgs, v2)
    by_ident = {el.ident: (f'{el.group}.{el.name}') for el in cf.toc_entries}
    seen = [(by_ident[ident], t & 0x0F) for (_, t, ident) in recs]
    assert sorted(seen) == sorted(want), ('create does not enumerate the configured variables once each', seen)
    return bid, seen


def h_lifecycle(sym):
    """Event list over {add/re-add, start, stop, delete, ack(status) of the oldest outstanding request, disconnect,
    reconnect}; the solver picks among the ENABLED events. Flags and callbacks follow the acks; re-add keeps the variables."""
    N = sym.B['n']
    ncs = sym.B['create_statuses']
    period_ms = sym.int('period_ms', 10, 2549)
    with_defaults = sym.B['defaults']
    sym.apply_known()
    toc = [toc_element(30 + k, 'g', f'v{k}', t) for k, (_, t) in enumerate(LC_TYPED + LC_DEFAULT)]
    cf = new_cf(10, toc)
    lc = LogConfig('blk', period_ms)
    want = list(LC_TYPED)
    for name, t in LC_TYPED:
        lc.add_variable(name, FW_BY_ID[t][0])
    if with_defaults:
        for name, t in LC_DEFAULT:
            lc.add_variable(name)
        want += LC_DEFAULT
    added_rec, started_rec = Recorder(), Recorder()
    lc.added_cb.add_callback(added_rec)
    lc.started_cb.add_callback(started_rec)
    cf.log.add_config(lc)
    assert lc.valid and cf.drain() == []
    snapshot = [(v.name, v.fetch_as) for v in lc.variables]
    assert sorted(snapshot) == sorted(want), 'variables after the first add'
    period = period_ms // 10
    connected, in_log = True, True
    m_added = m_started = False
    flag_session = session = 0          # session in which the added flag was last set by an ack
    out = []                            # requests the device has received and not yet answered (oldest first)
    exp_added, exp_started = [], []
    for step in range(N):
        events = []
        if connected and in_log:
            events += ['start', 'stop', 'delete', 'disconnect']
            if out:
                events += [('ack', st) for st in (CREATE_STATUS[:ncs] if out[0] == 'create' else OTHER_STATUS)]
        elif connected:
            events += ['add']
        else:
            events += ['reconnect']
        ev = events[sym.choice(f'ev{step}', len(events))]
        if ev == 'add':
            cf.log.add_config(lc)
            assert lc.valid and cf.drain() == []
            assert [(v.name, v.fetch_as) for v in lc.variables] == snapshot, 're-add changed the variable list'
            in_log = True
            sym.goal('re-added')
        elif ev == 'start':
            lc.start()
            msgs = cf.drain()
            # the added flag only follows acks, so after a reconnect it may still be set from the previous session
            # (the statement asks nothing about that case): then either request is tolerated
            stale = m_added and flag_session != session
            is_start = bool(msgs) and msgs[0][2][0] == E.START
            if m_added and (is_start or not stale):
                assert msgs == [(5, 1, [E.START, lc.id, period])], ('start request for an added block', msgs)
                out.append('start')
            else:
                bid, _ = expect_create(msgs, True, cf, want)
                assert bid == lc.id and len(msgs) == 1
                out.append('create')
        elif ev == 'stop':
            lc.stop()
            assert cf.drain() == [(5, 1, [E.STOP, lc.id])], 'stop request'
            out.append('stop')
        elif ev == 'delete':
            lc.delete()
            assert cf.drain() == [(5, 1, [E.DELETE, lc.id])], 'delete request'
            out.append('delete')
        elif ev == 'disconnect':
            disconnect(cf)
            connected, out = False, []
        elif ev == 'reconnect':
            connect(cf, toc)
            connected, in_log = True, False
            session += 1
            assert cf.log.log_blocks == []
        else:
            status = ev[1]
            req = out.pop(0)
            cmd = {'create': E.CREATE_V2, 'start': E.START, 'stop': E.STOP, 'delete': E.DELETE}[req]
            cf.deliver(packet(E.CHAN_SETTINGS, [cmd, lc.id, status]))
            sent = cf.drain()
            if req == 'create' and status in (E.OK, E.EEXIST) and not m_added:
                assert sent == [(5, 1, [E.START, lc.id, period])], ('start must follow the create ack', sent)
                out.append('start')
                m_added, flag_session = True, session
                exp_added.append(True)
                sym.goal('create-acked')
            else:
                assert sent == [], ('unexpected request after an ack', sent)
                if req == 'create' and status not in (E.OK, E.EEXIST):
                    assert lc.err_no == status
                    sym.goal('create-refused')
                if status == E.OK and req == 'start':
                    if not m_started:
                        exp_started.append(True)
                        sym.goal('started')
                    m_started = True
                elif status == E.OK and req == 'stop':
                    if m_started:
                        exp_started.append(False)
                        sym.goal('stopped')
                    m_started = False
                elif req == 'delete':        # 0, or ENOENT: the block is not there (any more)
                    if m_started:
                        exp_started.append(False)
                    if m_added:
                        exp_added.append(False)
                        sym.goal('deleted')
                    m_started = m_added = False
        assert lc.added == m_added, ('added flag does not follow the acks', step)
        assert lc.started == m_started, ('started flag does not follow the acks', step)
        assert added_rec.transitions(lc) == exp_added, 'added_cb notifications'
        assert started_rec.transitions(lc) == exp_started, 'started_cb notifications'


# ---------------------------------------------------------------------------------------------------------------- re-add, end to end
RT_VARS = [('g.v0', 5), ('g.v1', 3), ('g.v2', 8), ('g.v3', 1)]      # int16_t, uint32_t, FP16, uint8_t in the device table


def h_readd_roundtrip(sym):
    """Scripted history: add [start, acks] - disconnect - reconnect (table idents may differ) - re-add - start - acks - one
    data packet.  Each variable is typed explicitly or left to the table type (forked).  The device encodes the sample in the
    order and with the types of the records IT parsed from the create message; the application must receive, per variable
    name, exactly that value."""
    K = sym.B['k']
    typed = [True if sym.bool(f'typed{k}') else False for k in range(K)]
    started_before = True if sym.bool('started_before') else False
    missing_first = sym.choice('missing_first', K + 1)       # K: nothing missing; k: variable k absent from the first table
    id1 = [sym.int(f'ident_a{k}', 0, 65535) for k in range(K)]
    id2 = [sym.int(f'ident_b{k}', 0, 65535) for k in range(K)]
    assume_distinct(sym, id1)
    assume_distinct(sym, id2)
    ts = sym.bytes('ts', 3)
    sym.apply_known()
    toc1 = [toc_element(id1[k], 'g', f'v{k}', RT_VARS[k][1]) for k in range(K) if k != missing_first]
    toc2 = [toc_element(id2[k], 'g', f'v{k}', RT_VARS[k][1]) for k in range(K)]
    cf = new_cf(10, toc1)
    lc = LogConfig('blk', 500)
    want = []
    for k in range(K):
        name, t = RT_VARS[k]
        if typed[k]:
            lc.add_variable(name, FW_BY_ID[t][0])
        else:
            lc.add_variable(name)
            sym.goal('default-typed')
        want.append((name, t))
    got = []
    lc.data_received_cb.add_callback(lambda t, d, c: got.append((t, d, c)))

    def bring_up():
        lc.start()
        bid, seen = expect_create(cf.drain(), True, cf, want)
        cf.deliver(packet(E.CHAN_SETTINGS, [E.CREATE_V2, bid, E.OK]))
        assert cf.drain() == [(5, 1, [E.START, bid, 50])]
        cf.deliver(packet(E.CHAN_SETTINGS, [E.START, bid, E.OK]))
        assert lc.added and lc.started
        return bid, seen

    try:
        cf.log.add_config(lc)
        accepted = True
    except KeyError:
        accepted = False
    assert accepted == (missing_first == K), 'acceptance in the first session'
    if accepted:
        if started_before:
            bring_up()
            lc.delete()
            assert len(cf.drain()) == 1
            cf.deliver(packet(E.CHAN_SETTINGS, [E.DELETE, lc.id, E.OK]))
            assert not lc.added and not lc.started
    else:
        sym.goal('first-add-refused')
    disconnect(cf)
    connect(cf, toc2)
    cf.log.add_config(lc)
    assert lc.valid, 're-add refused'
    assert sorted((v.name, v.fetch_as) for v in lc.variables) == sorted(want), 're-add changed the variable list'
    bid, seen = bring_up()
    # the device samples its variables in the order of its records
    payload = sym.bytes('p', sum(size_of(t) for _, t in seen))
    cf.deliver(packet(E.CHAN_LOGDATA, [bid] + ts + payload))
    assert len(got) == 1 and got[0][2] is lc and got[0][0] == le(ts)
    assert len(got[0][1]) == K
    off = 0
    for name, t in seen:
        exp = ref_value(t, payload[off:off + size_of(t)])
        assert same_value(sym, got[0][1][name], exp, FW_BY_ID[t][4] is not None), ('value delivered for', name)
        off += size_of(t)
    sym.goal('round-trip')


# ---------------------------------------------------------------------------------------------------------------- SyncLogger
SL_VARS = [('g.v0', 2), ('g.v1', 4)]       # uint16_t, int8_t


def h_synclogger(sym):
    """SyncLogger on one block; events {sample arrives, next(), link lost, leave the with-block}, solver picks among the
    enabled ones (next() is enabled when it cannot block: a sample is waiting, or the logger is no longer connected)."""
    N = sym.B['n']
    raw = [(sym.bytes(f'ts{j}_', 3), sym.bytes(f'p{j}_', 3)) for j in range(N)]
    sym.apply_known()
    cf = new_cf(10, [toc_element(40 + k, 'g', f'v{k}', t) for k, (_, t) in enumerate(SL_VARS)])
    lc = LogConfig('blk', 100)
    for name, t in SL_VARS:
        lc.add_variable(name, FW_BY_ID[t][0])
    sl = SyncLogger(cf, lc)
    sl.connect()
    bid, _ = expect_create(cf.drain(), True, cf, SL_VARS)
    cf.deliver(packet(E.CHAN_SETTINGS, [E.CREATE_V2, bid, E.OK]))
    assert cf.drain() == [(5, 1, [E.START, bid, 10])]
    cf.deliver(packet(E.CHAN_SETTINGS, [E.START, bid, E.OK]))
    assert lc.started and sl.is_connected()
    link_up, open_, ended = True, True, False
    pending = []            # samples delivered to the host and not yet yielded
    nsent = 0
    for step in range(N):
        events = []
        if link_up:
            events += ['sample', 'lost']
        if open_:
            events += ['close']
        if pending or not open_:
            events += ['next']
        ev = events[sym.choice(f'ev{step}', len(events))]
        if ev == 'sample':
            ts, p = raw[nsent]
            nsent += 1
            cf.deliver(packet(E.CHAN_LOGDATA, [bid] + ts + p))
            if open_:
                pending.append((le(ts), {'g.v0': ref_int(p[0:2], False), 'g.v1': ref_int(p[2:3], True)}))
        elif ev == 'lost':
            disconnect(cf)
            link_up, open_ = False, False
            assert not sl.is_connected(), 'SyncLogger still connected after the link was lost'
            sym.goal('link-lost')
        elif ev == 'close':
            sl.__exit__(None, None, None)
            sent = cf.drain()
            if link_up:
                assert sent == [(5, 1, [E.STOP, bid]), (5, 1, [E.DELETE, bid])], ('stop and delete on leaving', sent)
            else:
                assert sent == []
            open_ = False
            assert not sl.is_connected()
            sym.goal('closed')
        else:
            try:
                item = next(sl)          # E.WouldBlock (blocking get on an empty queue) propagates: violation
            except StopIteration:
                item = None
            if open_:
                assert item is not None, 'iteration ended while connected'
            if item is None:
                assert not open_
                ended = True
                sym.goal('ended')
            else:
                # in order, once; after the end of the session the remaining samples may or may not be handed out
                assert not ended, 'sample yielded after the iteration had ended'
                assert pending, 'sample yielded that was never delivered (or yielded twice)'
                ets, edata = pending.pop(0)
                assert item[0] == ets and item[2] is lc, 'timestamp / block of the yielded sample'
                assert item[1] == edata, 'values of the yielded sample'
                sym.goal('yielded')
                if nsent >= 2:
                    sym.goal('yielded-after-two')


HARNESSES = [
    Harness('accept_size', h_accept_size, quick=dict(k=2, fmin=18, fmax=25), thorough=dict(k=2, fmin=0, fmax=27), timeout=(300, 1500),
            goals=('accepted', 'accepted-26-bytes', 'rejected-size', 'rejected-27-bytes', 'rejected-period'), float_model='real',
            note=PERIOD_NOTE),
    Harness('accept_kinds', h_accept_kinds, quick=dict(fill=19), thorough=dict(fill=19), timeout=(300, 1500),
            goals=('accepted', 'accepted-26-bytes', 'rejected-missing', 'rejected-size', 'rejected-27-bytes', 'rejected-period',
                   'default-typed', 'raw-memory'), float_model='real', note=PERIOD_NOTE),
    Harness('create_v2', h_create, quick=dict(v2=True, nmax=12), thorough=dict(v2=True, nmax=26), timeout=(200, 900),
            goals=('created', 'split')),
    Harness('create_v1', h_create, quick=dict(v2=False, nmax=12), thorough=dict(v2=False, nmax=14), timeout=(200, 900),
            goals=('created',)),
    Harness('create_mem', h_create_mem, quick=dict(n=7), thorough=dict(n=9), timeout=(300, 1200),
            goals=('memory-variable', 'split')),
    Harness('decode[memory vars]', h_decode, quick=dict(k=2, exact=True, memory=True), thorough=dict(k=3, exact=True, memory=True),
            timeout=(600, 1800), smt_timeout=1.5, goals=('decoded', 'memory-variable'),
            note='raw-memory variables whose stored type has another size than the fetch type, followed by a table variable'),
    Harness('decode', h_decode, quick=dict(k=3), thorough=dict(k=3), timeout=(300, 900), smt_timeout=1.5,
            goals=('decoded', 'other-block', 'float', 'fp16', 'signed', 'empty-block')),
    Harness('lifecycle', h_lifecycle, quick=dict(n=5, create_statuses=3, defaults=True),
            thorough=dict(n=6, create_statuses=4, defaults=True), timeout=(300, 1700), float_model='real', symbolic=False,
            goals=('create-acked', 'create-refused', 'started', 'stopped', 'deleted', 're-added'),
            note='event choices are solver-picked indexes into the enabled-event list (forks); only the period is a symbolic value. '
                 + PERIOD_NOTE),
    Harness('readd_roundtrip', h_readd_roundtrip, quick=dict(k=3), thorough=dict(k=4), timeout=(300, 1500),
            goals=('round-trip', 'default-typed', 'first-add-refused')),
    Harness('synclogger', h_synclogger, quick=dict(n=5), thorough=dict(n=7), timeout=(300, 1500),
            goals=('yielded', 'yielded-after-two', 'ended', 'link-lost', 'closed')),
]
# thorough only: every mix of exactly 4 fetch types, sharded by the type of the first variable
HARNESSES += [Harness(f'decode4[{FW_TYPES[i][0]}]', h_decode, quick=dict(k=4, exact=True, first=i), tiers=('thorough',),
                      timeout=(1500, 1500), smt_timeout=1.5, goals=('decoded', 'other-block')) for i in range(8)]
