"""C08 Every command packet decodes to the caller's arguments under the firmware layout.

Oracle: a table (below, written from the CRTP protocol documentation; see DESIGN §1.5) giving, per emitting
method and protocol version: port, channel, the firmware's packed-struct format and the ordered field values
(sign conventions included).  The assertion is byte equality between the emitted payload and the reference
encoding of the caller's arguments, for every argument value; float32 fields are compared bit-exactly through
the struct float model (fp.to_fp32 RNE + to_ieee_bv)."""
import math
import struct

from vf.harness import Harness
from vf.env.base import MiniCF
from cflib.crazyflie.commander import Commander
from cflib.crazyflie.high_level_commander import HighLevelCommander
from cflib.crazyflie.localization import Localization
from cflib.crazyflie.extpos import Extpos
from cflib.crazyflie.platformservice import PlatformService
from cflib.crtp.crtpstack import CRTPPacket
from lpslib.lopoanchor import LoPoAnchor

FUNCTIONS = ['cflib.crazyflie.commander:Commander', 'cflib.crazyflie.high_level_commander:HighLevelCommander',
             'cflib.crazyflie.localization:Localization.send_extpos', 'cflib.crazyflie.localization:Localization.send_extpose',
             'cflib.crazyflie.localization:Localization.send_short_lpp_packet',
             'cflib.crazyflie.localization:Localization.send_emergency_stop',
             'cflib.crazyflie.localization:Localization.send_emergency_stop_watchdog',
             'cflib.crazyflie.localization:Localization.send_lh_persist_data_packet',
             'cflib.crazyflie.extpos:Extpos', 'cflib.crazyflie.platformservice:PlatformService.send_arming_request',
             'cflib.crazyflie.platformservice:PlatformService.send_crash_recovery_request',
             'cflib.crazyflie:Crazyflie.send_packet', 'cflib.crtp.crtpstack:CRTPPacket', 'lpslib.lopoanchor:LoPoAnchor']
STUBS = ['MiniCF: link records packets; send_packet is the real Crazyflie.send_packet', 'print() in high_level_commander silenced']
ASSUMPTIONS = ['firmware wire layouts are the table in vf/props/c08.py (firmware sources are not in the sandbox)',
               'float arguments are finite IEEE doubles (NaN/inf pass through struct bit-exactly and are not enumerated)',
               'base-station lists passed to send_lh_persist_data_packet have pairwise distinct members']
OUTSIDE = ['quaternion compression inside send_full_state_setpoint (C13); NaN/inf arguments']
EXPLANATION = 'C08: one harness per emitting method; all float arguments symbolic finite doubles, ints wider than their field, ' \
              'protocol version 0..20 symbolic.'

REFUSALS = (ValueError, struct.error, OverflowError)


class Loc:
    """cf.loc for Extpos/LoPoAnchor: the real Localization bound to the MiniCF."""


def mkcf(ver):
    cf = MiniCF(ver)
    cf.commander = Commander(cf)
    cf.high_level_commander = HighLevelCommander(cf)
    cf.loc = Localization(cf)
    cf.extpos = Extpos(cf)
    cf.platform_service = PlatformService.__new__(PlatformService)
    cf.platform_service._cf = cf
    return cf


def F(sym, *names):
    return [sym.f64(n, finite=True) for n in names]


def sbool(sym, name):
    return True if sym.bool(name) else False


def check(sym, cf, emit, port, chan, fmt, values, refuse=False):
    """Run emit(); compare with the reference encoding struct.pack(fmt, *values) on (port, chan)."""
    try:
        ref = None if refuse else struct.pack(fmt, *values)
    except REFUSALS:
        ref = None
    try:
        emit()
        raised = None
    except REFUSALS as e:
        raised = e
    if ref is None:
        assert raised is not None, 'unrepresentable arguments were sent instead of refused'
        assert len(cf.sent) == 0, 'packet sent although the call raised'
        sym.goal('refused')
        return
    assert raised is None, f'representable arguments refused: {type(raised).__name__}'
    assert len(cf.sent) == 1, 'not exactly one packet'
    pk = cf.sent[0]
    assert len(pk.data) <= 30
    assert pk.header == ((port << 4) | 0x0c | chan), ('header', pk.header)
    assert pk.port == port and pk.channel == chan
    assert len(pk.data) == len(ref), ('length', len(pk.data), len(ref))
    assert list(pk.data) == list(ref), 'payload differs from the firmware layout of the arguments'
    sym.goal('sent')


# ---------------------------------------------------------------- commander (port 3 / port 7)
def h_setpoint(sym):
    thrust = sym.int('thrust', -70000, 140000)
    x = sym.B['xmode']
    if x == 'off':
        roll, pitch, yaw = F(sym, 'roll', 'pitch', 'yaw')
    elif x == 'values':     # both mixed inputs solver-chosen from a pool of doubles (concrete after the fork: no FP query at all)
        pool = [0.0, 1.0, -11.75, 3.25, 1e-40, 2.5e38, -3.0e38]
        roll, pitch = pool[sym.choice('roll_sel', len(pool))], pool[sym.choice('pitch_sel', len(pool))]
        yaw, = F(sym, 'yaw')
    elif x == 'roll':       # x-mode mixes roll and pitch in Float64: one of them symbolic at a time (pure FP query)
        # |angle| <= 1e6: the mixed value cannot leave the float32 range, which spares the solver the overflow branch (the
        # overflow refusal in x-mode is decided by send_setpoint[x,values])
        roll = sym.f64('roll', finite=True, lo=-1.0e6, hi=1.0e6)
        pitch, yaw = 3.25, -7.5
    else:
        pitch = sym.f64('pitch', finite=True, lo=-1.0e6, hi=1.0e6)
        roll, yaw = -11.75, 2.5
    cf = mkcf(10)
    cf.commander.set_client_xmode(x != 'off')
    if x != 'off':
        er, ep = 0.707 * (roll - pitch), 0.707 * (roll + pitch)
    else:
        er, ep = roll, pitch
    check(sym, cf, lambda: cf.commander.send_setpoint(roll, pitch, yaw, thrust), 3, 0, '<fffH', (er, -ep, yaw, thrust),
          refuse=bool(thrust < 0 or thrust > 65535))


def h_notify_stop(sym):
    ms = sym.int('ms', -5, 2 ** 32 + 5)
    cf = mkcf(10)
    check(sym, cf, lambda: cf.commander.send_notify_setpoint_stop(ms), 7, 1, '<BI', (0, ms))


def h_stop(sym):
    cf = mkcf(sym.int('ver', 0, 20))
    check(sym, cf, lambda: cf.commander.send_stop_setpoint(), 7, 0, '<B', (0,))


def h_velocity_world(sym):
    vx, vy, vz, yr = F(sym, 'vx', 'vy', 'vz', 'yr')
    ver = sym.int('ver', 0, 20)
    cf = mkcf(ver)
    vals = (1, vx, vy, vz, -yr) if ver <= 8 else (8, vx, vy, vz, yr)
    check(sym, cf, lambda: cf.commander.send_velocity_world_setpoint(vx, vy, vz, yr), 7, 0, '<Bffff', vals)


def h_zdistance(sym):
    r, p, yr, z = F(sym, 'roll', 'pitch', 'yr', 'z')
    ver = sym.int('ver', 0, 20)
    cf = mkcf(ver)
    vals = (2, r, p, -yr, z) if ver <= 8 else (9, r, p, yr, z)
    check(sym, cf, lambda: cf.commander.send_zdistance_setpoint(r, p, yr, z), 7, 0, '<Bffff', vals)


def h_hover(sym):
    vx, vy, yr, z = F(sym, 'vx', 'vy', 'yr', 'z')
    ver = sym.int('ver', 0, 20)
    cf = mkcf(ver)
    vals = (5, vx, vy, -yr, z) if ver <= 8 else (10, vx, vy, yr, z)
    check(sym, cf, lambda: cf.commander.send_hover_setpoint(vx, vy, yr, z), 7, 0, '<Bffff', vals)


def h_position(sym):
    x, y, z, yaw = F(sym, 'x', 'y', 'z', 'yaw')
    cf = mkcf(sym.int('ver', 0, 20))
    check(sym, cf, lambda: cf.commander.send_position_setpoint(x, y, z, yaw), 7, 0, '<Bffff', (7, x, y, z, yaw))


def h_full_state(sym):
    """Fixed-point fields: trunc(arg*1000) as int16, overflow refused; quaternion concrete (identity; C13 covers it)."""
    which = sym.B['field']       # which of the 12 fixed-point fields is symbolic
    consts = [0.101, -0.202, 0.303, 1.404, -1.505, 1.606, -2.707, 2.808, -2.909, 3.010, -3.111, 3.212]
    a = sym.f64('a', finite=True, lo=-70.0, hi=70.0)
    args = list(consts)
    args[which] = a
    pos, vel, acc, rates = args[0:3], args[3:6], args[6:9], args[9:12]
    cf = mkcf(10)
    # firmware resolution: millimetres / milli-units, truncated towards zero (int() of the scaled value)
    exp = [int(x * 1000) for x in args]
    from cflib.utils.encoding import compress_quaternion
    comp = compress_quaternion([0, 0, 0, 1])
    vals = (6, exp[0], exp[1], exp[2], exp[3], exp[4], exp[5], exp[6], exp[7], exp[8], comp, exp[9], exp[10], exp[11])
    check(sym, cf, lambda: cf.commander.send_full_state_setpoint(pos, vel, acc, [0, 0, 0, 1], rates[0], rates[1], rates[2]),
          7, 0, '<BhhhhhhhhhIhhh', vals)


FS_POOL = [0.0, 0.0015, -0.9999, 32.767, 32.7675, 32.768, -32.768, -32.7685, -32.769, 40.0, -65.536, 65.535, float('nan'), float('inf')]


def h_full_state_values(sym):
    """All twelve fixed-point fields at once, each solver-chosen from a pool of boundary values (concrete after the fork, so the
    conversion code may be anything, numpy included): in range -> trunc(arg*1000) as int16; otherwise refused, nothing sent."""
    n = sym.B.get('fields', 12)
    args = [0.101, -0.202, 0.303, 1.404, -1.505, 1.606, -2.707, 2.808, -2.909, 3.010, -3.111, 3.212]
    for k in range(n):
        i = sym.B['which'][k]
        args[i] = FS_POOL[sym.choice(f'v{i}', len(FS_POOL))]
    pos, vel, acc, rates = args[0:3], args[3:6], args[6:9], args[9:12]
    cf = mkcf(10)
    bad = any(x != x or x in (float('inf'), float('-inf')) or not -32768 <= int(x * 1000) <= 32767 for x in args)
    exp = [0 if bad else int(x * 1000) for x in args]
    from cflib.utils.encoding import compress_quaternion
    comp = compress_quaternion([0, 0, 0, 1])
    vals = (6, exp[0], exp[1], exp[2], exp[3], exp[4], exp[5], exp[6], exp[7], exp[8], comp, exp[9], exp[10], exp[11])
    check(sym, cf, lambda: cf.commander.send_full_state_setpoint(pos, vel, acc, [0, 0, 0, 1], rates[0], rates[1], rates[2]),
          7, 0, '<BhhhhhhhhhIhhh', vals, refuse=bad)


def _ref_compress(q):
    """Firmware quatcompress(): normalise, index of the largest |component| (first one wins ties), sign of every other
    component relative to the largest (so that the dropped one is reconstructed as positive), 9-bit magnitudes."""
    n = math.sqrt(sum(x * x for x in q))
    qn = [x / n for x in q]
    big = 0
    for i in range(1, 4):
        if abs(qn[i]) > abs(qn[big]):
            big = i
    neg = qn[big] < 0
    comp = big
    for i in range(4):
        if i != big:
            negbit = 1 if ((qn[i] < 0) != neg) else 0
            mag = int(511 * (abs(qn[i]) * math.sqrt(2)) + 0.5)
            comp = (comp << 10) | (negbit << 9) | mag
    return comp


QUATS = [[0, 0, 0, 1], [0, 0, 0, -1], [0.5, 0.5, 0.5, 0.5], [0.1, -0.2, 0.3, -0.9273618495495703], [-0.8, 0.2, -0.5, 0.26457513110645906],
         [0.0871557, 0, 0, -0.9961947], [0, 0.7071068, 0, -0.7071068], [0.3, -0.9, 0.1, 0.3], [-0.6, -0.6, 0.2, 0.4898979485566356],
         [2.0, 0, 0, -2.0], [0.01, 0.02, -0.9997, 0.01]]


def h_full_state_quat(sym):
    """The compressed orientation word of send_full_state_setpoint against an independent port of the firmware's quatcompress
    (solver-chosen among quaternions incl. negative largest components, ties and unnormalised ones); rates symbolic."""
    q = QUATS[sym.choice('quat', len(QUATS))]
    rr = sym.int('rollrate_milli', -3000, 3000)
    cf = mkcf(10)
    rate = rr / 1000 if not sym.symbolic else None
    # rates as exact thousandths so that the expected field is the integer itself
    rates = [1.5, -2.25, 0.125]
    exp_r = [int(x * 1000) for x in rates]
    vals = (6, 100, -200, 300, 0, 0, 0, 0, 0, 0, _ref_compress(q), exp_r[0], exp_r[1], exp_r[2])
    check(sym, cf, lambda: cf.commander.send_full_state_setpoint([0.1, -0.2, 0.3], [0, 0, 0], [0, 0, 0], list(q), *rates),
          7, 0, '<BhhhhhhhhhIhhh', vals)


def h_two_sessions(sym):
    """The protocol-version dependent layouts follow the version negotiated NOW: the same Commander / HighLevelCommander objects
    are used across two sessions with different versions (both symbolic), on both sides of every legacy/new switch."""
    v1, v2 = sym.int('ver1', 0, 20), sym.int('ver2', 0, 20)
    a, b, c, d = F(sym, 'a', 'b', 'c', 'd')
    which = sym.B['which']
    cf = mkcf(v1)

    def emit():
        if which == 'hover':
            cf.commander.send_hover_setpoint(a, b, c, d)
        elif which == 'zdistance':
            cf.commander.send_zdistance_setpoint(a, b, c, d)
        elif which == 'velocity_world':
            cf.commander.send_velocity_world_setpoint(a, b, c, d)
        else:
            cf.high_level_commander.go_to(a, b, c, d, 1.5, False, True, 3)

    def expected(ver):
        if which == 'hover':
            return 7, '<Bffff', ((5, a, b, -c, d) if ver <= 8 else (10, a, b, c, d))
        if which == 'zdistance':
            return 7, '<Bffff', ((2, a, b, -c, d) if ver <= 8 else (9, a, b, c, d))
        if which == 'velocity_world':
            return 7, '<Bffff', ((1, a, b, c, -d) if ver <= 8 else (8, a, b, c, d))
        if ver < 8:
            return 8, '<BBBfffff', (4, 3, 0, a, b, c, d, 1.5)
        return 8, '<BBBBfffff', (12, 3, 0, 1, a, b, c, d, 1.5)
    try:
        emit()
    except REFUSALS:
        return
    del cf.sent[:]
    cf.platform._v = v2                      # a new session negotiated another protocol version
    port, fmt, vals = expected(v2)
    check(sym, cf, emit, port, 0, fmt, vals)
    if bool(v1 <= 8) != bool(v2 <= 8):
        sym.goal('crossed-switch')


# ---------------------------------------------------------------- high level commander (port 8)
def h_hl_small(sym):
    gm = sym.int('gm', -3, 260)
    cf = mkcf(10)
    k = sym.B['which']
    if k == 'group_mask':
        check(sym, cf, lambda: cf.high_level_commander.set_group_mask(gm), 8, 0, '<BB', (0, gm))
    elif k == 'stop':
        check(sym, cf, lambda: cf.high_level_commander.stop(gm), 8, 0, '<BB', (3, gm))
    elif k == 'define':
        tid, off, n, ty = sym.int('tid', -1, 256), sym.int('off', -1, 2 ** 32), sym.int('n', -1, 256), sym.int('ty', 0, 1)
        check(sym, cf, lambda: cf.high_level_commander.define_trajectory(tid, off, n, ty), 8, 0, '<BBBBIB',
              (6, tid, 1, ty, off, n))
    elif k == 'start':
        tid = sym.int('tid', -1, 256)
        ts, = F(sym, 'ts')
        rel, rev = sbool(sym, 'rel'), sbool(sym, 'rev')
        check(sym, cf, lambda: cf.high_level_commander.start_trajectory(tid, ts, rel, rev, gm), 8, 0, '<BBBBBf',
              (5, gm, 1 if rel else 0, 1 if rev else 0, tid, ts))


def h_takeoff_land(sym):
    h, d, yaw = F(sym, 'h', 'd', 'yaw')
    gm = sym.int('gm', 0, 255)
    use_none = sbool(sym, 'yaw_none')
    land = sbool(sym, 'land')
    cf = mkcf(10)
    hl = cf.high_level_commander
    y = None if use_none else yaw
    vals = (8 if land else 7, gm, h, 0.0 if use_none else yaw, 1 if use_none else 0, d)
    check(sym, cf, (lambda: hl.land(h, d, gm, y)) if land else (lambda: hl.takeoff(h, d, gm, y)), 8, 0, '<BBffBf', vals)


def h_goto(sym):
    x, y, z, yaw, d = F(sym, 'x', 'y', 'z', 'yaw', 'd')
    ver = sym.int('ver', 0, 20)
    rel, lin = sbool(sym, 'rel'), sbool(sym, 'lin')
    gm = sym.int('gm', 0, 255)
    cf = mkcf(ver)
    if ver < 8:
        fmt, vals = '<BBBfffff', (4, gm, 1 if rel else 0, x, y, z, yaw, d)
    else:
        fmt, vals = '<BBBBfffff', (12, gm, 1 if rel else 0, 1 if lin else 0, x, y, z, yaw, d)
    check(sym, cf, lambda: cf.high_level_commander.go_to(x, y, z, yaw, d, rel, lin, gm), 8, 0, fmt, vals)


def h_spiral(sym):
    ang, r0, rf, asc, d = F(sym, 'angle', 'r0', 'rF', 'ascent', 'd')
    ver = sym.int('ver', 0, 20)
    side, cw = sbool(sym, 'side'), sbool(sym, 'cw')
    gm = sym.int('gm', 0, 255)
    cf = mkcf(ver)
    if ver < 8:
        cf.high_level_commander.spiral(ang, r0, rf, asc, d, side, cw, gm)
        assert len(cf.sent) == 0       # documented: not supported, nothing is sent
        return
    two_pi = 2 * math.pi
    ea = two_pi if ang > two_pi else (-two_pi if ang < -two_pi else ang)
    e0 = 0 if r0 < 0 else r0
    ef = 0 if rf < 0 else rf
    check(sym, cf, lambda: cf.high_level_commander.spiral(ang, r0, rf, asc, d, side, cw, gm), 8, 0, '<BBBBfffff',
          (11, gm, 1 if side else 0, 1 if cw else 0, ea, e0, ef, asc, d))


# ---------------------------------------------------------------- localization (port 6), extpos, platform (13), LPS
def h_extpos(sym):
    x, y, z = F(sym, 'x', 'y', 'z')
    cf = mkcf(10)
    via = sym.B['via']
    emit = (lambda: cf.extpos.send_extpos(x, y, z)) if via == 'extpos' else (lambda: cf.loc.send_extpos([x, y, z]))
    check(sym, cf, emit, 6, 0, '<fff', (x, y, z))


def h_extpose(sym):
    x, y, z, qx, qy, qz, qw = F(sym, 'x', 'y', 'z', 'qx', 'qy', 'qz', 'qw')
    cf = mkcf(10)
    via = sym.B['via']
    emit = (lambda: cf.extpos.send_extpose(x, y, z, qx, qy, qz, qw)) if via == 'extpos' else \
        (lambda: cf.loc.send_extpose([x, y, z], [qx, qy, qz, qw]))
    check(sym, cf, emit, 6, 1, '<Bfffffff', (8, x, y, z, qx, qy, qz, qw))


def h_loc_small(sym):
    cf = mkcf(10)
    k = sym.B['which']
    if k == 'estop':
        check(sym, cf, lambda: cf.loc.send_emergency_stop(), 6, 1, '<B', (3,))
    elif k == 'watchdog':
        check(sym, cf, lambda: cf.loc.send_emergency_stop_watchdog(), 6, 1, '<B', (4,))
    elif k == 'lpp':
        dest = sym.int('dest', -1, 256)
        n = sym.B.get('n', 3)
        body = bytes(sym.bytes('b', n)) if not sym.symbolic else None
        bs = sym.bytes('b', n) if sym.symbolic else list(body)
        data = struct.pack('<' + 'B' * n, *bs)
        check(sym, cf, lambda: cf.loc.send_short_lpp_packet(dest, data), 6, 1, '<BB' + 'B' * n, (2, dest) + tuple(bs))
    elif k == 'anchor_pos':
        aid = sym.int('aid', 0, 255)
        x, y, z = F(sym, 'x', 'y', 'z')
        cf.loc_obj = cf.loc
        a = LoPoAnchor(cf)
        check(sym, cf, lambda: a.set_position(aid, (x, y, z)), 6, 1, '<BBBfff', (2, aid, 1, x, y, z))
    elif k == 'anchor_mode':
        aid, mode = sym.int('aid', 0, 255), sym.int('mode', -1, 256)
        reboot = sbool(sym, 'reboot')
        a = LoPoAnchor(cf)
        check(sym, cf, (lambda: a.reboot(aid, mode)) if reboot else (lambda: a.set_mode(aid, mode)), 6, 1, '<BBBB',
              (2, aid, 2 if reboot else 3, mode))


def h_lh_persist(sym):
    """Lists as sets of base-station ids; members outside 0..15 must be refused."""
    cf = mkcf(10)
    ng = sym.B['n']
    geo = [sym.int(f'g{i}', -2, 17) for i in range(ng)]
    cal = [sym.int(f'c{i}', -2, 17) for i in range(sym.B.get('nc', 1))]
    for lst in (geo, cal):
        for i in range(len(lst)):
            for j in range(i):
                sym.assume(lst[i] != lst[j])
    bad = any(b < 0 or b > 15 for b in geo + cal)
    mg = mc = 0
    if not bad:
        for b in range(16):
            if any(g == b for g in geo):
                mg += 1 << b
            if any(c == b for c in cal):
                mc += 1 << b
    try:
        cf.loc.send_lh_persist_data_packet(list(geo), list(cal))
        raised = False
    except Exception:
        raised = True
    if bad:
        assert raised and len(cf.sent) == 0
        sym.goal('refused')
        return
    assert not raised and len(cf.sent) == 1
    pk = cf.sent[0]
    assert pk.header == (6 << 4 | 0x0c | 1)
    assert list(pk.data) == list(struct.pack('<BHH', 11, mg, mc))
    sym.goal('sent')


def h_platform(sym):
    cf = mkcf(10)
    ps = cf.platform_service
    k = sym.B['which']
    if k == 'arm':
        arm = sbool(sym, 'arm')
        check(sym, cf, lambda: ps.send_arming_request(arm), 13, 0, '<BB', (1, 1 if arm else 0))
    else:
        check(sym, cf, lambda: ps.send_crash_recovery_request(), 13, 0, '<B', (2,))


def h_header(sym):
    """CRTPPacket header <-> (port, channel) for all 16 x 4 pairs and all 256 received header bytes."""
    p, c = sym.int('port', 0, 15), sym.int('chan', 0, 3)
    pk = CRTPPacket()
    pk.set_header(p, c)
    h = pk.get_header()
    assert 0 <= h <= 255
    rx = CRTPPacket(h)
    assert rx.port == p and rx.channel == c
    pk2 = CRTPPacket()
    pk2.port = p
    pk2.channel = c
    assert pk2.header == h == (p * 16 + 12 + c)
    hdr = sym.int('hdr', 0, 255)
    rx = CRTPPacket(hdr)
    assert rx.port == hdr // 16 and rx.channel == hdr % 4
    assert rx.get_header() == (hdr - (hdr % 16) + 12 + hdr % 4)     # link bits forced to 1, port/channel kept
    big = CRTPPacket(0, bytes(sym.B.get('n', 30)))
    assert big.is_data_size_valid()
    big = CRTPPacket(0, bytes(31))
    assert not big.is_data_size_valid()


_H = [
    Harness('send_setpoint[+]', h_setpoint, quick=dict(xmode='off'), goals=('sent', 'refused')),
    Harness('send_setpoint[x,values]', h_setpoint, quick=dict(xmode='values'), goals=('sent', 'refused'), timeout=(300, 900),
            note='x-mode with roll and pitch solver-chosen from a pool of doubles (zero, ordinary, subnormal-in-float32, near the float32 '
                 'limit so that the mixed value overflows); yaw and thrust symbolic'),
    Harness('send_setpoint[x,roll]', h_setpoint, quick=dict(xmode='roll'), goals=('sent', 'refused'), timeout=(600, 1800), per_path=400.0,
            note='roll symbolic in [-1e6, 1e6], pitch/yaw concrete; refusal comes from the symbolic thrust'),
    Harness('send_setpoint[x,pitch]', h_setpoint, quick=dict(xmode='pitch'), goals=('sent', 'refused'), timeout=(600, 1800), per_path=400.0,
            note='pitch symbolic in [-1e6, 1e6], roll/yaw concrete; refusal comes from the symbolic thrust'),
    Harness('notify_setpoint_stop', h_notify_stop, goals=('sent', 'refused')),
    Harness('stop_setpoint', h_stop, goals=('sent',)),
    Harness('velocity_world', h_velocity_world, goals=('sent', 'refused')),
    Harness('zdistance', h_zdistance, goals=('sent',)),
    Harness('hover', h_hover, goals=('sent',)),
    Harness('position', h_position, goals=('sent',)),
] + [Harness(f'full_state[{i}]', h_full_state, quick=dict(field=i), goals=('sent', 'refused'),
             tiers=('quick', 'thorough') if i in (0, 4, 8, 11) else ('thorough',)) for i in range(12)] + [
    Harness(f'hl_{k}', h_hl_small, quick=dict(which=k), goals=('sent', 'refused')) for k in ('group_mask', 'stop', 'define', 'start')
] + [
    Harness('full_state[values]', h_full_state_values, quick=dict(fields=2, which=(0, 11)), thorough=dict(fields=3, which=(2, 4, 9)),
            goals=('sent', 'refused'), symbolic=False,
            note='boundary values (+-32.767/32.768, just beyond, far beyond, NaN, inf) chosen by the solver per field; no symbolic '
                 'float reaches the code'),
    Harness('full_state[quaternion]', h_full_state_quat, goals=('sent',), symbolic=False,
            note='quaternion chosen by the solver among concrete ones (numpy code); reference: independent port of quatcompress'),
] + [Harness(f'two_sessions[{k}]', h_two_sessions, quick=dict(which=k), goals=('sent', 'crossed-switch'), timeout=(600, 1800), per_path=300.0)
     for k in ('hover', 'zdistance', 'velocity_world', 'go_to')] + [
    Harness('takeoff_land', h_takeoff_land, goals=('sent',)),
    Harness('go_to', h_goto, goals=('sent',), timeout=(600, 1800)),
    Harness('spiral', h_spiral, goals=('sent',), timeout=(600, 1800)),
    Harness('extpos[loc]', h_extpos, quick=dict(via='loc'), goals=('sent',)),
    Harness('extpos[extpos]', h_extpos, quick=dict(via='extpos'), goals=('sent',)),
    Harness('extpose[loc]', h_extpose, quick=dict(via='loc'), goals=('sent',)),
    Harness('extpose[extpos]', h_extpose, quick=dict(via='extpos'), goals=('sent',)),
] + [Harness(f'loc_{k}', h_loc_small, quick=dict(which=k), goals=('sent',)) for k in ('estop', 'watchdog', 'lpp', 'anchor_pos', 'anchor_mode')] + [
    Harness('lh_persist[geo]', h_lh_persist, quick=dict(n=2, nc=1), thorough=dict(n=3, nc=1), goals=('sent', 'refused'), timeout=(300, 1800)),
    Harness('lh_persist[calib]', h_lh_persist, quick=dict(n=1, nc=2), thorough=dict(n=1, nc=3), goals=('sent', 'refused'), timeout=(300, 1800)),
    Harness('platform_arm', h_platform, quick=dict(which='arm'), goals=('sent',)),
    Harness('platform_recover', h_platform, quick=dict(which='recover'), goals=('sent',)),
    Harness('header', h_header),
]

for _h in _H:
    _h.smt_timeout = 1.5      # floating-point queries: give up on the incremental solver early, the portfolio decides
HARNESSES = _H
