"""C07 Received packets reach exactly the matching callbacks, once, in order."""
from vf.explore import Yield
from vf.harness import Harness
from vf.env.base import FakeLink, step
from cflib.crazyflie import Crazyflie, _IncomingPacketHandler
from cflib.crtp.crtpstack import CRTPPacket
from cflib.utils.callbacks import Caller

FUNCTIONS = ['cflib.crazyflie:_IncomingPacketHandler.run', 'cflib.crazyflie:_IncomingPacketHandler.add_header_callback',
             'cflib.crazyflie:_IncomingPacketHandler.remove_header_callback',
             'cflib.crazyflie:_IncomingPacketHandler.add_port_callback',
             'cflib.crazyflie:_IncomingPacketHandler.remove_port_callback',
             'cflib.utils.callbacks:Caller.call', 'cflib.utils.callbacks:Caller.add_callback',
             'cflib.utils.callbacks:Caller.remove_callback', 'cflib.crtp.crtpstack:CRTPPacket.__init__']
STUBS = ['threading.Thread.start/is_alive/join (no OS thread; run() is stepped once per packet and left through Yield '
         'raised by the fake link\'s receive_packet)', 'FakeLink (recording link)', 'logging disabled']
ASSUMPTIONS = ['context switches only at blocking calls: dispatch of one packet is not preempted',
               'registrations are pairwise distinct as tuples (distinct callback objects in match/mutate/combined; one shared callback with '
               'distinct patterns in shared-callback)',
               'oracle is lenient where the statement is silent: a registration removed during the dispatch of a packet '
               'before its turn, or added during that dispatch, may or may not receive that packet']
OUTSIDE = ['exceptions raised by all-packet (packet_received) callbacks', 'more registrations/packets than the bound']
EXPLANATION = 'C07: _IncomingPacketHandler.run stepped per packet with symbolic header bytes, symbolic (port,mask,channel,mask) ' \
              'registrations and symbolic per-callback actions (raise / remove self / remove other / add).'

NOTHING, RAISE, REMOVE_SELF, REMOVE_OTHER, ADD = range(5)


class _CF:
    """The slice of Crazyflie the handler uses (link + all-packet Caller); the handler itself is the real one."""
    def __init__(self):
        self.link = FakeLink()
        self.packet_received = Caller()


def h_dispatch(sym):
    R, NPK = sym.B['regs'], sym.B['packets']
    cf = _CF()
    inc = _IncomingPacketHandler(cf)
    regs = []       # [dict(port, pmask, ch, cmask, cb, present)]
    calls = []      # (packet index, reg index)
    hdrs = [sym.int(f'hdr{k}', 0, 255) for k in range(NPK)]
    state = {'k': 0, 'removed_now': set(), 'n_added': 0}

    def make_cb(i):
        def cb(pk):
            calls.append((state['k'], i))
            r = regs[i]
            act = r['act']
            if not isinstance(act, int):
                act = r['act'] = _concretise(sym, act)
            if act == RAISE:
                raise RuntimeError('callback failure')
            if act == REMOVE_SELF:
                inc.remove_header_callback(r['cb'], r['port'], r['ch'], r['pmask'], r['cmask'])
                r['present'] = False
                state['removed_now'].add(i)
            elif act == REMOVE_OTHER:
                j = r['other']
                o = regs[j]
                if o['present']:
                    inc.remove_header_callback(o['cb'], o['port'], o['ch'], o['pmask'], o['cmask'])
                    o['present'] = False
                    state['removed_now'].add(j)
            elif act == ADD and state['n_added'] < 1:
                state['n_added'] += 1
                n = len(regs)
                regs.append(dict(port=pk.port, pmask=0xff, ch=0, cmask=0, act=NOTHING, other=0, present=True,
                                 added_in=state['k']))
                regs[n]['cb'] = make_cb(n)
                inc.add_port_callback(pk.port, regs[n]['cb'])
        return cb

    for i in range(R):
        if sym.B.get('concrete_regs'):
            # mutation-during-dispatch concern: registrations are concrete (port API on port 5, one header
            # registration on port 5 channel 1, one on another port); actions and headers are symbolic
            spec = [(5, 0xff, 0, 0), (5, 0xff, 1, 0xff), (5, 0xff, 0, 0), (7, 0xff, 0, 0), (5, 0x0f, 0, 0)][i]
            r = dict(port=spec[0], pmask=spec[1], ch=spec[2], cmask=spec[3])
        else:
            r = dict(port=sym.int(f'port{i}', 0, 255), pmask=sym.int(f'pmask{i}', 0, 255), ch=sym.int(f'ch{i}', 0, 255),
                     cmask=sym.int(f'cmask{i}', 0, 255))
        r.update(act=(sym.int(f'act{i}', 0, 4) if sym.B.get('actions', True) else NOTHING), other=(i + 1) % R,
                 present=True, added_in=-1)
        regs.append(r)
        r['cb'] = make_cb(i)
        if sym.B.get('callable_kinds') and i % 2 == 1:
            # callbacks need not be plain functions: functools.partial objects and callable instances have no __name__
            import functools
            r['cb'] = functools.partial(r['cb']) if i % 4 == 1 else _CallableObj(r['cb'])
        if sym.B.get('concrete_regs') and (r['pmask'], r['ch'], r['cmask']) == (0xff, 0, 0):
            inc.add_port_callback(r['port'], r['cb'])
        else:
            inc.add_header_callback(r['cb'], r['port'], r['ch'], r['pmask'], r['cmask'])
    sym.apply_known()
    cur = {}

    def begin(k):
        state['k'] = k
        state['removed_now'] = set()
        cur['k'] = k
        cur['present_at_start'] = [i for i, r in enumerate(regs) if r['present']]

    def finish():
        if 'k' not in cur:
            return
        k, present_at_start = cur.pop('k'), cur.pop('present_at_start')
        _check_dispatch(sym, k, present_at_start, regs, calls, hdrs, state)

    if sym.B.get('burst'):
        # all packets are waiting when the handler runs: one activation of run() dispatches them back to back (whatever it
        # keeps in locals between packets is in scope); the per-packet checks run when the handler asks for the next packet
        link = cf.link

        def receive_packet(wait=0):
            finish()
            if not link.rx:
                raise Yield()
            pk = link.rx.pop(0)
            begin(pk.data[0])
            return pk
        link.receive_packet = receive_packet
        for k in range(NPK):
            link.rx.append(CRTPPacket(hdrs[k], [k]))
        assert step(inc) == 'yield', 'dispatcher thread died'
        assert not cur and not link.rx
        sym.goal('back-to-back')
        return
    for k in range(NPK):
        begin(k)
        cf.link.rx.append(CRTPPacket(hdrs[k], [k]))
        assert step(inc) == 'yield', 'dispatcher thread died'
        finish()


def _check_dispatch(sym, k, present_at_start, regs, calls, hdrs, state):
    if True:
        got = [i for (kk, i) in calls if kk == k]
        port, chan = hdrs[k] >> 4, hdrs[k] & 3
        # (1) only matching registrations are invoked
        for i in got:
            r = regs[i]
            assert r['port'] == (port & r['pmask']) and r['ch'] == (chan & r['cmask']), ('non-matching callback invoked', i)
            assert i in present_at_start or r['added_in'] == k, ('removed registration invoked', i)
        # (2) at most once, (3) in registration order
        assert len(set(got)) == len(got), ('callback invoked twice for one packet', got)
        assert got == sorted(got), ('callbacks out of registration order', got)
        # (4) every matching registration present throughout the dispatch is invoked
        for i in present_at_start:
            r = regs[i]
            if i in state['removed_now']:
                continue
            if r['port'] == (port & r['pmask']) and r['ch'] == (chan & r['cmask']):
                assert i in got, ('matching registration not invoked', i, got)
                sym.goal('delivered')
        if state['removed_now']:
            sym.goal('removed-during-dispatch')


class _CallableObj:
    def __init__(self, fn):
        self.fn = fn

    def __call__(self, pk):
        return self.fn(pk)


def _concretise(sym, v):
    for a in range(4):
        if v == a:
            return a
    return 4


def h_shared_callback(sym):
    """Registrations are distinct as TUPLES (port, port mask, channel, channel mask, callback): the same callback object may be
    registered several times with different patterns. Removing one registration must stop deliveries for that registration only;
    the callback is invoked once per remaining matching registration."""
    R = sym.B['regs']
    cf = _CF()
    inc = _IncomingPacketHandler(cf)
    count = [0]

    def shared(pk):
        count[0] += 1
    regs = []
    for i in range(R):
        r = (sym.int(f'port{i}', 0, 255), sym.int(f'pmask{i}', 0, 255), sym.int(f'ch{i}', 0, 255), sym.int(f'cmask{i}', 0, 255))
        for q in regs:
            sym.assume(not (r[0] == q[0] and r[1] == q[1] and r[2] == q[2] and r[3] == q[3]))
        regs.append(r)
        inc.add_header_callback(shared, r[0], r[2], r[1], r[3])
    sym.apply_known()
    victim = sym.choice('victim', R)
    v = regs[victim]
    inc.remove_header_callback(shared, v[0], v[2], v[1], v[3])
    hdr = sym.int('hdr', 0, 255)
    cf.link.rx.append(CRTPPacket(hdr, [1]))
    assert step(inc) == 'yield', 'dispatcher thread died'
    port, chan = hdr >> 4, hdr & 3
    expected = 0
    for i, r in enumerate(regs):
        if i != victim and r[0] == (port & r[1]) and r[2] == (chan & r[3]):
            expected += 1
    assert count[0] == expected, ('deliveries after removing one of several registrations of the same callback', count[0], expected)
    if expected:
        sym.goal('still-delivered')


def h_caller(sym):
    """Caller.call: every callback registered when call() starts is invoked exactly once, in order, with the
    arguments, also when callbacks add/remove callbacks (snapshot semantics)."""
    N = sym.B['n']
    c = Caller()
    log = []
    acts = [sym.int(f'act{i}', 0, 3) for i in range(N)]
    arg = sym.int('arg', 0, 255)
    cbs = []

    def mk(i):
        def cb(x):
            log.append((i, x))
            a = acts[i]
            if a == 1:
                if cb in c.callbacks:
                    c.remove_callback(cb)
            elif a == 2:
                if cbs[(i + 1) % N] in c.callbacks:
                    c.remove_callback(cbs[(i + 1) % N])
            elif a == 3:
                c.add_callback(extra)
        return cb

    def extra(x):
        log.append(('extra', x))
    for i in range(N):
        cbs.append(mk(i))
        c.add_callback(cbs[i])
    c.add_callback(cbs[0])     # duplicates are not registered
    assert len(c.callbacks) == N
    c.call(arg)
    assert log[:N] == [(i, arg) for i in range(N)], log
    assert len(log) == N
    present = list(c.callbacks)
    del log[:]
    c.call(arg)
    assert log == [((cbs.index(f) if f in cbs else 'extra'), arg) for f in present]


HARNESSES = [
    # concern 1: matching, all fields symbolic, no actions
    Harness('match', h_dispatch, quick=dict(regs=3, packets=1, actions=False), thorough=dict(regs=4, packets=1, actions=False),
            timeout=(200, 2000), goals=('delivered',)),
    # concern 2: add/remove/raise from inside callbacks, concrete registrations, symbolic headers and actions
    Harness('mutate', h_dispatch, quick=dict(regs=4, packets=2, concrete_regs=True, callable_kinds=True),
            thorough=dict(regs=5, packets=2, concrete_regs=True, callable_kinds=True), timeout=(300, 3000),
            goals=('delivered', 'removed-during-dispatch')),
    # both at once, small
    Harness('mutate[back-to-back]', h_dispatch, quick=dict(regs=3, packets=2, concrete_regs=True, burst=True),
            thorough=dict(regs=4, packets=3, concrete_regs=True, burst=True), timeout=(300, 2000),
            goals=('delivered', 'removed-during-dispatch', 'back-to-back'),
            note='both packets are waiting when the handler runs: one activation of run() dispatches them (state kept in its locals is in scope)'),
    Harness('combined', h_dispatch, quick=dict(regs=2, packets=1), thorough=dict(regs=2, packets=2), timeout=(200, 2000),
            goals=('delivered', 'removed-during-dispatch')),
    Harness('shared-callback', h_shared_callback, quick=dict(regs=2), thorough=dict(regs=3), timeout=(300, 1800), goals=('still-delivered',)),
    Harness('caller', h_caller, quick=dict(n=3), thorough=dict(n=4), timeout=(120, 600)),
]
