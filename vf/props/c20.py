"""C20 Link URIs select the right driver and parse to the right radio settings.

Oracle (written from the URI format `radio://<dongle>[/<channel>[/<250K|1M|2M>[/<address hex>]]][?rate_limit=<n>]`
and the Crazyradio conventions, not from the parser): the harness owns the *generating values* (dongle number,
channel, rate, address nibbles, rate limit), renders them into a URI whose characters are solver variables, runs
the real RadioDriver.connect / parse_uri / scan_interface / get_link_driver / Crazyflie.open_link on it and
compares what reaches the (fake) shared radio with the generating values:
  data rate codes 250K->0, 1M->1, 2M->2; address = 5 bytes, most significant first (the order of the hex digits),
  short addresses padded with zero digits on the left; defaults channel 2, 2M, E7E7E7E7E7, no rate limit.
"""
import ast
import inspect
import os
import textwrap
import types

import z3

from vf.harness import Harness
from vf.explore import Inconclusive, Yield
from vf.env import c20_env as E

import cflib.crtp as crtp
from cflib.crtp.exceptions import WrongUriType
from cflib.crtp.radiodriver import RadioDriver
from cflib.crazyflie import Crazyflie
import cflib.utils.uri_helper as uri_helper

E.install()

FUNCTIONS = ['cflib.crtp.radiodriver:RadioDriver.parse_uri', 'cflib.crtp.radiodriver:RadioDriver.connect',
             'cflib.crtp.radiodriver:RadioDriver.scan_interface', 'cflib.crtp.radiodriver:_SharedRadioInstance',
             'cflib.crtp:get_link_driver', 'cflib.crtp:init_drivers', 'cflib.crazyflie:Crazyflie.open_link',
             'cflib.crtp.usbdriver:UsbDriver.connect', 'cflib.crtp.tcpdriver:TcpDriver.connect',
             'cflib.crtp.udpdriver:UdpDriver.connect', 'cflib.crtp.serialdriver:SerialDriver.connect',
             'cflib.crtp.prrtdriver:PrrtDriver.connect', 'cflib.utils.uri_helper:address_from_env',
             'cflib.utils.uri_helper:uri_from_env', 'urllib.parse:urlsplit', 'urllib.parse:parse_qs']
STUBS = ['RadioManager replaced by FakeRadioManager handing out REAL _SharedRadioInstance objects with recorded command '
         'queues (no USB); _SharedRadio, CfUsb, socket (udpdriver), SocketTransport (tcpdriver), UARTTransport and '
         'SerialDriver.get_devices refuse or return nothing; cflib.drivers.crazyradio.get_serials returns the harness list',
         'threading.Thread.start is a no-op (radio / incoming threads never run)', 'logging disabled',
         'uri_helper.os replaced by a namespace holding the harness environment dict',
         'local symbolic models (vf/env/c20_env.py) for format(int|str, spec), binascii.unhexlify and int(str, 16), '
         'validated against CPython by harness `models` on every run']
ASSUMPTIONS = ['well-formed radio URI = the grammar in the module docstring; decimal fields are ASCII digits (leading zeros allowed)',
               'dongle serial numbers are 10 characters [0-9A-F] as reported by get_serials(), pairwise distinct',
               'scheme-exclusivity is decided over z3 strings (unbounded length, z3 character set) for the guard expressions '
               'extracted from the current source; the extraction is cross-checked against the real connect() on fixed strings',
               'USE_CFLINK is not set (python drivers)']
OUTSIDE = ['cflinkcpp driver; enumeration of real USB devices by serial number',
           'data-rate literals other than 250K/1M/2M (parse_uri silently treats them as 2M; not asserted either way)',
           'address_from_env on URIs without an explicit address field or with a query part',
           'channels above 125 and addresses longer than 10 hex digits (refusal is not required by the statement)',
           'well-formed usb/serial/tcp/udp/prrt URIs beyond the scheme guard (they open devices / sockets)']
EXPLANATION = 'C20: URI characters are solver variables (decimal digits, hex digits of either case, serial characters); ' \
              'shape (which trailing fields exist, digit counts) is forked; scheme exclusivity is a direct z3 regular-language ' \
              'encoding regenerated from the driver sources.'

RATES = (('250K', 0), ('1M', 1), ('2M', 2))


def _user_exc(e):
    """Exceptions caught around the code under test: engine control flow (path timeout, rejected path, ...) passes through."""
    from crosshair.util import UnexploredPath, IgnoreAttempt, CrossHairInternal
    if isinstance(e, (UnexploredPath, IgnoreAttempt, CrossHairInternal, Inconclusive)):
        raise e
    return e
DEFAULT_ADDRESS = [0xE7] * 5


# ---------------------------------------------------------------------------------------------------- input builders
def _pick(sym, name, options):
    options = tuple(options)
    if len(options) == 1:
        return options[0]
    return options[sym.choice(name, len(options))]


def _digits(sym, name, n):
    """n symbolic decimal digit characters -> (code points, value)"""
    ds = [sym.int(f'{name}{i}', 0, 9) for i in range(n)]
    val = 0
    for d in ds:
        val = val * 10 + d
    return [48 + d for d in ds], val


def _hexchars(sym, name, n, upper_only=False):
    """n symbolic hex digit characters (either case unless upper_only) -> (code points, nibble values).
    The character is the solver variable; its value is the oracle's own (linear) hex decoding."""
    nibs, codes = [], []
    for i in range(n):
        c = sym.int(f'{name}{i}', 48, 70 if upper_only else 102)
        E.restrict(sym, c, [(48, 57), (65, 70)] + ([] if upper_only else [(97, 102)]))
        codes.append(c)
        nibs.append(c - 48 - 7 * (c >= 65) - 32 * (c >= 97))
    return codes, nibs


def _address_bytes(nibs):
    """<=10 nibbles, most significant first -> 5 bytes, zero padded on the left"""
    full = [0] * (10 - len(nibs)) + list(nibs)
    return [full[2 * i] * 16 + full[2 * i + 1] for i in range(5)]


SERIAL_PREFIX = '01234567'


def _serials(sym, n):
    """n dongle serial numbers: common prefix, two symbolic trailing characters each, pairwise distinct"""
    tails, out = [], []
    for k in range(n):
        codes, nibs = _hexchars(sym, f'ser{k}_', 2, upper_only=True)
        tails.append(nibs[0] * 16 + nibs[1])
        out.append((codes, nibs))
    for a in range(n):
        for b in range(a):
            E.constrain(sym, tails[a] != tails[b])
    return out, tails


# ---------------------------------------------------------------------------------------------------- (1) radio URIs
def h_uri(sym):
    B = sym.B
    parts = ['radio://']
    exp_fail = False
    serials = ()
    # ---- dongle
    if B.get('dongle', 'num') == 'num':
        nd = _pick(sym, 'id_digits', B.get('id_digits', (1,)))
        codes, devid = _digits(sym, 'id', nd)
        parts.append(codes)
    else:
        n = B.get('serials', 3)
        sers, tails = _serials(sym, n)
        serials = [E.sym_str(sym, [SERIAL_PREFIX, codes]) for codes, _ in sers]
        k = sym.choice('which_serial', n + 1)
        if k < n:
            tail = sers[k][0]
            devid = k
        else:                       # a serial number that no attached dongle has
            tail, nibs = _hexchars(sym, 'other', 2, upper_only=True)
            for t in tails:
                E.constrain(sym, nibs[0] * 16 + nibs[1] != t)
            exp_fail = True
            devid = None
        parts.append(SERIAL_PREFIX)
        parts.append([E.case_variant(sym, f'uri_serial_char{i}', c) for i, c in enumerate(tail)])      # either case in the URI
    # ---- path
    fields = B.get('fields', 3)
    channel, rate, address, rate_limit = 2, 2, DEFAULT_ADDRESS, None
    if fields >= 1:
        nd = _pick(sym, 'ch_digits', B.get('ch_digits', (2,)))
        codes, channel = _digits(sym, 'ch', nd)
        E.constrain(sym, channel <= 125)
        parts += ['/', codes]
    if fields >= 2:
        lit, rate = _pick(sym, 'rate', [r for r in RATES if r[0] in B.get('rates', ('250K', '1M', '2M'))])
        parts += ['/', lit]
    if fields >= 3:
        alen = _pick(sym, 'alen', B.get('alen', (10,)))
        codes, nibs = _hexchars(sym, 'a', alen)
        address = _address_bytes(nibs)
        parts += ['/', codes]
        if alen < 10:
            sym.goal('short-address')
    else:
        sym.goal('defaults')
    if B.get('slash'):
        parts.append('/')
    # ---- query
    if B.get('query'):
        parts.append('?')
        if B.get('extra_q'):
            parts.append('foo=1&')
        nd = _pick(sym, 'rl_digits', B.get('rl_digits', (3,)))
        codes, rate_limit = _digits(sym, 'rl', nd)
        parts += ['rate_limit=', codes]
        if B.get('extra_q'):
            parts.append('&bar=baz')
        sym.goal('rate-limit')
    uri = E.sym_str(sym, parts)
    sym.apply_known()

    mgr = E.isolate(serials)
    drv = RadioDriver()
    try:
        drv.connect(uri, None, None)
        raised = None
    except Exception as e:
        raised = _user_exc(e)
    if exp_fail:
        assert raised is not None and not isinstance(raised, WrongUriType), 'unknown dongle serial must be an error of the radio driver'
        assert mgr.opened == [], 'a dongle was opened for an unknown serial number'
        sym.goal('unknown-serial')
        return
    assert raised is None, f'well-formed radio URI rejected with {type(raised).__name__}'
    assert len(mgr.opened) == 1 and mgr.opened[0] == devid, 'wrong dongle opened'
    radio = mgr.instances[0]
    assert radio._channel == channel, 'channel applied to the radio differs from the URI'
    assert radio._datarate == rate, 'data rate applied to the radio differs from the URI'
    assert len(radio._address) == 5, 'address is not 5 bytes'
    assert list(radio._address) == address, 'address bytes applied to the radio differ from the URI'
    if rate_limit is None:
        assert drv.rate_limit is None, 'rate limit invented'
        assert drv._thread.rate_limit is None
    else:
        assert drv.rate_limit == rate_limit, 'rate limit differs from the URI'
        assert drv._thread.rate_limit == rate_limit
    assert drv._thread._radio is radio
    sym.goal('connected')
    if B.get('replug') and serials:
        # the set / order of attached dongles changes (one unplugged, or re-enumerated the other way round) and the SAME URI is
        # connected again: a serial number names a dongle, not the index it happened to have
        how = sym.choice('replug', 2)
        new = list(reversed(serials)) if how == 0 else list(serials[:devid]) + list(serials[devid + 1:])
        mgr2 = E.isolate(new)
        drv2 = RadioDriver()
        try:
            drv2.connect(uri, None, None)
            raised2 = None
        except Exception as e:
            raised2 = _user_exc(e)
        if how == 0:
            assert raised2 is None and mgr2.opened == [len(serials) - 1 - devid], 'after re-enumeration the URI opened another dongle'
            sym.goal('re-enumerated')
        else:
            assert raised2 is not None and mgr2.opened == [], 'the URI of an unplugged dongle opened some other dongle'
            sym.goal('unplugged')


def h_serial_replug(sym):
    """Histories on serial-number URIs with CONCRETE text (so that any caching keyed on the URI string behaves as in production):
    connect, the dongle list changes (re-enumerated in another order / the dongle unplugged / another one added in front), the same
    URI string is connected again.  A serial number names a dongle, not the index it happened to have."""
    all_serials = ['E7E7E7E7A1', 'E7E7E7E7B2', 'E7E7E7E7C3']
    n = 2 + sym.choice('dongles', 2)
    serials = all_serials[:n]
    k = sym.choice('which', n)
    chan = 10 + sym.int('chan_units', 0, 9)
    uri = 'radio://%s/%d/2M' % (serials[k], 10 + sym.choice('chan_choice', 3))
    del chan
    sym.apply_known()
    lists = [serials]
    for step in range(sym.B['steps']):
        how = sym.choice(f'change{step}', 4)
        cur = lists[-1]
        if how == 0:
            new = list(reversed(cur))
        elif how == 1:
            new = [x for x in cur if x != serials[k]]
        elif how == 2:
            new = ['0123456789'] + list(cur)
        else:
            new = list(cur)
        lists.append(new)
    for cur in lists:
        mgr = E.isolate(cur)
        drv = RadioDriver()
        try:
            drv.connect(uri, None, None)
            raised = None
        except Exception as e:
            raised = _user_exc(e)
        if serials[k] in cur:
            assert raised is None, 'URI of an attached dongle rejected'
            assert mgr.opened == [cur.index(serials[k])], 'the URI opened a dongle with another serial number'
            sym.goal('opened')
        else:
            assert raised is not None and not isinstance(raised, WrongUriType) and mgr.opened == [], \
                'the URI of an unplugged dongle opened some other dongle'
            sym.goal('unplugged')
    if len(lists) > 1 and lists[1] != lists[0]:
        sym.goal('dongle-list-changed')


# ---------------------------------------------------------------------------------------------------- (2) scan round trip
def h_scan(sym):
    B = sym.B
    target = dict(RATES)[B['rate']]
    nfound = B.get('found', 1)
    lo, hi = B.get('chan', (0, 125))
    chans = [sym.int(f'chan{i}', lo, hi) for i in range(nfound)]
    if B.get('addr', 'sym') == 'none':
        address = None
    else:
        # the 40-bit address as ten solver-chosen hex digits (most significant first; leading zeros allowed)
        anibs = [sym.int(f'addr_digit{i}', 0, 15) for i in range(10)]
        address = 0
        for v in anibs:
            address = address * 16 + v
    sym.apply_known()
    mgr = E.isolate(['0123456789'])
    mgr.found = lambda dr: list(chans) if dr == target else []
    drv = RadioDriver()
    found = drv.scan_interface(address)
    assert len(found) == nfound, 'number of reported links differs from the number of answering channels'
    radio = mgr.instances[0]
    scans = [c[2] for c in radio._cmd_queue.log if len(c) == 3 and isinstance(c[2], tuple) and len(c[2]) == 5]
    assert sorted(s[0] for s in scans) == [0, 1, 2], 'not every data rate scanned exactly once'
    at_target = [s for s in scans if s[0] == target][0]
    assert (at_target[2], at_target[3]) == (0, 125), 'channel range scanned'
    if address is None:
        exp_addr = DEFAULT_ADDRESS
    else:
        exp_addr = _address_bytes(anibs)
        if address != 0xE7E7E7E7E7:
            sym.goal('explicit-address')

    def same_address(bs):
        return list(bs) == exp_addr
    assert same_address(at_target[1]), 'address used while scanning differs from the requested one'
    for i in range(nfound):
        uri = found[i][0]
        devid, channel, rate, addr, rl = RadioDriver.parse_uri(uri)
        assert devid == 0 and rl is None
        assert channel == chans[i], 'reported URI parses to another channel than the one that answered'
        assert rate == target, 'reported URI parses to another data rate than the one scanned'
        assert same_address(addr), 'reported URI parses to another address than the one scanned'
    sym.goal('round-trip')


# ---------------------------------------------------------------------------------------------------- (3) scheme exclusivity
DRIVERS = (('radio', 'RadioDriver', 'radio://0/80/2M/E7E7E7E7E7'), ('usb', 'UsbDriver', 'usb://0'),
           ('serial', 'SerialDriver', 'serial://ttyAMA0'), ('udp', 'UdpDriver', 'udp://127.0.0.1:7777'),
           ('prrt', 'PrrtDriver', 'prrt://10.0.0.1:5000'), ('tcp', 'TcpDriver', 'tcp://aideck.local:5000'))
PROBES = ['', 'radio://0', 'radio://0/80/2M/E7E7E7E7E7', 'radio:/0', 'Radio://0', ' radio://0/1', 'xradio://0/1', 'usb://0',
          'usb://12', 'usb://', 'usb://a', 'usb://0\n', 'usb://0\n\n', 'usb://0/1', 'USB://0', 'serial://ttyAMA0', 'serial://',
          'serial:/x', 'udp://127.0.0.1:7777', 'udp://', 'udp:/', 'audp://h', 'prrt://10.0.0.1:5000', 'prrt://', 'prrt:x',
          'tcp://aideck.local:5000', 'tcp://', 'tcp:', 'xtcp://h:1', 'foo://bar', 'usb://0\nradio://0', 'radio', '://', 'tcp://\n']


def _is_wrong_uri_raise(node):
    return isinstance(node, ast.Raise) and isinstance(node.exc, ast.Call) and \
        getattr(node.exc.func, 'id', getattr(node.exc.func, 'attr', None)) == 'WrongUriType'


def _guard_exprs(fn, uri_name):
    """[(description, z3 regex)] for every `if not <test>: raise WrongUriType` in fn"""
    env = {}
    out = []
    for node in ast.walk(fn):
        if isinstance(node, ast.Assign) and len(node.targets) == 1 and isinstance(node.targets[0], ast.Name):
            env.setdefault(node.targets[0].id, node.value)
    for node in ast.walk(fn):
        if isinstance(node, ast.If) and any(_is_wrong_uri_raise(s) for s in node.body):
            t = node.test
            if not (isinstance(t, ast.UnaryOp) and isinstance(t.op, ast.Not)):
                raise E.Untranslatable('guard is not of the form `not <test>`: ' + ast.unparse(t))
            x = t.operand
            if isinstance(x, ast.Name) and x.id in env:
                x = env[x.id]
            if not (isinstance(x, ast.Call) and isinstance(x.func, ast.Attribute)):
                raise E.Untranslatable('guard test: ' + ast.unparse(x))
            f = x.func
            if f.attr == 'startswith' and isinstance(f.value, ast.Name) and f.value.id == uri_name \
                    and len(x.args) == 1 and isinstance(x.args[0], ast.Constant) and isinstance(x.args[0].value, str):
                out.append((ast.unparse(x), E.prefix_language(x.args[0].value)))
            elif f.attr == 'search' and isinstance(f.value, ast.Name) and f.value.id == 're' and len(x.args) == 2 \
                    and isinstance(x.args[0], ast.Constant) and isinstance(x.args[0].value, str) \
                    and isinstance(x.args[1], ast.Name) and x.args[1].id == uri_name:
                out.append((ast.unparse(x), E.search_language(x.args[0].value)))
            else:
                raise E.Untranslatable('guard test: ' + ast.unparse(x))
    return out


def claim_language(cls):
    """z3 regular expression of the URIs for which cls.connect does NOT raise WrongUriType (from the current source)."""
    tree = ast.parse(textwrap.dedent(inspect.getsource(cls)))
    methods = {f.name: f for f in tree.body[0].body if isinstance(f, ast.FunctionDef)}
    fn = methods['connect']
    uri_name = fn.args.args[1].arg
    guards = _guard_exprs(fn, uri_name)
    if not guards:          # the test lives in a helper that receives the uri (RadioDriver.parse_uri)
        for node in ast.walk(fn):
            if isinstance(node, ast.Call) and isinstance(node.func, ast.Attribute) and node.func.attr in methods \
                    and any(isinstance(a, ast.Name) and a.id == uri_name for a in node.args):
                callee = methods[node.func.attr]
                pos = [i for i, a in enumerate(node.args) if isinstance(a, ast.Name) and a.id == uri_name][0]
                static = any(getattr(d, 'id', None) == 'staticmethod' for d in callee.decorator_list)
                guards = _guard_exprs(callee, callee.args.args[pos + (0 if static else 1)].arg)
                if guards:
                    break
    if not guards:
        raise E.Untranslatable(f'no WrongUriType guard found in {cls.__name__}.connect')
    lang = guards[0][1]
    for _, g in guards[1:]:
        lang = z3.Intersect(lang, g)
    return lang, [d for d, _ in guards]


def _real_claims(cls, uri):
    drv = cls()
    try:
        drv.connect(uri, None, None)
    except WrongUriType:
        return False
    except Exception as e:
        _user_exc(e)
        return True
    return True


def h_schemes(sym):
    from crosshair.tracers import NoTracing
    ctx = NoTracing() if sym.symbolic else _Null()
    with ctx:
        import importlib
        E.isolate()
        langs = {}
        try:
            for scheme, clsname, _ in DRIVERS:
                cls = getattr(importlib.import_module('cflib.crtp.' + clsname.lower()), clsname)
                langs[scheme] = (cls, claim_language(cls)[0])
        except E.Untranslatable as e:
            raise Inconclusive('scheme guard not translatable: ' + str(e))
        nq = [0]

        def unsat(*conds):
            s = z3.Solver()
            s.set('timeout', 60000)
            s.add(*conds)
            r = s.check()
            nq[0] += 1
            if r == z3.unknown:
                raise Inconclusive('z3 returned unknown on a regular-language query')
            return None if r == z3.unsat else s.model()
        # translation validation: the extracted languages agree with the real connect() on fixed strings
        for scheme, (cls, lang) in langs.items():
            for p in PROBES:
                assert E.z3_member(p, lang) == _real_claims(cls, p), \
                    f'translation of the {scheme} guard disagrees with the real connect on {p!r}'
        s = z3.String('uri')
        names = [d[0] for d in DRIVERS]
        # every scheme has its driver
        for scheme, _, example in DRIVERS:
            assert E.z3_member(example, langs[scheme][1]), f'{scheme} driver does not claim {example}'
            owners = [n for n in names if E.z3_member(example, langs[n][1])]
            assert owners == [scheme], f'{example} is claimed by {owners}'
        # every query is ONE membership constraint in a boolean combination of regular languages (emptiness check)
        def empty(lang):
            m = unsat(z3.InRe(s, lang))
            return None if m is None else m[s]
        own = {n: E.prefix_language(n + '://') for n in names}
        # a driver claims only URIs of its own scheme (unbounded strings)
        for scheme in names:
            w = empty(z3.Intersect(langs[scheme][1], z3.Complement(own[scheme])))
            assert w is None, f'{scheme} driver claims a URI of another scheme: {w}'
        # pairwise exclusivity (unbounded strings)
        for i, a in enumerate(names):
            for b in names[:i]:
                w = empty(z3.Intersect(langs[a][1], langs[b][1]))
                assert w is None, f'URI claimed by both {a} and {b}: {w}'
        # a URI of no known scheme is claimed by nobody
        w = empty(z3.Intersect(z3.Union(*[langs[n][1] for n in names]), z3.Complement(z3.Union(*[own[n] for n in names]))))
        assert w is None, f'unknown-scheme URI claimed: {w}'
        if sym.symbolic:
            sym.obligations += nq[0]
            sym.discharged += nq[0]
        sym.note('queries', nq[0])
    sym.goal('decided')


class _Null:
    def __enter__(self):
        return self

    def __exit__(self, *a):
        return False


# ---------------------------------------------------------------------------------------------------- (4) driver selection
ACCEPT, WRONG, FAIL = range(3)
URI = 'radio://0/80/2M/E7E7E7E7E7'


def _fake_drivers(n, outcomes, log):
    def mk(i):
        class FakeDriver:
            index = i

            def __init__(self):
                log.append(('new', i))
                self.sent = []
                self.closed = False
                self.needs_resending = False

            def connect(self, uri, stats_cb, error_cb):
                log.append(('connect', i, uri, stats_cb, error_cb))
                o = outcomes[i]
                if o == WRONG:
                    raise WrongUriType('not mine')
                if o == FAIL:
                    raise (RuntimeError, ValueError, OSError, KeyError)[i % 4]('device trouble')

            def send_packet(self, pk):
                self.sent.append(pk)

            def receive_packet(self, wait=0):
                raise Yield()

            def close(self):
                self.closed = True
        return FakeDriver
    return [mk(i) for i in range(n)]


def h_select(sym):
    n = sym.B['drivers']
    outcomes = [sym.int(f'outcome{i}', 0, 2) for i in range(n)]
    sym.apply_known()
    log = []
    classes = _fake_drivers(n, outcomes, log)
    saved = list(crtp.CLASSES)
    crtp.CLASSES[:] = classes
    try:
        first = None
        for i in range(n):
            if outcomes[i] != WRONG:
                first = i
                break
        tried = n if first is None else first + 1
        if sym.B['via'] == 'get_link_driver':
            a, b = object(), object()
            try:
                got = crtp.get_link_driver(URI, a, b)
                raised = None
            except Exception as e:
                got, raised = None, _user_exc(e)
            if first is None:
                assert raised is None and got is None, 'no driver accepts: get_link_driver must return None'
                sym.goal('none')
            elif outcomes[first] == ACCEPT:
                assert raised is None and type(got) is classes[first], 'the first accepting driver must be returned'
                sym.goal('accepted')
            else:
                assert got is None and raised is not None and not isinstance(raised, WrongUriType)
                sym.goal('failed')
            cbs = (a, b)
        else:
            cf = Crazyflie()
            failed, requested = [], []
            cf.connection_failed.add_callback(lambda uri, msg: failed.append((uri, msg)))
            cf.connection_requested.add_callback(lambda uri: requested.append(uri))
            try:
                cf.open_link(URI)
                escaped = None
            except BaseException as e:
                escaped = _user_exc(e)
            assert escaped is None, f'{type(escaped).__name__} escaped from open_link'
            assert requested == [URI]
            if first is not None and outcomes[first] == ACCEPT:
                assert type(cf.link) is classes[first], 'the first accepting driver must become the link'
                assert failed == [], 'connection_failed although a driver accepted'
                assert not cf.link.closed
                sym.goal('accepted')
            else:
                assert cf.link is None, 'a link is set although no driver accepted'
                assert len(failed) == 1, 'exactly one connection_failed notification expected'
                assert failed[0][0] == URI
                sym.goal('none' if first is None else 'failed')
            cbs = None
        # drivers are tried in list order, each at most once, and nothing after the first claimant
        assert [e[1] for e in log if e[0] == 'connect'] == list(range(tried)), 'drivers not tried in order / tried after a claim'
        assert [e[1] for e in log if e[0] == 'new'] == list(range(tried))
        for e in log:
            if e[0] == 'connect':
                assert e[2] == URI, 'driver did not receive the URI unchanged'
                if cbs:
                    assert e[3] is cbs[0] and e[4] is cbs[1], 'callbacks not handed to the driver'
                else:
                    assert callable(e[3]) and callable(e[4])
    finally:
        crtp.CLASSES[:] = saved


# ------------------------------------------------------------------------------------- (5) real drivers, no claimant
KNOWN = ('radio', 'usb', 'serial', 'udp', 'prrt', 'tcp')
BAD_CHARS = 'x/?#G -_%:@[~'


def _real_classes(serial):
    os.environ.pop('USE_CFLINK', None)
    del crtp.CLASSES[:]
    crtp.init_drivers(enable_serial_driver=serial)


def h_init_drivers(sym):
    """Histories of init_drivers calls (an application, a helper library and a GUI may each call it): the optional serial driver
    is registered once a call has asked for it and never without being asked for; the standard drivers are always registered."""
    from cflib.crtp.radiodriver import RadioDriver
    from cflib.crtp.usbdriver import UsbDriver
    from cflib.crtp.udpdriver import UdpDriver
    from cflib.crtp.tcpdriver import TcpDriver
    from cflib.crtp.prrtdriver import PrrtDriver
    from cflib.crtp.serialdriver import SerialDriver
    n = 1 + sym.choice('calls', 3)
    flags = [True if sym.bool(f'serial{i}') else False for i in range(n)]
    sym.apply_known()
    saved = list(crtp.CLASSES)
    os.environ.pop('USE_CFLINK', None)
    try:
        del crtp.CLASSES[:]
        for i in range(n):
            crtp.init_drivers(enable_serial_driver=flags[i])
            have = set(crtp.CLASSES)
            assert {RadioDriver, UsbDriver, UdpDriver, TcpDriver, PrrtDriver} <= have, 'a standard driver is not registered'
            if flags[i]:
                assert SerialDriver in have, 'init_drivers(enable_serial_driver=True) did not register the serial driver'
                sym.goal('serial-enabled-by-a-later-call' if i > 0 and not any(flags[:i]) else 'serial-enabled')
            if not any(flags[:i + 1]):
                assert SerialDriver not in have, 'serial driver registered without being asked for'
        assert have <= {RadioDriver, UsbDriver, UdpDriver, TcpDriver, PrrtDriver, SerialDriver}
    finally:
        crtp.CLASSES[:] = saved


def h_unknown(sym):
    """A URI that starts with no known `<scheme>://` (its first characters are arbitrary printable ASCII), or a usb URI
    whose device part is not a number: every real driver passes, open_link reports exactly one connection_failed."""
    k = sym.B['letters']
    codes = [sym.int(f'c{i}', 33, 126) for i in range(k)]
    serial = True if sym.bool('serial_driver') else False
    if sym.B.get('prefix') == 'usb':
        uri = E.sym_str(sym, ['usb://', codes])
        sym.assume(not all([48 <= c <= 57 for c in codes]))
    else:
        uri = E.sym_str(sym, [codes, '://0/80/2M'])
        for name in KNOWN:
            sym.assume(not uri.startswith(name + '://'))
    sym.apply_known()
    E.isolate()
    saved = list(crtp.CLASSES)
    try:
        _real_classes(serial)
        assert len(crtp.CLASSES) == (6 if serial else 5)
        assert crtp.get_link_driver(uri) is None, 'a driver claimed a URI of unknown scheme'
        cf = Crazyflie()
        failed = []
        cf.connection_failed.add_callback(lambda u, msg: failed.append(u))
        try:
            cf.open_link(uri)
            escaped = None
        except BaseException as e:
            escaped = _user_exc(e)
        assert escaped is None, f'{type(escaped).__name__} escaped from open_link'
        assert cf.link is None and len(failed) == 1, 'exactly one connection_failed and no link expected'
        if serial:
            sym.goal('with-serial')
        else:
            sym.goal('without-serial')
    finally:
        crtp.CLASSES[:] = saved


def h_malformed(sym):
    """Radio URI with one character that is either right for its field or one of BAD_CHARS: nothing escapes open_link;
    exactly one of {link opened, one connection_failed}; right character => opened; a letter that cannot be part of the
    field => refused."""
    pos = sym.B['pos']
    c = sym.int('c', 32, 126)
    if sym.symbolic:
        from crosshair.tracers import NoTracing
        with NoTracing():
            good = z3.And(c.var >= 48, c.var <= 57)
            sym.space.add(z3.Or(good, *[c.var == ord(b) for b in BAD_CHARS]))
    else:
        sym.assume(48 <= c <= 57 or chr(c) in BAD_CHARS)
    if pos == 'channel':
        uri = E.sym_str(sym, ['radio://0/8', c, '/2M/E7E7E7E701'])
    elif pos == 'address':
        uri = E.sym_str(sym, ['radio://0/80/2M/E7E7E7E7', c, '1'])
    else:
        uri = E.sym_str(sym, ['radio://', c, '/80/2M/E7E7E7E701'])
    sym.apply_known()
    mgr = E.isolate(['0123456789'])
    saved = list(crtp.CLASSES)
    try:
        _real_classes(False)
        cf = Crazyflie()
        failed = []
        cf.connection_failed.add_callback(lambda u, msg: failed.append(u))
        try:
            cf.open_link(uri)
            escaped = None
        except BaseException as e:
            escaped = _user_exc(e)
        assert escaped is None, f'{type(escaped).__name__} escaped from open_link'
        assert (cf.link is not None and len(failed) == 0) or (cf.link is None and len(failed) == 1), \
            'neither a link nor exactly one connection_failed'
        if 48 <= c <= 57:
            assert cf.link is not None, 'well-formed URI refused'
            assert len(mgr.opened) == 1
            sym.goal('opened')
        elif c == ord('x') or c == ord('G'):
            assert cf.link is None, 'malformed URI produced a link'
            sym.goal('refused')
    finally:
        crtp.CLASSES[:] = saved


# ---------------------------------------------------------------------------------------------------- (6) uri_helper
def h_env(sym):
    alen = _pick(sym, 'alen', sym.B.get('alen', (10,)))
    codes, nibs = _hexchars(sym, 'a', alen)
    chc, _ = _digits(sym, 'ch', 2)
    uri = E.sym_str(sym, ['radio://0/', chc, '/2M/', codes])
    sym.apply_known()
    saved = uri_helper.os
    try:
        uri_helper.os = types.SimpleNamespace(environ={'CFLIB_URI': uri})
        got_uri = uri_helper.uri_from_env()
        assert got_uri == uri
        val = 0
        for v in nibs:
            val = val * 16 + v
        assert uri_helper.address_from_env() == val, 'address_from_env differs from the address field of the URI'
        b = _address_bytes(nibs)
        E.isolate()
        assert list(RadioDriver.parse_uri(got_uri)[3]) == b
        uri_helper.os = types.SimpleNamespace(environ={})
        assert uri_helper.address_from_env() == 0xE7E7E7E7E7
        assert list(RadioDriver.parse_uri(uri_helper.uri_from_env())[1:]) == [80, 2, tuple(DEFAULT_ADDRESS), None]
        assert uri_helper.uri_from_env(default=uri) == uri
    finally:
        uri_helper.os = saved
    sym.goal('env')


# ---------------------------------------------------------------------------------------------------- (7) model validation
def h_models(sym):
    """Differential validation of the local string models against CPython (inputs: symbolic proxies over constants)."""
    if not sym.symbolic:
        return
    import binascii
    from crosshair.tracers import NoTracing
    from crosshair.libimpl.builtinslib import LazyIntSymbolicStr

    def pin_str(s):
        with NoTracing():
            return LazyIntSymbolicStr([E.pin_int(ord(ch)) for ch in s])

    def ref(f, *a):
        with NoTracing():
            try:
                return ('ok', f(*a))
            except Exception as e:
                return ('exc', type(e))

    def run(f, *a):
        try:
            return ('ok', f(*a))
        except Exception as e:
            return ('exc', type(_user_exc(e)))
    n = 0
    before = dict(E.STATS)
    for v in (0, 9, 10, 99, 100, 125, 255, 4096, 0xE7E7E7E7E7, 0xE7E7E7E701, 2 ** 40 - 1, 2 ** 36):
        for spec in ('', 'd', 'X', 'x', '0>10X', '010X', '>4', '<4d', '05d', '*>6x'):
            r, g = ref(format, v, spec), run(format, E.pin_int(v), spec)
            assert r[0] == g[0] and (r[1] == g[1]), ('format int', v, spec)
            n += 1
        r, g = ref('radio://0/{}/250K/{:X}'.format, 7, v), run('radio://0/{}/250K/{:X}'.format, E.pin_int(7), E.pin_int(v))
        assert r == g, ('str.format', v)
        r, g = ref('{:0>10X}'.format, v), run('{:0>10X}'.format, E.pin_int(v))
        assert r == g, ('str.format pad', v)
        n += 2
    for s in ('E7', 'e7e7e7e7e7', '1', 'abcdefghijkl', 'E7E7E7E7E7E7', '0'):
        for spec in ('0>10', '>3', '*<12', '', 's', '12', '<4'):
            r, g = ref(format, s, spec), run(format, pin_str(s), spec)
            assert r == g, ('format str', s, spec)
            n += 1
        r, g = ref('{:0>10}'.format, s), run('{:0>10}'.format, pin_str(s))
        assert r == g, ('str.format str', s)
        n += 1
    for s in ('00', 'E7e7', 'fF0a', '00000000E7', 'e7E7e7E701', 'GG', '0g', 'abc', '0x', '\xe90', ' 0', '0/', ':0', '@A', '`a', 'F:'):
        r, g = ref(binascii.unhexlify, s), run(binascii.unhexlify, pin_str(s))
        assert r[0] == g[0], ('unhexlify', s)
        if r[0] == 'ok':
            assert list(r[1]) == list(g[1]), ('unhexlify', s)
        else:
            assert issubclass(g[1], r[1]) and issubclass(r[1], g[1]), ('unhexlify error type', s)
        n += 1
    for s in ('E7E7E7E7E7', '0', 'ff', '00ff', 'g', ' 10', '0x10', '1_0', '-1', 'aF09', '2M', '80'):
        r, g = ref(int, s, 16), run(int, pin_str(s), 16)
        assert r == g, ('int16', s)
        n += 1
    used = {k: E.STATS[k] - before[k] for k in before}
    assert used['format_int'] >= 120 and used['format_str'] >= 30 and used['unhexlify'] >= 5 and used['int16'] >= 5, \
        ('models were bypassed', used)
    sym.note('vectors', n)


# ----------------------------------------------------------------------------------------------------------------
_TO = (280, 1500)
HARNESSES = [
    # shapes with omitted trailing fields
    Harness('uri[id]', h_uri, quick=dict(fields=0, id_digits=(1, 2)), thorough=dict(fields=0, id_digits=(1, 2, 5, 9)),
            goals=('connected', 'defaults'), timeout=_TO, per_path=120.0),
    Harness('uri[id/]', h_uri, quick=dict(fields=0, slash=True), goals=('connected', 'defaults'), timeout=_TO, per_path=120.0),
    Harness('uri[id?rl]', h_uri, quick=dict(fields=0, query=True, rl_digits=(1, 3)), thorough=dict(fields=0, query=True, rl_digits=(1, 2, 3, 4)),
            goals=('connected', 'defaults', 'rate-limit'), timeout=_TO, per_path=120.0),
    Harness('uri[id/ch]', h_uri, quick=dict(fields=1, ch_digits=(1, 2, 3), id_digits=(1, 9)),
            thorough=dict(fields=1, ch_digits=(1, 2, 3), id_digits=tuple(range(1, 10))),
            goals=('connected', 'defaults'), timeout=_TO, per_path=120.0),
    Harness('uri[id/ch/]', h_uri, quick=dict(fields=1, ch_digits=(2,), slash=True), thorough=dict(fields=1, ch_digits=(1, 2, 3), slash=True),
            goals=('connected', 'defaults'), timeout=_TO, per_path=120.0),
    Harness('uri[id/ch?rl]', h_uri, quick=dict(fields=1, ch_digits=(2,), query=True, rl_digits=(2,)),
            thorough=dict(fields=1, ch_digits=(1, 2, 3), query=True, rl_digits=(1, 2, 3, 4)),
            goals=('connected', 'defaults', 'rate-limit'), timeout=_TO, per_path=120.0),
    Harness('uri[id/ch/rate]', h_uri, quick=dict(fields=2, ch_digits=(1, 3)), thorough=dict(fields=2, ch_digits=(1, 2, 3)),
            goals=('connected', 'defaults'), timeout=_TO, per_path=120.0),
    Harness('uri[id/ch/rate?rl]', h_uri, quick=dict(fields=2, ch_digits=(2,), query=True, rl_digits=(3,)),
            thorough=dict(fields=2, ch_digits=(1, 2, 3), query=True, rl_digits=(1, 2, 3, 4), extra_q=True),
            goals=('connected', 'defaults', 'rate-limit'), timeout=_TO, per_path=120.0),
    # full URIs: address of 1..10 hex digits of either case
    Harness('uri[id/ch/rate/addr:1-5]', h_uri, quick=dict(fields=3, alen=(1, 2, 3, 4, 5)), thorough=dict(fields=3, alen=(1, 2, 3, 4, 5), ch_digits=(1, 2, 3)),
            goals=('connected', 'short-address'), timeout=_TO, per_path=120.0),
    Harness('uri[id/ch/rate/addr:6-10]', h_uri, quick=dict(fields=3, alen=(6, 7, 8, 9, 10)), thorough=dict(fields=3, alen=(6, 7, 8, 9, 10), ch_digits=(1, 2, 3)),
            goals=('connected', 'short-address'), timeout=_TO, per_path=120.0),
    Harness('uri[id/ch/rate/addr?rl]', h_uri, quick=dict(fields=3, alen=(3, 10), query=True, rl_digits=(1, 4)),
            thorough=dict(fields=3, alen=(1, 4, 9, 10), query=True, rl_digits=(1, 2, 3, 4), extra_q=True),
            goals=('connected', 'short-address', 'rate-limit'), timeout=_TO, per_path=120.0),
    Harness('uri[id/ch/rate/addr/]', h_uri, quick=dict(fields=3, alen=(2, 10), slash=True), goals=('connected', 'short-address'),
            timeout=_TO, per_path=120.0),
    Harness('uri[serial/ch/rate/addr]', h_uri, quick=dict(dongle='serial', serials=2, fields=3, alen=(10,), rates=('1M',)),
            thorough=dict(dongle='serial', serials=3, fields=3, alen=(10,), rates=('250K', '2M')),
            goals=('connected', 'unknown-serial'), timeout=_TO, per_path=120.0),
    Harness('uri[serial,replug]', h_uri, quick=dict(dongle='serial', serials=2, fields=0, replug=True), thorough=dict(dongle='serial', serials=3, fields=1, replug=True),
            goals=('connected', 're-enumerated', 'unplugged'), timeout=_TO, per_path=120.0,
            note='the same serial-number URI connected again after the dongle list changed'),
    Harness('serial[replug]', h_serial_replug, quick=dict(steps=2), thorough=dict(steps=3), symbolic=False, replay_all=True,
            goals=('opened', 'unplugged', 'dongle-list-changed'), timeout=(200, 600),
            note='every explored history is also replayed on plain CPython (the engine bypasses functools.lru_cache); concrete URI text; the dongle count, which dongle the URI names and how the dongle list changes between connects are solver choices'),
    Harness('uri[serial/ch]', h_uri, quick=dict(dongle='serial', serials=2, fields=1), thorough=dict(dongle='serial', serials=3, fields=1),
            goals=('connected', 'unknown-serial', 'defaults'), timeout=_TO, per_path=120.0),
] + [
    Harness(f'scan[{r},ch{lo}-{hi}]', h_scan, quick=dict(rate=r, chan=(lo, hi)), goals=('round-trip', 'explicit-address'),
            timeout=(280, 1700), per_path=120.0, tiers=('quick',),
            note='decimal / hex rendering forks on the number of digits; digits stay symbolic')
    for r, _ in RATES for lo, hi in ((0, 9), (10, 99), (100, 125))
] + [
    Harness(f'scan[{r}]', h_scan, quick=dict(rate=r, found=2), goals=('round-trip', 'explicit-address'),
            timeout=(280, 1700), per_path=120.0, tiers=('thorough',),
            note='two answering channels; decimal / hex rendering forks on the number of digits; digits stay symbolic')
    for r, _ in RATES
] + [
    Harness('scan[default-address]', h_scan, quick=dict(rate='2M', addr='none'), thorough=dict(rate='1M', addr='none', found=2),
            goals=('round-trip',), timeout=_TO, per_path=120.0),
    Harness('schemes', h_schemes, goals=('decided',), timeout=(200, 600), per_path=300.0,
            note='direct z3 regular-language encoding of the WrongUriType guards extracted from the current driver sources; '
                 'unbounded strings; no path exploration'),
    Harness('select[get_link_driver]', h_select, quick=dict(drivers=4, via='get_link_driver'), thorough=dict(drivers=6, via='get_link_driver'),
            goals=('accepted', 'none', 'failed'), timeout=_TO),
    Harness('select[open_link]', h_select, quick=dict(drivers=3, via='open_link'), thorough=dict(drivers=5, via='open_link'),
            goals=('accepted', 'none', 'failed'), timeout=_TO),
] + [
    Harness(f'unknown-scheme[{k}]', h_unknown, quick=dict(letters=k), goals=('with-serial', 'without-serial'), timeout=_TO, per_path=120.0)
    for k in (3, 4, 5, 6)
] + [
    Harness('usb-not-a-number', h_unknown, quick=dict(letters=2, prefix='usb'), thorough=dict(letters=3, prefix='usb'),
            goals=('with-serial', 'without-serial'), timeout=_TO, per_path=120.0),
] + [
    Harness(f'malformed[{p}]', h_malformed, quick=dict(pos=p), goals=('opened', 'refused'), timeout=_TO, per_path=120.0, symbolic=False,
            note='the digit class stays symbolic; each malformed character is a separate path (int() realises non-digits)')
    for p in ('channel', 'address', 'dongle')
] + [
    Harness('init_drivers', h_init_drivers, goals=('serial-enabled', 'serial-enabled-by-a-later-call'), timeout=(120, 300), symbolic=False,
            note='number of calls and the serial flag of each are solver-chosen alternatives'),
    Harness('env', h_env, quick=dict(alen=(1, 10)), thorough=dict(alen=tuple(range(1, 11))), goals=('env',), timeout=_TO, per_path=120.0),
    Harness('models', h_models, timeout=(280, 600), per_path=280.0, symbolic=False,
            note='differential validation of the local format / unhexlify / int(.,16) models against CPython on fixed vectors'),
]
