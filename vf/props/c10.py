"""C10 Unanswered requests are retried until answered, and only then.

The real Crazyflie.send_packet / _no_answer_do_retry / _check_for_answers / close_link / open_link / _link_error_cb
are driven through a solver-chosen history of ENABLED events

    SEND i   the next request (packet + expected-reply tuple) is submitted through cf.send_packet
    FIRE t   a live virtual timer expires (its callback runs)
    RX       a packet with symbolic header and data bytes is delivered to the all-packet callbacks
    CLOSE    cf.close_link()
    ERROR    the driver of the open link reports a link error (the callback open_link handed to it)
    OPEN     cf.open_link(uri) -> cflib.crtp.get_link_driver -> a fresh recording driver (= a new session)

and an oracle written from the property statement (not from the implementation) is evaluated after every event:

 (O1) a SEND on an open link transmits the packet exactly once; on a link with needs_resending it arms exactly one
      timer for the request, on a link without it arms none;
 (O2) while a request is pending (sent in the current session on a resending link, no matching packet received yet)
      it has exactly one live timer, and every expiry of that timer transmits the same packet (same object, same
      header and data bytes) exactly once on the link of its own session and arms exactly one new timer;
 (O3) an expiry of any timer that belongs to a request which is not pending (answered, or its session is over)
      transmits nothing;
 (O4) an arriving packet answers exactly the pending request whose (port, channel, leading bytes) pattern is its
      longest matching prefix: that request is never transmitted again, all others stay pending (O2 keeps holding);
 (O5) nothing is transmitted through a link after its close(), and never through a link other than the open one;
      every transmission of a request happens in the session in which it was submitted.

After the chosen history an epilogue (a legal continuation, so it cannot raise a false alarm) re-opens the link if it is
closed and lets every timer that is still live expire once, with the same oracle.
"""
import cflib.crtp
import cflib.crazyflie as cfmod
from cflib.crazyflie import Crazyflie
from cflib.crtp.crtpstack import CRTPPacket

from vf.explore import Inconclusive, Yield
from vf.harness import Harness

FUNCTIONS = ['cflib.crazyflie:_IncomingPacketHandler.run', 'cflib.crazyflie:Crazyflie.send_packet', 'cflib.crazyflie:Crazyflie._no_answer_do_retry',
             'cflib.crazyflie:Crazyflie._check_for_answers', 'cflib.crazyflie:Crazyflie.close_link',
             'cflib.crazyflie:Crazyflie.open_link', 'cflib.crazyflie:Crazyflie._link_error_cb',
             'cflib.crtp:get_link_driver', 'cflib.crtp.usbdriver:UsbDriver.connect', 'cflib.crtp.usbdriver:UsbDriver.send_packet',
             'cflib.crtp.usbdriver:UsbDriver.close', 'cflib.crtp.crtpstack:CRTPPacket.__init__', 'cflib.utils.callbacks:Caller.call']
STUBS = ['cflib.crazyflie.Timer -> virtual timer (records start/cancel; expires only when the harness says so; a cancelled '
         'or expired timer never runs its callback)',
         'cflib.crtp.CLASSES -> [recording driver] (real get_link_driver instantiates and connects it; one instance = one session; '
         'needs_resending is a symbolic bool per session)',
         'Crazyflie._answer_patterns is stored as an insertion-ordered association list with ==-based lookup instead of a hash '
         'table (same mapping semantics for tuples of ints; a hash table would make the engine enumerate byte values)',
         'threading.Thread.start/is_alive/join (no OS thread); received packets are handed to cf.packet_received.call(pk) as '
         '_IncomingPacketHandler.run does (port dispatch is C07)', 'logging disabled']
ASSUMPTIONS = ['(identical patterns pending at the same time are admitted only in same-pattern[unanswered]) '
               'context switches only at blocking calls: an event (send, timer callback, packet dispatch, close, open, link error) '
               'runs to completion before the next one starts',
               'two requests pending at the same time have different (header, expected bytes) patterns',
               'a timer object expires at most once and never after cancel() (threading.Timer contract)',
               'open_link is called only while the link is closed; link errors are reported only by the driver of the open link']
OUTSIDE = ['races between Timer.cancel() and a callback already running on the timer thread',
           'requests submitted without expected_reply (never retried, by design)',
           'identical patterns pending simultaneously', 'more requests / events / sessions than the bounds',
           'retry traffic of the connection sequence itself (TOC download etc.: C02/C03)']
EXPLANATION = 'C10: event histories (send / timer expiry / packet arrival / close / open / link error) chosen by the solver among the ' \
              'enabled events over the real Crazyflie retry code with virtual timers, symbolic expected-reply patterns (shared ' \
              'prefixes) and symbolic needs_resending per session.'

_ENV = [None]
DEFAULT_TIMEOUT = 0.2       # documented default of send_packet(timeout=...)


class AssocMap:
    """dict semantics (insertion ordered, unique keys) without hashing."""
    def __init__(self, items=()):
        self._kv = [(k, v) for k, v in items]

    @staticmethod
    def _same(a, b):
        return a is b or (len(a) == len(b) and a == b) if isinstance(a, tuple) and isinstance(b, tuple) else a == b

    def _find(self, key):
        for n, (k, _) in enumerate(self._kv):
            if self._same(k, key):
                return n
        return -1

    def __len__(self):
        return len(self._kv)

    def __contains__(self, key):
        return self._find(key) >= 0

    def __getitem__(self, key):
        n = self._find(key)
        if n < 0:
            raise KeyError(key)
        return self._kv[n][1]

    def __setitem__(self, key, value):
        n = self._find(key)
        if n < 0:
            self._kv.append((key, value))
        else:
            self._kv[n] = (self._kv[n][0], value)

    def __delitem__(self, key):
        n = self._find(key)
        if n < 0:
            raise KeyError(key)
        del self._kv[n]

    def __iter__(self):
        return iter([k for k, _ in self._kv])

    def keys(self):
        return [k for k, _ in self._kv]

    def values(self):
        return [v for _, v in self._kv]

    def items(self):
        return list(self._kv)

    def get(self, key, default=None):
        n = self._find(key)
        return default if n < 0 else self._kv[n][1]

    def pop(self, key, *default):
        n = self._find(key)
        if n < 0:
            if default:
                return default[0]
            raise KeyError(key)
        v = self._kv[n][1]
        del self._kv[n]
        return v

    def clear(self):
        del self._kv[:]

    def copy(self):
        return AssocMap(self._kv)


class CF(Crazyflie):
    """The real Crazyflie; only the container type behind _answer_patterns is substituted (see STUBS)."""
    @property
    def _answer_patterns(self):
        return self.__dict__['_vf_answer_patterns']

    @_answer_patterns.setter
    def _answer_patterns(self, value):
        self.__dict__['_vf_answer_patterns'] = value if isinstance(value, AssocMap) else AssocMap(value.items())


class VTimer:
    """Stand-in for threading.Timer inside cflib.crazyflie."""
    def __init__(self, interval, function, args=None, kwargs=None):
        env = _ENV[0]
        self.interval = interval
        self.function = function
        self.args = args if args is not None else []
        self.kwargs = kwargs if kwargs is not None else {}
        self.started = self.cancelled = self.fired = self.expired = False
        self.daemon = True
        self.tag = env.tag          # the request in whose context the timer was created (None: not a request)
        env.timers.append(self)

    def start(self):
        if self.started:
            raise RuntimeError('threads can only be started once')
        self.started = True

    def cancel(self):
        self.cancelled = True

    def live(self):
        return self.started and not self.cancelled and not self.fired and not self.expired

    def is_alive(self):
        return self.live()

    def join(self, timeout=None):
        return None


class Driver:
    """Recording link driver; instantiated by the real cflib.crtp.get_link_driver."""
    def __init__(self):
        env = _ENV[0]
        self.session = len(env.links)
        env.links.append(self)
        nr = env.nr[self.session]
        # (flag the driver object carries, whether a link of that kind fails to guarantee delivery): the same thing unless the
        # flag is read from a real driver class (mode 'drivers')
        self.needs_resending, self.expect_resend = nr if isinstance(nr, tuple) else (nr, nr)
        self.sent = []          # (packet object, closed?, header, data) at the time of transmission
        self.seen = 0
        self.closed = False
        self.uri = None
        self.link_error_callback = None

    def connect(self, uri, radio_link_statistics_callback, link_error_callback):
        self.uri = uri
        self.link_error_callback = link_error_callback

    def send_packet(self, pk):
        self.sent.append((pk, self.closed, pk.header, tuple(pk.data)))
        hook, _ENV[0].during_send = getattr(_ENV[0], 'during_send', None), None
        if hook is not None:
            hook()          # something happens on another thread while this (blocking) driver call has not returned yet

    def receive_packet(self, wait=0):
        q = self.__dict__.setdefault('rxq', [])
        if q:
            return q.pop(0)
        raise Yield()

    def close(self):
        self.closed = True

    def get_status(self):
        return 'ok'

    def get_name(self):
        return 'vf'


class Env:
    def __init__(self, sym):
        self.sym = sym
        self.tag = None
        self.timers = []
        self.timers_seen = 0
        self.links = []
        self.nr = []


def _install(env):
    _ENV[0] = env
    cfmod.Timer = VTimer
    cflib.crtp.CLASSES = [Driver]


SEND, FIRE, RX, CLOSE, ERROR, OPEN = 'send', 'fire', 'rx', 'close', 'error', 'open'
# EXPIRE: a timer's interval elapses and its thread is about to call the function (from now on cancel() has no effect, as with
# threading.Timer) but the call is delayed, e.g. behind another sender holding the send lock; RUN: the delayed call happens
EXPIRE, RUN = 'expire', 'run'
# FASTSEND: the answer is dispatched by the receiver thread while the sender is still inside the driver's blocking send
FASTSEND = 'send+fast-answer'


class CheckedLock:
    """threading.Lock for a single-threaded history: acquiring a held lock can never succeed."""
    def __init__(self):
        self.held = False

    def acquire(self, blocking=True, timeout=-1):
        assert not self.held, 'send lock was left held: this and every later send_packet / close_link blocks for ever'
        self.held = True
        return True

    def release(self):
        if not self.held:
            raise RuntimeError('release unlocked lock')
        self.held = False

    def locked(self):
        return self.held

# concrete requests for the session-centred harnesses: same port/channel, nested expected replies
CONCRETE = [(2, 1, (1,)), (2, 1, (1, 7)), (2, 1, (1, 7, 9))]
FREE_PORT = 9        # a CRTP port no cflib subsystem listens on (dispatch mode: the library's own services must not react)


_REAL_DRIVERS = [('cflib.crtp.radiodriver', 'RadioDriver', True), ('cflib.crtp.usbdriver', 'UsbDriver', False),
                 ('cflib.crtp.serialdriver', 'SerialDriver', False), ('cflib.crtp.tcpdriver', 'TcpDriver', False),
                 ('cflib.crtp.crtpdriver', 'CRTPDriver', True)]


def _real_driver_flag(k):
    import importlib
    mod, cls, _ = _REAL_DRIVERS[k]
    return getattr(importlib.import_module(mod), cls)().needs_resending


def h_history(sym):
    B = sym.B
    P, NEV, MAXS = B['p'], B['events'], B.get('sessions', 2)
    kinds = B['kinds']
    env = Env(sym)
    _install(env)
    nr_mode = B.get('nr', 'sym')
    for s in range(MAXS + 1):       # +1: the epilogue may open one more session
        if nr_mode == 'drivers':
            # the flag comes from the real driver classes; what is expected comes from the kind of link: the radio (until
            # safelink is confirmed, C01) and the abstract base do not guarantee delivery, USB / UART / TCP do
            k = sym.choice(f'driver{s}', len(_REAL_DRIVERS))
            env.nr.append((_real_driver_flag(k), _REAL_DRIVERS[k][2]))
        else:
            env.nr.append(sym.bool(f'nr{s}') if nr_mode == 'sym' else bool(nr_mode))
    # ---- requests
    reqs = []
    timeouts = B.get('timeouts', (None,))
    for i in range(P):
        if B.get('concrete') == 'same':
            port, chan, exp = FREE_PORT, 1, (1,)          # the same request issued again (back to back)
        elif B.get('concrete'):
            port, chan, exp = CONCRETE[i]
        else:
            # header: concrete; whether a later request shares the header of request 0 is a solver choice
            port, chan = (2, 1) if i == 0 or sym.choice(f'samehdr{i}', 2) == 0 else (2 + i, i % 4)
            n = B['explen'][i] if 'explen' in B else sym.choice(f'len{i}', B.get('maxlen', 3)) + 1
            exp = tuple(sym.int(f'e{i}_{j}', 0, 255) for j in range(n))
        reqs.append(dict(i=i, port=port, chan=chan, exp=exp, timeout=timeouts[i % len(timeouts)], pk=None, session=None,
                         pending=False, answered=False, tx=0))
    sym.apply_known()
    cf = CF()
    cf._send_lock = CheckedLock()
    st = dict(cur=None, nsess=0, nrx=0, nfire=0, closing=None, nsent=0)

    def on_port_packet(pk):
        # an application callback for the reply's port that, when the solver says so, issues the next request from inside
        # the dispatch of the reply (param/mem code does this: the next read is sent from the callback of the previous answer)
        if st.pop('resend_now', False) and st['nsent'] < P and st['cur'] is not None:
            do_send(reqs[st['nsent']])
            st['nsent'] += 1
            sym.goal('request-sent-from-reply-callback')
    if B.get('dispatch'):
        cf.add_port_callback(FREE_PORT, on_port_packet)

    # ---- observation helpers (oracle side)
    def new_tx():
        out = []
        for ln in env.links:
            for (pk, closed, hdr, data) in ln.sent[ln.seen:]:
                assert not closed, 'O5: transmission through a link after close()'
                assert st['cur'] is not None and ln is env.links[st['cur']] or st['closing'] is ln, \
                    'O5: transmission through a link that is not the open one'
                out.append((ln, pk, hdr, data))
            ln.seen = len(ln.sent)
        return out

    def new_timers():
        out = env.timers[env.timers_seen:]
        env.timers_seen = len(env.timers)
        return out

    def req_of(pk):
        for r in reqs:
            if r['pk'] is pk:
                return r
        return None

    def live_of(r):
        # an expired timer whose (delayed) callback has not run yet still stands for the request: the callback will retransmit
        return [t for t in env.timers if (t.live() or (t.expired and not t.fired and not t.cancelled)) and t.tag is r]

    def invariant(where):
        for r in reqs:
            if r['pending']:
                n = len(live_of(r))
                assert n >= 1, ('O2: pending request has no live retry timer', r['i'], where)
                assert n == 1, ('O2: pending request has more than one live retry timer', r['i'], where)
        assert not cf._send_lock.locked(), 'send lock left held'

    def check_retransmission(r, tx, tm, where):
        assert len(tx) >= 1, ('O2: timer expiry of a pending request transmitted nothing', r['i'], where)
        assert len(tx) == 1, ('O2: timer expiry produced more than one transmission', r['i'], where)
        ln, pk, hdr, data = tx[0]
        assert pk is r['pk'], ('O2: another packet transmitted on expiry', r['i'], where)
        assert ln.session == r['session'], 'O5: request transmitted in another session'
        assert hdr == r['hdr'] and data == r['data'], 'O2: retransmission differs from the submitted bytes'
        mine = [t for t in tm if t.tag is r and t.live()]
        assert len(mine) == 1, ('O2: retransmission did not arm exactly one new timer', r['i'], len(mine), where)
        if B.get('check_interval', True):
            assert mine[0].interval == (DEFAULT_TIMEOUT if r['timeout'] is None else r['timeout']), \
                ('O2: retry timer interval is not the request\'s timeout', mine[0].interval)
        r['tx'] += 1
        sym.goal('retransmitted')
        if r['tx'] >= 3:
            sym.goal('retransmitted-twice')

    def check_silent(tx, what):
        for ln, pk, hdr, data in tx:
            r = req_of(pk)
            if r is not None:
                assert r['session'] == ln.session, ('O5: request of an earlier session transmitted in a later session', r['i'], what)
                assert not r['answered'], ('O4: request transmitted after a matching packet had arrived', r['i'], what)
            assert False, ('O3: transmission caused by a timer of a request that is not pending', what)

    # ---- events
    def do_open():
        env.tag = None
        st['closing'] = None
        cf.open_link('vf://0')
        assert cf.link is not None and cf.link is env.links[-1], 'open_link did not install the driver'
        st['cur'] = env.links[-1].session
        st['nsess'] += 1
        for ln, pk, hdr, data in new_tx():
            assert req_of(pk) is None, ('O5: request transmitted by open_link', req_of(pk)['i'])
            assert ln is cf.link
        new_timers()

    def do_close(kind):
        env.tag = None
        ln = env.links[st['cur']]
        st['closing'] = ln
        st['cur'] = None
        if kind == CLOSE:
            cf.close_link()
        else:
            ln.link_error_callback('link lost')
        assert cf.link is None, 'link still installed after close / link error'
        if any(r['pending'] for r in reqs):
            st['dropped'] = True
            sym.goal('link-down-with-pending-request')
        for r in reqs:
            r['pending'] = False
        for ln2, pk, hdr, data in new_tx():
            assert req_of(pk) is None, ('a request was transmitted by close_link / link error', req_of(pk)['i'])
            assert kind == CLOSE, 'transmission during link error handling'
        st['closing'] = None
        new_timers()
        sym.goal('closed' if kind == CLOSE else 'link-error')

    def do_send(r, fast=False):
        pk = CRTPPacket()
        pk.set_header(r['port'], r['chan'])
        pk.data = tuple(r['exp']) + (0xA0 + r['i'],)
        r['pk'], r['hdr'], r['data'] = pk, pk.header, tuple(pk.data)
        r['session'] = st['cur']
        if st['cur'] is not None:
            # assumption: no two simultaneously pending requests with the same pattern
            for o in reqs:
                if B.get('allow_same'):
                    break
                if o['pending'] and len(o['exp']) == len(r['exp']):
                    sym.assume(not (o['port'] == r['port'] and o['chan'] == r['chan'] and o['exp'] == r['exp']))
        env.tag = r
        st['closing'] = None
        if fast:
            def answer_now():
                cf.packet_received.call(CRTPPacket(pk.header, list(r['exp']) + [0x5A]))
            env.during_send = answer_now
        if r['timeout'] is None:
            cf.send_packet(pk, expected_reply=tuple(r['exp']))
        else:
            cf.send_packet(pk, expected_reply=tuple(r['exp']), timeout=r['timeout'])
        env.tag = None
        tx, tm = new_tx(), new_timers()
        if st['cur'] is None:
            assert tx == [], 'O5: transmission while the link is closed'
            sym.goal('send-on-closed-link')
            return
        ln = env.links[st['cur']]
        assert len(tx) == 1 and tx[0][1] is pk and tx[0][0] is ln, ('O1: a submitted packet is transmitted exactly once', len(tx))
        assert tx[0][2] == r['hdr'] and tx[0][3] == r['data']
        r['tx'] = 1
        if ln.expect_resend and fast:
            # answered before the send call returned: the request is not pending; whatever timer exists must never retransmit
            # (checked when the remaining live timers are fired)
            r['pending'] = False
            r['answered'] = True
            sym.goal('answered-during-send')
        elif ln.expect_resend:
            mine = [t for t in tm if t.live()]
            assert len(mine) == 1 and len(tm) == 1, ('O1: exactly one retry timer per request on a resending link', len(tm))
            if B.get('check_interval', True):
                assert mine[0].interval == (DEFAULT_TIMEOUT if r['timeout'] is None else r['timeout']), \
                    ('O1: retry timer interval is not the request\'s timeout', mine[0].interval)
            r['pending'] = True
        else:
            assert tm == [], 'O1: timer created on a link that guarantees delivery'
            sym.goal('no-timer-on-reliable-link')

    def do_fire(t, where):
        r = t.tag
        was_pending = r is not None and r['pending']
        env.tag = r
        st['closing'] = None
        t.fired = True
        t.function(*t.args, **t.kwargs)
        env.tag = None
        tx, tm = new_tx(), new_timers()
        if was_pending:
            check_retransmission(r, tx, tm, where)
        else:
            check_silent(tx, where)
            sym.goal('stale-timer-expired')
            if st['cur'] is not None and r is not None and r['session'] != st['cur']:
                sym.goal('stale-timer-expired-in-later-session')

    def do_rx(k):
        if B.get('dispatch'):
            rport, rlink, rchan = FREE_PORT, sym.int(f'rxlink{k}', 0, 3), sym.int(f'rxchan{k}', 0, 3)
            hdr = rport * 16 + rlink * 4 + rchan
        elif B.get('rxhdr', 'byte') == 'byte':
            hdr = sym.int(f'rxh{k}', 0, 255)
            rport, rchan = hdr // 16, hdr % 4
        else:       # the same 256 values, composed from port / link bits / channel (cheaper arithmetic)
            rport, rlink, rchan = sym.int(f'rxport{k}', 0, 15), sym.int(f'rxlink{k}', 0, 3), sym.int(f'rxchan{k}', 0, 3)
            hdr = rport * 16 + rlink * 4 + rchan
        n = B.get('rxlen', 3)
        if n == 'sym':
            n = sym.choice(f'rxn{k}', 4)
        data = [sym.int(f'rxd{k}_{j}', 0, 255) for j in range(n)]
        pk = CRTPPacket(hdr, data)
        # oracle: longest pending pattern that is a prefix of (port, channel, data...)
        best = None
        nmatch = 0
        for r in reqs:
            if not r['pending'] or len(r['exp']) > n:
                continue
            if r['port'] == rport and r['chan'] == rchan and all(r['exp'][j] == data[j] for j in range(len(r['exp']))):
                nmatch += 1
                if best is None or len(r['exp']) > len(best['exp']):
                    best = r
        env.tag = None
        st['closing'] = None
        if B.get('dispatch'):
            # through the real dispatcher thread body (all-packet callbacks, then port callbacks), one packet per activation
            if best is not None:
                best['pending'] = False
                best['answered'] = True
            from vf.env.base import step
            cf.link.__dict__.setdefault('rxq', []).append(pk)
            assert step(cf.incoming) == 'yield', 'dispatcher thread ended'
        else:
            cf.packet_received.call(pk)
        tx, tm = new_tx(), new_timers()
        assert tx == [], 'transmission caused by an arriving packet'
        assert tm == [], 'timer created by an arriving packet'
        if best is not None:
            best['pending'] = False
            best['answered'] = True
            sym.goal('answered')
            if nmatch >= 2:
                sym.goal('longest-prefix-chosen')
        elif any(r['pending'] for r in reqs):
            sym.goal('non-matching-packet')

    # ---- history
    if B.get('start_open', True):
        do_open()
    for k in range(NEV):
        nsent = st['nsent']
        menu = []
        if SEND in kinds and nsent < P and (st['cur'] is not None or B.get('send_closed', False)):
            menu.append((SEND, nsent))
        if FASTSEND in kinds and nsent < P and st['cur'] is not None and not any(o['pending'] for o in reqs):
            menu.append((FASTSEND, nsent))
        if FIRE in kinds and st['nfire'] < B.get('max_fire', NEV):
            for t in env.timers:
                if t.live():
                    menu.append((FIRE, t))
        if EXPIRE in kinds:
            if not st.get('inflight'):
                for t in env.timers:
                    if t.live():
                        menu.append((EXPIRE, t))
            else:
                menu.append((RUN, st['inflight']))
        if st['cur'] is not None:
            if RX in kinds and st['nrx'] < B.get('max_rx', NEV) and (any(r['pending'] for r in reqs) or B.get('rx_idle', False)):
                menu.append((RX, None))
            if CLOSE in kinds:
                menu.append((CLOSE, None))
            if ERROR in kinds:
                menu.append((ERROR, None))
        elif OPEN in kinds and st['nsess'] < MAXS:
            menu.append((OPEN, None))
        if not menu:
            break
        kind, arg = menu[sym.choice(f'ev{k}', len(menu))]
        if kind == SEND:
            do_send(reqs[arg])
            st['nsent'] += 1
        elif kind == FASTSEND:
            do_send(reqs[arg], fast=True)
            st['nsent'] += 1
        elif kind == FIRE:
            st['nfire'] += 1
            do_fire(arg, ('event', k))
        elif kind == EXPIRE:
            arg.expired = True               # the timer thread is past the point where cancel() could stop it
            st['inflight'] = arg
        elif kind == RUN:
            st['inflight'] = None
            if arg.cancelled:
                sym.goal('delayed-callback-after-cancel')
            do_fire(arg, ('event', k))
        elif kind == RX:
            st['nrx'] += 1
            if B.get('cb_send') and st['nsent'] < P:
                st['resend_now'] = sym.choice(f'cbsend{k}', 2) == 1
            do_rx(k)
        elif kind == OPEN:
            do_open()
            if st['nsess'] >= 2:
                sym.goal('reopened')
                if st.get('dropped'):
                    sym.goal('reopened-after-pending-request-dropped')
        else:
            do_close(kind)
        invariant(('event', k, kind))
    # ---- epilogue: a legal continuation of the history, decided by the same oracle
    if st.get('inflight') is not None:          # a delayed timer callback eventually runs
        t, st['inflight'] = st['inflight'], None
        do_fire(t, 'epilogue-delayed')
        invariant('epilogue-delayed')
    assert not cf._send_lock.held, 'send lock left held at the end of the history'
    if B.get('epilogue', True):
        if st['cur'] is None and any(t.live() for t in env.timers):
            do_open()
            invariant('epilogue-open')
        for t in list(env.timers):
            if t.live():
                do_fire(t, 'epilogue')
                invariant('epilogue-fire')
    if len(env.timers) > 4 * (NEV + P) + 8:
        raise Inconclusive('timer bound exceeded')


ALL = (SEND, FIRE, RX, CLOSE, ERROR, OPEN)
DELAYED = [
    Harness('fast-answer', h_history, quick=dict(p=2, concrete=True, events=4, kinds=(SEND, FASTSEND, FIRE, RX), nr=True, sessions=1, max_rx=1),
            thorough=dict(p=3, concrete=True, events=5, kinds=(SEND, FASTSEND, FIRE, RX, CLOSE), nr=True, sessions=1, max_rx=2),
            goals=('answered-during-send',), timeout=(600, 1800),
            note='the answer is dispatched while the sender is still inside the driver\'s blocking send_packet'),
    Harness('delayed-callback', h_history,
            quick=dict(p=2, concrete=True, events=5, kinds=(SEND, EXPIRE, RX, CLOSE), nr=True, sessions=1, max_rx=2),
            thorough=dict(p=2, concrete=True, events=6, kinds=(SEND, EXPIRE, FIRE, RX, CLOSE, ERROR, OPEN), nr=True, sessions=2, max_rx=2),
            goals=('delayed-callback-after-cancel',), timeout=(600, 1800),
            note='a retry timer whose callback is delayed past the arrival of the answer / the close (the window in which '
                 'threading.Timer.cancel() comes too late): no retransmission, and the send lock is released'),
]
DELAYED.append(
    Harness('same-pattern[unanswered]', h_history,
            quick=dict(p=2, concrete='same', events=6, kinds=(SEND, FIRE), nr=True, sessions=1, allow_same=True),
            thorough=dict(p=3, concrete='same', events=7, kinds=(SEND, FIRE, CLOSE), nr=True, sessions=1, allow_same=True),
            goals=('retransmitted', 'retransmitted-twice'), timeout=(300, 900),
            note='two different requests whose expected-reply patterns are identical are pending at the same time and stay unanswered: '
                 'each of them keeps being retransmitted (which of them an arriving packet would answer is not defined, so none arrives)'))
DELAYED.append(
    Harness('callback-send', h_history,
            quick=dict(p=2, concrete='same', events=5, kinds=(SEND, FIRE, RX), nr=True, sessions=1, max_rx=2, dispatch=True, cb_send=True),
            thorough=dict(p=3, concrete='same', events=6, kinds=(SEND, FIRE, RX), nr=True, sessions=1, max_rx=3, max_fire=2, dispatch=True,
                          cb_send=True),
            goals=('request-sent-from-reply-callback', 'retransmitted', 'answered'), timeout=(600, 1800),
            note='packets arrive through the real _IncomingPacketHandler.run; a port callback may issue the same request again from '
                 'inside the dispatch of its reply (the new request is pending and retried like any other)'))

# ---------------------------------------------------------------------------------------------------------------------
# "nothing is ever transmitted on a closed link" at the driver: the real UsbDriver on a fake USB handle whose control transfers
# may fail (cable pulled) at solver-chosen points

def h_usb_closed(sym):
    import cflib.crtp.usbdriver as usbmod
    from cflib.crtp.usbdriver import UsbDriver
    handles = []
    fault = sym.choice('fault', 4)          # 0 none, 1 leaving CRTP-over-USB mode fails, 2 closing the device fails, 3 both calls fail

    class FakeCfUsb:
        def __init__(self, devid=0):
            self.dev = object()
            self.written = []
            self.log = []
            self.closed_by_driver = False
            handles.append(self)

        def set_crtp_to_usb(self, on):
            self.log.append(('crtp', on))
            if not on and fault in (1, 3) and len(handles) == 1:
                raise IOError('control transfer failed: device gone')

        def send_packet(self, data):
            self.written.append((tuple(data), self.closed_by_driver))

        def receive_packet(self):
            return ()

        def close(self):
            self.log.append(('close',))
            if fault in (2, 3) and len(handles) == 1:
                raise IOError('device gone')

        def scan(self):
            return []
    saved = usbmod.CfUsb
    usbmod.CfUsb = FakeCfUsb
    try:
        errors = []
        d = UsbDriver()
        d.connect('usb://0', None, errors.append)
        n1 = sym.choice('n1', 3)
        for i in range(n1):
            d.send_packet(CRTPPacket(0x21, [sym.int(f'a{i}', 0, 255)]))
        h1 = handles[0]
        assert [w[0][0] for w in h1.written] == [CRTPPacket(0x21).header] * n1, 'packets submitted on the open link are written to the device'
        d.close()
        h1.closed_by_driver = True
        # a sender that still holds the driver object (bootloader, a thread past its link check) sends after the close
        n2 = sym.choice('n2', 3)
        for i in range(n2):
            d.send_packet(CRTPPacket(0x31, [i]))
        assert all(not late for (_, late) in h1.written), 'a packet was written to the USB device after the link had been closed'
        assert len(h1.written) == n1, 'a packet was written to the USB device after the link had been closed'
        if n2:
            sym.goal('send-after-close')
        if fault:
            sym.goal('close-with-usb-fault')
        # the same driver object (and a fresh one) can be connected again, and then transmits on the new handle only
        d2 = d if sym.choice('reuse', 2) else UsbDriver()
        d2.connect('usb://0', None, errors.append)
        d2.send_packet(CRTPPacket(0x41, [7]))
        assert len(handles) == 2 and [w[0][0] for w in handles[1].written] == [CRTPPacket(0x41).header] and len(h1.written) == n1, \
            'after a reconnect packets go to the new device handle only'
        d2.close()
        sym.goal('reconnected')
    finally:
        usbmod.CfUsb = saved


DELAYED.append(Harness('usb[closed link]', h_usb_closed, goals=('send-after-close', 'close-with-usb-fault', 'reconnected'), timeout=(120, 300),
                       symbolic=False, note='fault point, packet counts and driver reuse are solver-chosen alternatives (no data-dependent branch)'))

_MATCH_GOALS = ('answered', 'retransmitted', 'non-matching-packet')
_SESSION_GOALS = ('reopened', 'retransmitted', 'answered', 'no-timer-on-reliable-link', 'link-down-with-pending-request',
                  'reopened-after-pending-request-dropped')

HARNESSES = DELAYED + [
    # concern 1: matching. Symbolic expected bytes (shared prefixes arise), symbolic received header + 3 bytes, header of
    # request 1 equal to / different from request 0 by solver choice; one resending session; one harness per pair of lengths
    Harness(f'match[{a},{b}]', h_history,
            quick=dict(p=2, explen=(a, b), events=4, kinds=(SEND, FIRE, RX), nr=True, sessions=1, max_rx=2, max_fire=1),
            thorough=dict(p=2, explen=(a, b), events=5, kinds=(SEND, FIRE, RX), nr=True, sessions=1, max_rx=3, max_fire=2),
            timeout=(290, 1700), goals=_MATCH_GOALS + (('longest-prefix-chosen',) if a != b else ()))
    for a in (1, 2, 3) for b in (1, 2, 3)
] + [
    # three pending patterns (thorough only)
    Harness(f'match3[{a},{b},{c}]', h_history,
            quick=dict(p=3, explen=(a, b, c), events=5, kinds=(SEND, FIRE, RX), nr=True, sessions=1, max_rx=2, max_fire=1),
            timeout=(290, 1700), tiers=('thorough',), goals=_MATCH_GOALS + ('longest-prefix-chosen',))
    for (a, b, c) in ((1, 2, 3), (3, 2, 1), (2, 1, 2))
] + [
    # received packets shorter than / as long as the patterns (0..3 data bytes by solver choice), concrete nested patterns
    Harness('short-packets', h_history,
            quick=dict(p=2, concrete=True, events=4, kinds=(SEND, FIRE, RX), nr=True, sessions=1, max_rx=2, max_fire=1, rxlen='sym'),
            thorough=dict(p=3, concrete=True, events=5, kinds=(SEND, FIRE, RX), nr=True, sessions=1, max_rx=2, max_fire=1, rxlen='sym'),
            timeout=(290, 1700), goals=_MATCH_GOALS + ('longest-prefix-chosen',)),
    # concern 2: sessions. Concrete nested patterns, every event kind, needs_resending symbolic per session
    Harness('sessions[all]', h_history,
            quick=dict(p=2, concrete=True, events=5, kinds=ALL, nr='sym', sessions=2, send_closed=True),
            thorough=dict(p=2, concrete=True, events=6, kinds=ALL, nr='sym', sessions=3, send_closed=True),
            timeout=(290, 1700), goals=_SESSION_GOALS + ('closed', 'link-error', 'send-on-closed-link', 'longest-prefix-chosen')),
    Harness('sessions[close]', h_history,
            quick=dict(p=2, concrete=True, events=5, kinds=(SEND, FIRE, RX, CLOSE, OPEN), nr='sym', sessions=2),
            thorough=dict(p=2, concrete=True, events=6, kinds=(SEND, FIRE, RX, CLOSE, OPEN), nr='sym', sessions=3),
            timeout=(290, 1700), goals=_SESSION_GOALS + ('closed',)),
    Harness('sessions[link-error]', h_history,
            quick=dict(p=2, concrete=True, events=5, kinds=(SEND, FIRE, RX, ERROR, OPEN), nr='sym', sessions=2),
            thorough=dict(p=2, concrete=True, events=6, kinds=(SEND, FIRE, RX, ERROR, OPEN), nr='sym', sessions=3),
            timeout=(290, 1700), goals=_SESSION_GOALS + ('link-error',)),
    # both concerns at once, small: symbolic pattern and packets with close / open / link error
    Harness('sessions[real driver flags]', h_history,
            quick=dict(p=1, concrete=True, events=4, kinds=(SEND, FIRE, RX, CLOSE, OPEN), nr='drivers', sessions=2),
            timeout=(290, 1700), goals=('retransmitted', 'no-timer-on-reliable-link', 'reopened'),
            note='needs_resending is read from a freshly constructed real driver (radio, USB, UART, TCP, abstract base; solver-chosen '
                 'per session); retransmission is expected exactly on the kinds of link that do not guarantee delivery'),
    Harness('sessions[symbolic]', h_history,
            quick=dict(p=1, events=4, kinds=ALL, nr='sym', sessions=2, send_closed=True),
            thorough=dict(p=1, events=5, kinds=ALL, nr='sym', sessions=2, send_closed=True),
            timeout=(290, 1700), goals=_SESSION_GOALS + ('closed', 'link-error')),
    Harness('sessions[symbolic,2]', h_history,
            quick=dict(p=2, explen=(1, 2), events=5, kinds=ALL, nr='sym', sessions=2, send_closed=True),
            timeout=(290, 1700), tiers=('thorough',), goals=_SESSION_GOALS + ('closed', 'link-error', 'longest-prefix-chosen')),
    # concern 3: the retry period is the request's own timeout (explicit 1.0 s as the memory subsystem uses, and the default)
    Harness('interval', h_history,
            quick=dict(p=2, concrete=True, events=6, kinds=(SEND, FIRE, RX), nr=True, sessions=1, timeouts=(1.0, None), max_rx=1),
            thorough=dict(p=3, concrete=True, events=6, kinds=(SEND, FIRE, RX), nr=True, sessions=1, timeouts=(1.0, None, 0.5), max_rx=1),
            timeout=(290, 1700), goals=('retransmitted', 'retransmitted-twice', 'answered')),
]
