"""C19 Swarm actions run once per Crazyflie with the right arguments and error report.

The real `Swarm` (and, in one harness, the real `SyncCrazyflie`) is executed with `cflib.crazyflie.swarm.Thread`
replaced by a deferred task: `start()` only registers the body, the body (the real `_thread_function_wrapper`
with the real argument list) is run later by the harness' scheduler.  Scheduling points are every `start()`
(any subset of the started, unfinished bodies may run, in any order, before the caller goes on) and every
`join()` (bodies run in a solver-chosen order until the joined one has finished).  Which members fail, the order
in which bodies complete, the swarm size, the argument-list lengths and the URI insertion order are solver
decisions; the argument values are symbolic integers that are never branched on.

Oracle (written from the property statement, not from swarm.py): the instrumented action records
(member identity, argument tuple) per call; the factory records which connection object belongs to which URI."""
import cflib.crazyflie.swarm as swarm_mod
import cflib.crazyflie.syncCrazyflie as scf_mod
from cflib.crazyflie.swarm import Swarm
from cflib.crazyflie.syncCrazyflie import SyncCrazyflie
from cflib.utils.callbacks import Caller
from vf.harness import Harness

FUNCTIONS = ['cflib.crazyflie.swarm:Swarm.__init__', 'cflib.crazyflie.swarm:Swarm.open_links',
             'cflib.crazyflie.swarm:Swarm.close_links', 'cflib.crazyflie.swarm:Swarm.__enter__',
             'cflib.crazyflie.swarm:Swarm.__exit__', 'cflib.crazyflie.swarm:Swarm.sequential',
             'cflib.crazyflie.swarm:Swarm.parallel', 'cflib.crazyflie.swarm:Swarm.parallel_safe',
             'cflib.crazyflie.swarm:Swarm._thread_function_wrapper', 'cflib.crazyflie.swarm:Swarm._process_args_dict',
             'cflib.crazyflie.swarm:Swarm.Reporter',
             'cflib.crazyflie.syncCrazyflie:SyncCrazyflie.__init__', 'cflib.crazyflie.syncCrazyflie:SyncCrazyflie.open_link',
             'cflib.crazyflie.syncCrazyflie:SyncCrazyflie.close_link', 'cflib.crazyflie.syncCrazyflie:SyncCrazyflie.is_link_open',
             'cflib.crazyflie.syncCrazyflie:SyncCrazyflie._connected', 'cflib.crazyflie.syncCrazyflie:SyncCrazyflie._connection_failed',
             'cflib.crazyflie.syncCrazyflie:SyncCrazyflie._disconnected', 'cflib.crazyflie.syncCrazyflie:SyncCrazyflie._add_callbacks',
             'cflib.crazyflie.syncCrazyflie:SyncCrazyflie._remove_callbacks',
             'cflib.utils.callbacks:Caller.call', 'cflib.utils.callbacks:Caller.add_callback',
             'cflib.utils.callbacks:Caller.remove_callback']
STUBS = ['cflib.crazyflie.swarm.Thread -> deferred task (start registers the body; bodies are run at start()/join() '
         'scheduling points in a solver-chosen order; an exception escaping a body ends only that task, as '
         'threading.excepthook does)',
         'factory -> instrumented member objects (open_link may raise, close_link recorded) or, in open_links[scf], the '
         'real SyncCrazyflie on a fake Crazyflie (4 Callers; open_link reports connected / connection_failed, either '
         'synchronously or while the caller waits on the connect event; or raises; close_link reports disconnected)',
         'cflib.crazyflie.syncCrazyflie.Event -> flag object; waiting on an unset event delivers the pending connection '
         'outcome of that member, and is recorded as a hang if there is none',
         'logging disabled']
ASSUMPTIONS = ['context switches between member threads happen only between whole thread bodies (a body = '
               '_thread_function_wrapper incl. the action and Reporter.report_error) and at Thread.start/join',
               'URIs are pairwise distinct strings; args_dict is None, empty, or has an entry (a list) for every URI',
               'actions and open_link fail by raising subclasses of Exception; close_link does not raise',
               'the action does not itself call swarm methods']
OUTSIDE = ['preemption inside Reporter.report_error / inside an action (list append and attribute store under the GIL)',
           'args_dict lacking an entry for some URI (KeyError is raised from parallel_safe after earlier member threads '
           'were started and before any join)',
           'BaseException (KeyboardInterrupt/SystemExit) raised by an action', 'close_link raising during the clean-up of a '
           'failed open_links', 'get_estimated_positions / reset_estimators (need a log stream)',
           'swarm sizes above the bound']
EXPLANATION = 'C19: real Swarm.sequential/parallel/parallel_safe/open_links with threads as deferred tasks: failing subset, ' \
              'completion order, swarm size and argument-list shapes decided by the solver, argument values symbolic.'

# deliberately not in sorted order: insertion order must be kept, not some other order
URIS = ['radio://0/80/2M/E7E7E7E703', 'radio://0/80/2M/E7E7E7E701', 'radio://0/80/2M/E7E7E7E704',
        'radio://0/80/2M/E7E7E7E702', 'radio://0/80/2M/E7E7E7E700']
LENS = [1, 2, 0, 3, 1]          # argument-list length of member i where lengths are not solver-chosen


class MemberError(Exception):
    pass


ERR_KINDS = [ValueError, MemberError, KeyError, RuntimeError, OSError]


def sbool(sym, name):
    """Symbolic bool decided here (one fork), so that no solver query happens inside a task body, where the
    code under test catches `Exception`."""
    return True if sym.bool(name) else False


# ------------------------------------------------------------------------------------------- environment
class Env:
    def __init__(self, sym):
        self.sym = sym
        self.tasks = []          # every Thread object created by the code under test
        self.completed = []      # task indices in completion order
        self.escaped = []        # exceptions that escaped a thread body
        self.ran_at_start = False
        self.nsched = 0
        self.members = []        # member i = connection object constructed for uris[i]
        self.by_uri = {}
        self.calls = []          # (member index or -1, argument tuple) per action invocation
        self.log = []            # ('act'|'open'|'close'|'cf.open'|'cf.close', member)
        self.raised = []         # exception objects raised by actions / open_link
        self.hangs = []
        self.in_task = None

    # ---- scheduler
    def point(self, must):
        """Scheduling point. must=None (at start()): the solver runs any number of runnable bodies, or none.
        must=task (at join()): bodies run in a solver-chosen order until `must` has finished."""
        assert self.in_task is None, 'harness: start/join from inside a task body is not modelled'
        while True:
            if must is not None and must.done:
                return
            pend = [t for t in self.tasks if t.started and not t.done]
            if not pend:
                return
            nopt = len(pend) + (1 if must is None else 0)
            k = self.sym.choice(f'sch{self.nsched}', nopt) if nopt > 1 else 0
            self.nsched += 1
            if must is None:
                if k == 0:
                    return
                k -= 1
                self.ran_at_start = True
            self.run_task(pend[k])

    def run_task(self, t):
        self.in_task = t
        try:
            t.run()
        except Exception as e:       # what threading does: the thread dies, nobody is told
            self.escaped.append(e)
        finally:
            self.in_task = None
        t.done = True
        self.completed.append(t.idx)

    def thread_class(env):
        class TaskThread:
            def __init__(self, group=None, target=None, name=None, args=(), kwargs=None, daemon=None):
                self._target, self._args, self._kwargs = target, args, kwargs or {}
                self.started = False
                self.done = False
                self.idx = len(env.tasks)
                env.tasks.append(self)

            def start(self):
                if self.started:
                    raise RuntimeError('threads can only be started once')
                self.started = True
                env.point(None)

            def run(self):
                if self._target is not None:
                    self._target(*self._args, **self._kwargs)

            def join(self, timeout=None):
                if not self.started:
                    raise RuntimeError('cannot join thread before it is started')
                env.point(self)

            def is_alive(self):
                return self.started and not self.done
        return TaskThread

    def event_class(env):
        class FakeEvent:
            def __init__(self):
                self.flag = False
                self.owner = None

            def set(self):
                self.flag = True

            def clear(self):
                self.flag = False

            def is_set(self):
                return self.flag

            def wait(self, timeout=None):
                if not self.flag:
                    # the connection outcome arrives (from the Crazyflie's own threads) while we wait
                    for cf in list(env.pending_cf):
                        cf.deliver()
                        if self.flag:
                            break
                if not self.flag:
                    env.hangs.append('Event.wait on an event nobody will set')
                return self.flag
        return FakeEvent

    # ---- instrumentation
    def index_of(self, scf):
        for i, m in enumerate(self.members):
            if m is scf:
                return i
        return -1

    def install(self):
        self.saved = (swarm_mod.Thread, scf_mod.Event)
        swarm_mod.Thread = self.thread_class()
        scf_mod.Event = self.event_class()
        self.pending_cf = []

    def restore(self):
        swarm_mod.Thread, scf_mod.Event = self.saved

    def all_bodies_finished(self):
        return all(t.done for t in self.tasks if t.started)


class FakeSCF:
    """Instrumented member for the swarm-level harnesses."""
    def __init__(self, env, i, uri, open_fails=False):
        self.env, self.i, self.uri, self.open_fails = env, i, uri, open_fails
        self.opened = False

    def open_link(self):
        self.env.log.append(('open', self.i))
        if self.open_fails:
            e = ERR_KINDS[self.i % len(ERR_KINDS)](f'cannot open link {self.i}')
            self.env.raised.append(e)
            raise e
        self.opened = True

    def close_link(self):
        self.env.log.append(('close', self.i))
        self.opened = False

    def is_link_open(self):
        return self.opened


class Factory:
    def __init__(self, env, uris, make):
        self.env, self.uris, self.make = env, uris, make

    def construct(self, uri):
        i = self.uris.index(uri)
        m = self.make(i, uri)
        while len(self.env.members) <= i:
            self.env.members.append(None)
        self.env.members[i] = m
        self.env.by_uri[uri] = m
        return m


def make_action(env, fails):
    def action(scf, *args):
        i = env.index_of(scf)
        env.calls.append((i, args))
        env.log.append(('act', i))
        if 0 <= i < len(fails) and fails[i]:
            e = ERR_KINDS[i % len(ERR_KINDS)](f'action failed on member {i}')
            env.raised.append(e)
            raise e
        env.log.append(('act-end', i))
    return action


def make_args(sym, uris, lens):
    """args_dict with symbolic ints; lens[i] = length of member i's list."""
    return {uri: [sym.int(f'a{i}_{j}', -2 ** 31, 2 ** 31) for j in range(lens[i])] for i, uri in enumerate(uris)}


def check_calls(env, n, uris, args_dict, ordered=False):
    """Each member's action ran exactly once with (its connection, *its own args_dict entry)."""
    for i in range(n):
        mine = [c for c in env.calls if c[0] == i]
        assert len(mine) == 1, ('action ran %d times for member %d' % (len(mine), i))
        exp = list(args_dict[uris[i]]) if args_dict else []
        got = list(mine[0][1])
        assert len(got) == len(exp), ('wrong number of arguments for member', i, len(got), len(exp))
        assert got == exp, ('wrong arguments for member', i)
    assert len(env.calls) == n, 'action invoked with something that is not a member connection'
    if ordered:
        assert [c[0] for c in env.calls] == list(range(n)), ('not in URI order', [c[0] for c in env.calls])


# ------------------------------------------------------------------------------------------- harnesses
def h_sequential(sym):
    """sequential: URI insertion order is a solver-chosen permutation of the URI pool; args_dict None / {} / per-member
    lists of solver-chosen length 0..2 with symbolic values."""
    n = sym.choice('n', sym.B['size'] + 1)
    pool = list(range(n))
    order = []
    for k in range(n - 1):
        order.append(pool.pop(sym.choice(f'perm{k}', len(pool))))
    order += pool
    uris = [URIS[j] for j in order]
    mode = sym.choice('argmode', 3)
    if mode == 0:
        args_dict = None
    elif mode == 1:
        args_dict = {}
    else:
        args_dict = make_args(sym, uris, [sym.choice(f'len{i}', 3) for i in range(n)])
        if n >= 2 and sbool(sym, 'dict_reversed'):
            # the argument dictionary is keyed by URI; its own key order is irrelevant to the order of execution
            args_dict = dict(reversed(list(args_dict.items())))
            sym.goal('dict-order-differs')
    env = Env(sym)
    env.install()
    try:
        swarm = Swarm(uris, factory=Factory(env, uris, lambda i, uri: FakeSCF(env, i, uri)))
        action = make_action(env, [False] * n)
        if args_dict is None and sbool(sym, 'omit'):
            swarm.sequential(action)
        else:
            swarm.sequential(action, args_dict)
    finally:
        env.restore()
    assert env.all_bodies_finished(), 'sequential returned before an action finished'
    check_calls(env, n, uris, args_dict, ordered=True)
    # one at a time: no action begins before the previous one has ended
    assert env.log == [x for i in range(n) for x in (('act', i), ('act-end', i))], env.log
    if n >= 2:
        sym.goal('several')
        if order != sorted(order):
            sym.goal('unsorted-uris')
    if args_dict and any(len(v) for v in args_dict.values()):
        sym.goal('args')
    if not args_dict:
        sym.goal('noargs')


def h_parallel(sym):
    """parallel_safe / parallel: failing subset, completion order, size decided by the solver; argument values symbolic."""
    api = sym.B['api']
    n = sym.choice('n', sym.B['size'] + 1)
    uris = URIS[:n]
    fails = [sbool(sym, f'fail{i}') for i in range(n)]
    amode = sym.B.get('args', 'dict')
    if amode == 'dict':
        args_dict = make_args(sym, uris, LENS)
    elif amode == 'empty':
        args_dict = {}
    else:
        args_dict = None
    env = Env(sym)
    env.install()
    exc = None
    try:
        swarm = Swarm(uris, factory=Factory(env, uris, lambda i, uri: FakeSCF(env, i, uri)))
        action = make_action(env, fails)
        try:
            fn = swarm.parallel_safe if api == 'parallel_safe' else swarm.parallel
            if amode == 'omit':
                fn(action)
            else:
                fn(action, args_dict)
        except Exception as e:
            exc = e
    finally:
        env.restore()
    # returns (or raises) only after every action has finished
    assert env.all_bodies_finished(), 'returned while a member thread had not finished'
    assert not env.escaped, 'an exception escaped a member thread unreported'
    check_calls(env, n, uris, args_dict)
    if api == 'parallel':
        assert exc is None, 'parallel raised'
    elif any(fails):
        assert exc is not None, 'parallel_safe did not raise although an action raised'
        assert any(exc.__cause__ is e for e in env.raised), 'the raised exception does not chain one of the raised errors'
        sym.goal('raised')
        if sum(fails) >= 2:
            sym.goal('two-failed')
        if not fails[0]:
            sym.goal('first-ok-later-failed')
    else:
        assert exc is None, 'parallel_safe raised although no action raised'
        sym.goal('clean')
    if env.completed != sorted(env.completed):
        sym.goal('reordered')
    if env.ran_at_start:
        sym.goal('finished-before-join')
    if any(fails):
        sym.goal('some-failed')


def h_parallel_never_raises(sym):
    """`parallel never raises`: also when the problem is not an action that raises but the call itself -- an argument dictionary
    that lacks the entry of a member (solver-chosen which), or a member thread that cannot be started."""
    n = sym.B['size']
    uris = URIS[:n]
    kind = sym.choice('problem', 3)       # 0 none, 1 args_dict lacks the entry of one member, 2 a thread cannot be started
    victim = sym.choice('victim', n)
    fails = [sbool(sym, f'fail{i}') for i in range(n)]
    args_dict = make_args(sym, uris, [1] * n)
    if kind == 1:
        del args_dict[uris[victim]]
    env = Env(sym)
    env.install()
    import cflib.crazyflie.swarm as swarm_mod
    ThreadCls = swarm_mod.Thread
    started = []

    class NoThreads(ThreadCls):
        def start(self):
            started.append(self)
            if len(started) == victim + 1:
                raise RuntimeError("can't start new thread")
            return ThreadCls.start(self)
    exc = None
    try:
        if kind == 2:
            swarm_mod.Thread = NoThreads
        swarm = Swarm(uris, factory=Factory(env, uris, lambda i, uri: FakeSCF(env, i, uri)))
        try:
            swarm.parallel(make_action(env, fails), args_dict)
        except Exception as e:
            exc = e
    finally:
        swarm_mod.Thread = ThreadCls
        env.restore()
    assert exc is None, f'parallel raised {type(exc).__name__}'
    assert not env.escaped, 'an exception escaped a member thread unreported'
    if kind == 0:
        assert env.all_bodies_finished()
        check_calls(env, n, uris, args_dict)
    sym.goal(('no-problem', 'missing-args-entry', 'thread-start-failed')[kind])


def h_twice(sym):
    """Two swarm-wide calls on the SAME Swarm object: the outcome of the second depends on the second only (raises iff one of ITS
    actions raised), each call runs every action once."""
    n = sym.B['size']
    uris = URIS[:n]
    fails1 = [sbool(sym, f'first_fail{i}') for i in range(n)]
    fails2 = [sbool(sym, f'second_fail{i}') for i in range(n)]
    env = Env(sym)
    env.install()
    outcomes = []
    try:
        swarm = Swarm(uris, factory=Factory(env, uris, lambda i, uri: FakeSCF(env, i, uri)))
        args_dict = make_args(sym, uris, [1] * n) if sym.B.get('args') else None
        snapshot = {k: list(v) for k, v in args_dict.items()} if args_dict else None
        for fails in (fails1, fails2):
            before = len(env.calls)
            action = make_action(env, fails)
            try:
                if args_dict is None:
                    swarm.parallel_safe(action)
                else:
                    swarm.parallel_safe(action, args_dict)      # the SAME dictionary object is passed to both calls
                outcomes.append(None)
            except Exception as e:
                outcomes.append(e)
            assert env.all_bodies_finished(), 'returned while a member thread had not finished'
            now = env.calls[before:]
            assert sorted(c[0] for c in now) == list(range(n)), 'each action must run exactly once per call'
            if args_dict is not None:
                for c in now:
                    assert list(c[1]) == snapshot[uris[c[0]]], ('member received other arguments than its own entry', c[0])
                assert {k: list(v) for k, v in args_dict.items()} == snapshot, "the caller's argument dictionary was modified"
    finally:
        env.restore()
    for fails, out in zip((fails1, fails2), outcomes):
        if any(fails):
            assert out is not None, 'parallel_safe did not raise although an action raised'
        else:
            assert out is None, f'parallel_safe raised although none of its actions raised: {type(out).__name__}'
    if any(fails1) and not any(fails2):
        sym.goal('clean-after-failed')
    if any(fails2):
        sym.goal('failed-second')


def _open(swarm, ctx):
    """open the swarm; returns the exception or None"""
    try:
        if ctx:
            swarm.__enter__()
        else:
            swarm.open_links()
    except Exception as e:
        return e
    return None


def _positions(log, what, i):
    return [k for k, x in enumerate(log) if x == (what, i)]


def h_open_fake(sym):
    """open_links on instrumented members: which open_link calls fail, and the completion order, are solver-chosen."""
    n = sym.choice('n', sym.B['size']) + 1
    uris = URIS[:n]
    fails = [sbool(sym, f'openfail{i}') for i in range(n)]
    ctx = sym.B.get('ctx', False)
    env = Env(sym)
    env.install()
    try:
        swarm = Swarm(uris, factory=Factory(env, uris, lambda i, uri: FakeSCF(env, i, uri, fails[i])))
        exc = _open(swarm, ctx)
        assert env.all_bodies_finished(), 'open_links returned while a member thread had not finished'
        assert not env.escaped
        for i in range(n):
            assert len(_positions(env.log, 'open', i)) == 1, ('open_link calls', i, env.log)
        if any(fails):
            assert exc is not None, 'open_links did not raise although a link could not be opened'
            assert any(exc is e or exc.__cause__ is e for e in env.raised), 'the failure is not what is raised'
            for i in range(n):
                closes = _positions(env.log, 'close', i)
                assert closes, ('close_link not called on member', i)
                assert closes[-1] > _positions(env.log, 'open', i)[0], 'closed before it was opened'
                assert not env.members[i].opened, ('link left open', i)
            sym.goal('open-failed')
            if not all(fails):
                sym.goal('opened-link-closed-again')
            if env.completed != sorted(env.completed):
                sym.goal('reordered')
        else:
            assert exc is None, 'open_links raised although every link opened'
            assert all(m.opened for m in env.members), 'a link is not open after open_links succeeded'
            sym.goal('opened')
            second = _open(swarm, ctx)
            assert second is not None, 'second open_links did not raise'
            for i in range(n):
                assert len(_positions(env.log, 'open', i)) == 1, 'a link was opened twice'
                # the refused call is not a failed link opening: nothing is closed, the swarm stays open (and stays refused)
                assert not _positions(env.log, 'close', i) and env.members[i].opened, ('refused second open closed a link', i)
            third = _open(swarm, ctx)
            assert third is not None, 'third open_links accepted after the refused second one'
            for i in range(n):
                assert len(_positions(env.log, 'open', i)) == 1, 'a link was opened twice'
            sym.goal('second-open-refused')
    finally:
        env.restore()


OK, FAILED, RAISES = 0, 1, 2


class FakeCrazyflie:
    """What SyncCrazyflie uses of a Crazyflie: four Callers, open_link(uri), close_link()."""
    def __init__(self, env, i, mode, deferred):
        self.env, self.i, self.mode, self.deferred = env, i, mode, deferred
        self.connected, self.connection_failed = Caller(), Caller()
        self.disconnected, self.fully_connected = Caller(), Caller()
        self.link_uri = ''
        self.link_open = False
        self.outcome = None

    def open_link(self, uri):
        self.env.log.append(('cf.open', self.i))
        self.link_uri = uri
        if self.mode == RAISES:
            e = ERR_KINDS[self.i % len(ERR_KINDS)](f'driver exploded {self.i}')
            self.env.raised.append(e)
            raise e
        self.outcome = self.mode
        self.env.pending_cf.append(self)
        if not self.deferred:
            self.deliver()

    def deliver(self):
        self.env.pending_cf.remove(self)
        if self.outcome == OK:
            self.link_open = True
            self.connected.call(self.link_uri)
            self.fully_connected.call(self.link_uri)
        else:
            self.connection_failed.call(self.link_uri, self.message())

    def message(self):
        return f'Too many packets lost {self.i}'

    def close_link(self):
        self.env.log.append(('cf.close', self.i))
        self.link_open = False
        self.disconnected.call(self.link_uri)


def h_open_scf(sym):
    """open_links with the real SyncCrazyflie on a fake Crazyflie: per member the connection attempt succeeds, is
    reported as connection_failed, or cf.open_link raises (solver-chosen); completion order solver-chosen."""
    n = sym.choice('n', sym.B['size']) + 1
    uris = URIS[:n]
    nmodes = sym.B.get('modes', 3)
    modes = [sym.choice(f'mode{i}', nmodes) for i in range(n)]
    ctx = sym.B.get('ctx', False)
    env = Env(sym)
    env.install()
    try:
        cfs = [FakeCrazyflie(env, i, modes[i], deferred=(i % 2 == 1)) for i in range(n)]
        swarm = Swarm(uris, factory=Factory(env, uris, lambda i, uri: SyncCrazyflie(uri, cf=cfs[i])))
        exc = _open(swarm, ctx)
        assert not env.hangs, env.hangs
        assert env.all_bodies_finished(), 'open_links returned while a member thread had not finished'
        assert not env.escaped
        for i in range(n):
            assert len(_positions(env.log, 'cf.open', i)) == 1, ('cf.open_link calls', i, env.log)
        if any(m != OK for m in modes):
            assert exc is not None, 'open_links did not raise although a connection attempt failed'
            cause = exc.__cause__ if exc.__cause__ is not None else exc
            msgs = [cfs[i].message() for i in range(n) if modes[i] == FAILED]
            assert any(cause is e for e in env.raised) or (len(cause.args) == 1 and cause.args[0] in msgs), \
                'the failure is not what is raised'
            for i in range(n):
                assert not env.members[i].is_link_open(), ('SyncCrazyflie left open', i)
                assert not cfs[i].link_open, ('link left open', i)
                if modes[i] == OK:
                    closes = _positions(env.log, 'cf.close', i)
                    assert closes and closes[-1] > _positions(env.log, 'cf.open', i)[0], ('opened link not closed again', i)
            sym.goal('open-failed')
            if any(m == OK for m in modes):
                sym.goal('opened-link-closed-again')
        else:
            assert exc is None, 'open_links raised although every link opened'
            assert all(m.is_link_open() for m in env.members) and all(c.link_open for c in cfs), \
                'a link is not open after open_links succeeded'
            sym.goal('opened')
            second = _open(swarm, ctx)
            assert second is not None, 'second open_links did not raise'
            for i in range(n):
                assert len(_positions(env.log, 'cf.open', i)) == 1, 'a link was opened twice'
                assert not _positions(env.log, 'cf.close', i) and cfs[i].link_open and env.members[i].is_link_open(), \
                    ('refused second open closed a link', i)
            third = _open(swarm, ctx)
            assert third is not None, 'third open_links accepted after the refused second one'
            for i in range(n):
                assert len(_positions(env.log, 'cf.open', i)) == 1, 'a link was opened twice'
            sym.goal('second-open-refused')
        assert not env.hangs, env.hangs
    finally:
        env.restore()


_PG = ('clean', 'raised', 'two-failed', 'first-ok-later-failed', 'reordered', 'finished-before-join')
_OG = ('opened', 'second-open-refused', 'open-failed', 'opened-link-closed-again')
HARNESSES = [
    Harness('twice[args]', h_twice, quick=dict(size=2, args=True), goals=('clean-after-failed', 'failed-second'), symbolic=False, timeout=(300, 900)),
    Harness('twice', h_twice, quick=dict(size=2), thorough=dict(size=2), goals=('clean-after-failed', 'failed-second'), symbolic=False,
            timeout=(300, 900)),
    Harness('sequential', h_sequential, quick=dict(size=3), thorough=dict(size=4), timeout=(240, 1500),
            goals=('several', 'unsorted-uris', 'args', 'noargs')),
    Harness('parallel_safe', h_parallel, quick=dict(size=3, api='parallel_safe'), thorough=dict(size=4, api='parallel_safe'),
            timeout=(240, 1500), goals=_PG),
    Harness('parallel_safe[noargs]', h_parallel, quick=dict(size=2, api='parallel_safe', args='omit'),
            thorough=dict(size=3, api='parallel_safe', args='omit'), timeout=(240, 900), goals=('clean', 'raised', 'reordered')),
    Harness('parallel_safe[emptydict]', h_parallel, quick=dict(size=2, api='parallel_safe', args='empty'),
            thorough=dict(size=3, api='parallel_safe', args='empty'), timeout=(240, 900), goals=('clean', 'raised')),
    Harness('parallel', h_parallel, quick=dict(size=3, api='parallel'), thorough=dict(size=4, api='parallel'),
            timeout=(240, 1500), goals=('some-failed', 'reordered', 'finished-before-join')),
    Harness('parallel[call-level problems]', h_parallel_never_raises, quick=dict(size=2), thorough=dict(size=3), symbolic=False,
            goals=('no-problem', 'missing-args-entry', 'thread-start-failed'), timeout=(240, 900)),
    Harness('open_links[fake]', h_open_fake, quick=dict(size=3), thorough=dict(size=4), timeout=(240, 1500),
            goals=_OG + ('reordered',), symbolic=False, note='all inputs are solver-chosen selectors (failing subset, schedule)'),
    Harness('open_links[with]', h_open_fake, quick=dict(size=2, ctx=True), thorough=dict(size=3, ctx=True), timeout=(240, 900),
            goals=_OG, symbolic=False, note='entered through the context manager'),
    Harness('open_links[scf]', h_open_scf, quick=dict(size=3, modes=3), thorough=dict(size=4, modes=2), timeout=(240, 1500),
            goals=_OG, symbolic=False, note='real SyncCrazyflie on a fake Crazyflie'),
    Harness('open_links[scf,3modes]', h_open_scf, quick=dict(size=3, modes=3), thorough=dict(size=3, modes=3), timeout=(240, 1500),
            goals=_OG, symbolic=False, tiers=('thorough',), note='real SyncCrazyflie on a fake Crazyflie'),
]
