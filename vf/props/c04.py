"""C04 Parameter writes and reads are typed correctly and never cross-attributed."""
import errno
import struct

from vf.harness import Harness
from vf.explore import Inconclusive
from vf.env import c04_env as E
from vf.env.c04_env import text
from cflib.crazyflie.param import Param, ParamTocElement

PORT_PARAM = 2
CH_TOC, CH_READ, CH_WRITE, CH_MISC = 0, 1, 2, 3
MISC_VALUE_UPDATED, MISC_GET_EXTENDED_TYPE, MISC_PERSISTENT_STORE, MISC_PERSISTENT_GET_STATE, MISC_PERSISTENT_CLEAR, \
    MISC_GET_DEFAULT_VALUE = 1, 2, 3, 4, 5, 6
EXT_PERSISTENT = 1
ENOENT = errno.ENOENT

FUNCTIONS = ['cflib.crazyflie.param:Param.__init__', 'cflib.crazyflie.param:Param.set_value',
             'cflib.crazyflie.param:Param.set_value_raw', 'cflib.crazyflie.param:Param.get_value',
             'cflib.crazyflie.param:Param.request_param_update', 'cflib.crazyflie.param:Param.request_update_of_all_params',
             'cflib.crazyflie.param:Param._param_updated', 'cflib.crazyflie.param:Param._check_if_all_updated',
             'cflib.crazyflie.param:Param.add_update_callback', 'cflib.crazyflie.param:Param.refresh_toc',
             'cflib.crazyflie.param:Param.get_default_value', 'cflib.crazyflie.param:Param.persistent_clear',
             'cflib.crazyflie.param:Param.persistent_store', 'cflib.crazyflie.param:Param.persistent_get_state',
             'cflib.crazyflie.param:ParamTocElement.__init__', 'cflib.crazyflie.param:_ParamUpdater.run',
             'cflib.crazyflie.param:_ParamUpdater._new_packet_cb', 'cflib.crazyflie.param:_ParamUpdater.request_param_update',
             'cflib.crazyflie.param:_ParamUpdater.request_param_setvalue', 'cflib.crazyflie.param:_ParamUpdater.send_param_misc',
             'cflib.crazyflie.param:_ExtendedTypeFetcher.run', 'cflib.crazyflie.param:_ExtendedTypeFetcher._new_packet_cb',
             'cflib.crazyflie.param:_ExtendedTypeFetcher.request_extended_types', 'cflib.crazyflie.param:_ExtendedTypeFetcher._close',
             'cflib.crazyflie.toc:Toc.add_element', 'cflib.crazyflie.toc:Toc.get_element_by_complete_name',
             'cflib.crazyflie.toc:Toc.get_element_id', 'cflib.crazyflie.toc:Toc.get_element_by_id',
             'cflib.crazyflie:_IncomingPacketHandler.run', 'cflib.crazyflie:_IncomingPacketHandler.add_header_callback',
             'cflib.crazyflie:_IncomingPacketHandler.remove_header_callback', 'cflib.crazyflie:Crazyflie.send_packet',
             'cflib.utils.callbacks:Caller.call', 'cflib.crtp.crtpstack:CRTPPacket']
STUBS = ['threading.Thread.start/is_alive/join: no OS thread; _ParamUpdater.run and _ExtendedTypeFetcher.run are stepped as tasks '
         '(real run() left through Yield at Queue.get on an empty queue / Lock.acquire on a held lock; transactional get)',
         'cflib.crazyflie.param.Queue/Lock/Event replaced by FakeQueue/FakeLock/FakeEvent (vf/env/c04_env.py); Event.wait never '
         'blocks, it returns the flag',
         'cflib.crazyflie.param.TocFetcher replaced by a stub that installs the harness table through the real ParamTocElement '
         'constructor and calls the finished callback (the download is C03)',
         'ParamCF: MiniCF (real Crazyflie.send_packet, recording link) + the real _IncomingPacketHandler; one dispatcher '
         'iteration per delivered packet',
         'int.__str__/float.__str__ of a SYMBOLIC number modelled as an injective function (NumText; equal iff same number, '
         'for floats same IEEE value incl. sign of zero / both NaN); concrete replay uses the real strings',
         'persistent flags in attribution/serial harnesses set with ParamTocElement.mark_persistent() (the real fetch that sets '
         'them is checked by the exttype harnesses)', 'logging disabled']
ASSUMPTIONS = ['context switches only at blocking calls (Queue.get, Lock.acquire): user calls and the dispatch of one packet are '
               'atomic; hence k user threads = the merged call sequence, which is what serial[*] enumerates',
               'device side written from the CRTP parameter protocol as documented (firmware sources not in the sandbox): read '
               'reply id,status,value (V2) / id,value (V1); write reply id,value; misc replies command,id,...; the error reply '
               'to GET_DEFAULT_VALUE is exactly command,id,ENOENT (4 bytes); a one-byte default value 2 is byte-identical to '
               'that error reply, either reading of it is accepted',
               'the device answers requests in the order received; a reply may arrive a second time (request retransmitted on '
               'links that need resending) - a copy that is indistinguishable (channel, id, command) from the awaited reply '
               'counts as that reply',
               'the connection sequence (refresh_toc, request_update_of_all_params) has run before user requests: '
               '_ParamUpdater._useV2 is only refreshed by request_param_update',
               'parameter ids in one table are pairwise distinct; the three requests of the attribution harness address '
               'pairwise distinct parameters',
               'set_value gets an int for integer parameters and a float for float/double parameters']
OUTSIDE = ['real thread preemption between two bytecodes', 'set_value with str/bool/Decimal arguments, a float for an integer '
           'parameter (int() truncation) or an int for a float parameter (int->float conversion: solver unknown)', 'FP16 (type code 5) parameters other than the refusal of writes: their read replies '
           'raise inside the updater callback', 'error replies to read/write requests (device table differs from the TOC)',
           'misc requests on protocol V1 (not supported by the firmware)', 'user update-callbacks that raise',
           'set_value_raw names longer than the packet', 'close()/disconnect while requests are pending (C02/C10)',
           'two outstanding misc requests of the same command for the SAME parameter']
EXPLANATION = 'C04: real Param/_ParamUpdater/_ExtendedTypeFetcher behind the real dispatcher; symbolic type metadata, ids, ' \
              'protocol version, user values (ints of 71 bits / any double), device values (every bit pattern of the type), ' \
              'reply statuses, request kinds, schedule of calls / updater steps / replies / copies.'


# ------------------------------------------------------------------------------------------------ world
class World:
    """Real Param on a ParamCF; TOC installed through the real Param.refresh_toc (stub fetcher, real ParamTocElement)."""

    def __init__(self, sym, env, ver, table):
        self.sym, self.env = sym, env
        self.cf = E.ParamCF(ver)
        self.p = Param(self.cf)
        self.up = self.p.param_updater
        self.toc_done = 0
        E.FakeTocFetcher.table = [(ident, bytearray([meta]) + bytearray(names)) for ident, meta, names in table]

        def done():
            self.toc_done += 1
        self.p.refresh_toc(done, None)

    @property
    def sent(self):
        return self.cf.sent

    def fetch_all(self, v2, params):
        """The rest of the connection sequence: Param.request_update_of_all_params(), every read answered by the device.
        params: [(ident, value bytes)] in TOC order."""
        self.p.request_update_of_all_params()
        for ident, vbytes in params:
            n = len(self.sent)
            assert self.env.step(self.up) == 'yield' and len(self.sent) == n + 1, 'read request not sent'
            check_header(self.sent[n], CH_READ)
            assert list(self.sent[n].data) == E.ident_bytes(ident, v2), 'read request does not carry the parameter id'
            self.cf.deliver(E.packet(PORT_PARAM, CH_READ, bytearray(E.ident_bytes(ident, v2) + ([0] if v2 else []) + vbytes)))
        assert self.p.is_updated and not self.up.wait_lock.held


def check_header(pk, chan):
    assert pk.header == ((PORT_PARAM << 4) | 0x0c | chan), ('request on the wrong port/channel', pk.header)
    assert pk.port == PORT_PARAM and pk.channel == chan


# ------------------------------------------------------------------------------------------------ (a) typing
def h_typing(sym):
    with E.Env(sym.symbolic) as env:
        _typing(sym, env)


def _device_value(sym, code, name):
    """A symbolic value held by the device in firmware type `code` -> (number, its little-endian bytes)."""
    if code in E.INT_CODES:
        # every bit pattern of the type; the number is decoded by reference arithmetic (linear in the bytes: the 64-bit
        # obligation "unpack(bytes of dv) == dv" with div/mod terms was measured at 73 s per query)
        bs = sym.bytes(name + '_b', E.type_size(code))
        return E.int_from_bytes(code, bs), bs
    bs = sym.bytes(name + '_b', E.type_size(code))       # every float32/float64 bit pattern (NaN payloads, inf, subnormals)
    return E.float_from_bytes(code, bs), bs


def _typing(sym, env):
    code = sym.B['code']
    valkind = 'int' if code in E.INT_CODES else 'float'
    ver = sym.int('ver', 0, 10)
    v2 = bool(ver >= 4)                          # CRTP protocol version 4 introduced 16-bit parameter ids
    ident, oid, zid = sym.int('ident', 0, 65535), sym.int('other_ident', 0, 65535), sym.int('third_ident', 0, 65535)
    if not v2:
        sym.assume(ident <= 255 and oid <= 255 and zid <= 255)
    sym.assume(ident != oid and ident != zid and oid != zid)
    hi = sym.int('meta_hi', 0, 15)               # metadata bits 4..7: extended, (core), read-only, (group marker)
    sym.assume(hi % 2 == 0)                      # not extended here (extended-type fetch: harness exttype)
    ro = bool((hi // 4) % 2 == 1)
    pool = sym.B.get('value_pool')
    if pool:
        # boundary values made concrete by forking (solver-chosen among the pool): exercises conversions that a symbolic value
        # keeps opaque, e.g. a detour through float that rounds 64-bit values above 2^53
        value = pool[sym.choice('value_idx', len(pool))]
    else:
        value = sym.int('value', -(1 << 70), 1 << 70) if valkind == 'int' else sym.f64('value')
    sym.apply_known()

    tail = lambda g, n: (g + '\0' + n + '\0').encode('ISO-8859-1')      # noqa: E731
    w = World(sym, env, ver, [(ident, hi * 16 + code, tail('g', 'x')), (oid, 0x08, tail('g', 'y')),
                              (zid, 0x08, tail('h', 'z'))])
    p, cf, up = w.p, w.cf, w.up
    assert w.toc_done == 1
    calls = []
    p.add_update_callback(group='g', name='x', cb=lambda n, v: calls.append(('name', n, v)))
    p.add_update_callback(group='g', cb=lambda n, v: calls.append(('group', n, v)))
    p.add_update_callback(cb=lambda n, v: calls.append(('all', n, v)))
    p.add_update_callback(group='g', name='y', cb=lambda n, v: calls.append(('name-y', n, v)))
    p.add_update_callback(group='h', cb=lambda n, v: calls.append(('group-h', n, v)))
    all_updated = []
    p.all_updated.add_callback(lambda: all_updated.append(1))

    # ---- reads: the connection sequence asks for every parameter once
    p.request_update_of_all_params()
    dv, dv_bytes = _device_value(sym, code, 'dev_value')
    yv = sym.int('y_value', 0, 255)
    idents = {'g.x': ident, 'g.y': oid, 'h.z': zid}
    device = {'g.x': dv_bytes, 'g.y': [yv], 'h.z': [7]}
    order = ['g.x', 'g.y', 'h.z']
    for k, name in enumerate(order):
        assert not p.is_updated and not all_updated
        assert env.step(up) == 'yield'
        assert len(w.sent) == k + 1, 'read request not sent'
        pk = w.sent[k]
        check_header(pk, CH_READ)
        assert list(pk.data) == E.ident_bytes(idents[name], v2), 'read request does not carry the parameter id'
        assert env.step(up) == 'yield' and len(w.sent) == k + 1, 'next request sent before the reply'
        body = E.ident_bytes(idents[name], v2) + ([0] if v2 else []) + device[name]      # V2: status byte before the value
        cf.deliver(E.packet(PORT_PARAM, CH_READ, bytearray(body)))
    assert p.is_updated and all_updated == [1]
    exp = [(k, 'g.x', text(dv)) for k in ('name', 'group', 'all')] + \
          [(k, 'g.y', text(yv)) for k in ('group', 'all', 'name-y')] + [(k, 'h.z', '7') for k in ('all', 'group-h')]
    assert len(calls) == len(exp)
    assert sorted(c[:2] for c in calls) == sorted(e[:2] for e in exp), 'update callbacks invoked for the wrong parameter'
    for e in exp:
        assert [c for c in calls if c[:2] == e[:2]] == [e], ('update callback did not get the device value once', e[:2])
    assert p.values['g']['x'] == text(dv) and p.get_value('g.x') == text(dv), 'cached value differs from the device value'
    assert p.get_value('g.y') == text(yv) and p.get_value('h.z') == '7'
    sym.goal('read')

    # ---- write
    del calls[:]
    nput, nsent = len(up.request_queue.puts), len(w.sent)
    if code in E.INT_CODES:
        lo, hi_ = E.int_range(code)
        fits = bool(lo <= value <= hi_)
        ref = E.int_bytes(code, value) if fits else None
    else:
        try:
            ref = E.float_bytes(code, float(value))
        except OverflowError:                    # finite double (or int) beyond the float32/float64 range
            ref = None
    try:
        p.set_value('g.x', value)
        raised = None
    except Exception as e:                       # noqa: BLE001
        raised = e
    if ro or ref is None:
        if ro:
            assert isinstance(raised, AttributeError), 'write to a read-only parameter not refused'
            sym.goal('refused-ro')
        else:
            assert isinstance(raised, (struct.error, OverflowError)), 'out-of-range value not refused'
            sym.goal('refused-range')
        assert len(up.request_queue.puts) == nput and not up.request_queue.items, 'refused write was queued'
        assert env.step(up) == 'yield' and len(w.sent) == nsent, 'refused write was transmitted'
        assert p.get_value('g.x') == text(dv) and not calls
        return
    assert raised is None, ('representable value refused', type(raised).__name__)
    assert len(up.request_queue.puts) == nput + 1, 'not exactly one request queued'
    assert len(w.sent) == nsent, 'sent by the caller instead of the updater'
    assert env.step(up) == 'yield'
    assert len(w.sent) == nsent + 1
    pk = w.sent[nsent]
    check_header(pk, CH_WRITE)
    assert len(pk.data) == (2 if v2 else 1) + E.type_size(code)
    assert list(pk.data) == E.ident_bytes(ident, v2) + ref, 'write request is not id || value in the declared type'
    # the device stores the bytes and answers with id || stored value
    # (its number is the reference decoding of those bytes; that decoding inverts the reference encoding is arithmetic,
    # not a fact about cflib - asking the solver to re-prove it for 64-bit values costs 73 s per query)
    stored = E.int_from_bytes(code, ref) if code in E.INT_CODES else E.float_from_bytes(code, ref)
    cf.deliver(E.packet(PORT_PARAM, CH_WRITE, bytearray(E.ident_bytes(ident, v2) + ref)))
    exp = [(k, 'g.x', text(stored)) for k in ('name', 'group', 'all')]
    assert len(calls) == 3 and sorted(c[0] for c in calls) == ['all', 'group', 'name']
    for e in exp:
        assert [c for c in calls if c[0] == e[0]] == [e], ('update callback did not get the written value once', e[0])
    assert p.get_value('g.x') == text(stored), 'cached value differs from the device value after the write'
    assert p.get_value('g.y') == text(yv) and p.get_value('h.z') == '7', 'another parameter changed'
    assert not up.wait_lock.held and not up.request_queue.items
    sym.goal('written')
    if not v2:
        return
    # ---- unsolicited value-changed notification from the firmware (misc channel, V2 only): command, id, new value
    del calls[:]
    nv, nv_bytes = _device_value(sym, code, 'notified_value')
    cf.deliver(E.packet(PORT_PARAM, CH_MISC, bytearray([MISC_VALUE_UPDATED] + E.ident_bytes(ident, True) + nv_bytes)))
    assert len(calls) == 3
    for e in [(k, 'g.x', text(nv)) for k in ('name', 'group', 'all')]:
        assert [c for c in calls if c[0] == e[0]] == [e], ('update callback did not get the notified value once', e[0])
    assert p.get_value('g.x') == text(nv) and p.get_value('g.y') == text(yv) and p.get_value('h.z') == '7'
    assert not up.wait_lock.held and env.step(up) == 'yield' and len(w.sent) == nsent + 1
    sym.goal('notified')



def h_refuse(sym):
    with E.Env(sym.symbolic) as env:
        _refuse(sym, env)


def _refuse(sym, env):
    """Unknown names and the FP16 type code (no struct format): set_value raises, nothing is queued or sent."""
    which = sym.B['which']
    ver = sym.int('ver', 0, 10)
    v2 = bool(ver >= 4)
    ident = sym.int('ident', 0, 255)
    value = sym.int('value', -(1 << 70), 1 << 70) if sym.B.get('value', 'int') == 'int' else sym.f64('value')
    sym.apply_known()
    if which == 'fp16':
        w = World(sym, env, ver, [(ident, E.FP16_CODE, _TAIL('g', 'x'))])
        w.p._initialized.set()           # a table holding an FP16 entry never finishes the initial fetch (outside the claim)
        name = 'g.x'
    else:
        w = World(sym, env, ver, [(ident, 0x08, _TAIL('g', 'x'))])
        w.fetch_all(v2, [(ident, [1])])
        name = ['g.q', 'q.x', 'gx', 'g.x.y', ''][sym.choice('name', 5)]
    p, up = w.p, w.up
    nput, nsent = len(up.request_queue.puts), len(w.sent)
    try:
        p.set_value(name, value)
        raised = None
    except Exception as e:               # noqa: BLE001
        raised = e
    assert raised is not None, 'write to an unknown parameter / untyped parameter accepted'
    if which != 'fp16':
        assert isinstance(raised, KeyError)
    assert len(up.request_queue.puts) == nput and not up.request_queue.items, 'refused write was queued'
    assert env.step(up) == 'yield' and len(w.sent) == nsent, 'refused write was transmitted'
    sym.goal('refused')


_RAW_FMT = {0x08: 'B', 0x09: 'H', 0x0A: 'I', 0x0B: 'Q', 0x00: 'b', 0x01: 'h', 0x02: 'i', 0x03: 'q', 0x06: 'f', 0x07: 'd'}


def h_set_raw(sym):
    """Param.set_value_raw: set-by-name request = 0, group\\0, name\\0, type code, value in that type; sent at once."""
    with E.Env(sym.symbolic) as env:
        codes = sym.B['codes']
        code = codes[sym.choice('code', len(codes))]
        value = sym.int('value', -(1 << 70), 1 << 70) if code in E.INT_CODES else sym.f64('value')
        sym.apply_known()
        w = World(sym, env, 10, [])
        if code in E.INT_CODES:
            lo, hi = E.int_range(code)
            ref = E.int_bytes(code, value) if lo <= value <= hi else None
        else:
            try:
                ref = E.float_bytes(code, value)
            except OverflowError:
                ref = None
        try:
            w.p.set_value_raw('grp.nm', code, value)
            raised = None
        except Exception as e:           # noqa: BLE001
            raised = e
        if ref is None:
            assert isinstance(raised, (struct.error, OverflowError)) and not w.sent, 'out-of-range value not refused'
            sym.goal('refused-range')
            return
        assert raised is None and len(w.sent) == 1
        check_header(w.sent[0], CH_MISC)
        assert list(w.sent[0].data) == [0] + list(b'grp\0nm\0') + [code] + ref, 'set-by-name request malformed'
        sym.goal('sent')


_TAIL = lambda g, n: (g + '\0' + n + '\0').encode('ISO-8859-1')      # noqa: E731
_NAMES = {0x08: 'uint8', 0x09: 'uint16', 0x0A: 'uint32', 0x0B: 'uint64', 0x00: 'int8', 0x01: 'int16', 0x02: 'int32',
          0x03: 'int64', 0x06: 'float', 0x07: 'double'}

HARNESSES = [
    Harness(f'typing[{_NAMES[c]}]', h_typing, quick=dict(code=c), goals=('read', 'written', 'notified', 'refused-ro', 'refused-range'),
            timeout=(300, 900))
    for c in (0x08, 0x09, 0x0A, 0x0B, 0x00, 0x01, 0x02, 0x03)
] + [
    Harness(f'typing[{_NAMES[c]}]', h_typing, quick=dict(code=c), goals=('read', 'written', 'notified', 'refused-ro') +
            (('refused-range',) if c == 0x06 else ()), timeout=(300, 900), smt_timeout=1.5)
    for c in (0x06, 0x07)
] + [
    Harness(f'typing[{_NAMES[c]},boundary values]', h_typing,
            quick=dict(code=c, value_pool=[0, 1, -1, 255, 256, 65535, 65536, (1 << 31) - 1, 1 << 31, (1 << 32) - 1, 1 << 32, (1 << 53) + 1,
                                           (1 << 62) + 1, (1 << 63) - 1, 1 << 63, (1 << 64) - 1, 1 << 64, -(1 << 31), -(1 << 31) - 1,
                                           -(1 << 63), -(1 << 63) - 1, -(1 << 53) - 1]),
            goals=('written', 'refused-range'), timeout=(300, 900), symbolic=False,
            note='set value forked over boundary constants; idents, metadata and device values stay symbolic')
    for c in (0x0B, 0x03, 0x0A, 0x02)
] + [
    Harness('refuse[unknown name]', h_refuse, quick=dict(which='name'), goals=('refused',)),
    Harness('refuse[fp16]', h_refuse, quick=dict(which='fp16', value='float'), goals=('refused',)),
    Harness('set_raw[ints]', h_set_raw, quick=dict(codes=tuple(sorted(E.INT_CODES))), goals=('sent', 'refused-range')),
    Harness('set_raw[floats]', h_set_raw, quick=dict(codes=(0x06, 0x07)), goals=('sent', 'refused-range'), smt_timeout=1.5),
]


# ------------------------------------------------------------------------------------------------ (c) misc requests
STORE, GET_STATE, CLEAR, DEFAULT = MISC_PERSISTENT_STORE, MISC_PERSISTENT_GET_STATE, MISC_PERSISTENT_CLEAR, \
    MISC_GET_DEFAULT_VALUE
KINDS = (GET_STATE, STORE, CLEAR, DEFAULT)


def same_num(code, a, b):
    if code in E.INT_CODES:
        return a == b
    return E.same_float(a, b)


def issue_misc(p, kind, name, cb):
    if kind == GET_STATE:
        p.persistent_get_state(name, cb)
    elif kind == STORE:
        p.persistent_store(name, cb)
    elif kind == CLEAR:
        p.persistent_clear(name, cb)
    else:
        p.get_default_value(name, cb)


def misc_reply(sym, tag, kind, code, ident):
    """The firmware's answer to misc request (kind, ident) for a parameter of type `code`; status and values symbolic.
    -> (reply payload bytes, predicate on the callback argument)."""
    head = [kind] + E.ident_bytes(ident, True)
    if kind in (STORE, CLEAR):
        st = sym.int(tag + 'status', 0, 255)                 # 0 = done, anything else = errno
        return head + [st], lambda arg: (arg is True or arg is False or isinstance(arg, bool)) and bool(arg) == bool(st == 0)
    if kind == GET_STATE:
        st = sym.int(tag + 'state', 0, 2)                    # 0 not stored, 1 stored, 2 (ENOENT) no such persistent param
        if st == ENOENT:
            return head + [st], lambda arg: arg is None
        dflt, dbytes = _device_value(sym, code, tag + 'default')
        if st == 0:
            return head + [st] + dbytes, lambda arg: (arg is not None and len(arg) == 3 and not arg.is_stored and
                                                      same_num(code, arg.default_value, dflt) and arg.stored_value is None)
        stored, sbytes = _device_value(sym, code, tag + 'stored')
        return head + [st] + dbytes + sbytes, lambda arg: (arg is not None and len(arg) == 3 and bool(arg.is_stored) and
                                                           same_num(code, arg.default_value, dflt) and
                                                           same_num(code, arg.stored_value, stored))
    # default value: id || value, or id || ENOENT (4 bytes) when the parameter has none
    if sym.bool(tag + 'no_default'):
        return head + [ENOENT], lambda arg: arg is None
    dflt, dbytes = _device_value(sym, code, tag + 'default')
    if E.type_size(code) == 1:
        # protocol ambiguity, not cflib's: a one-byte default value 2 is byte-identical to the error reply
        return head + dbytes, lambda arg: (arg is None and bool(dbytes[0] == ENOENT)) or \
            (arg is not None and same_num(code, arg, dflt))
    return head + dbytes, lambda arg: arg is not None and same_num(code, arg, dflt)


def h_attr(sym):
    with E.Env(sym.symbolic) as env:
        _attr(sym, env)


def _attr(sym, env):
    N, code = sym.B['requests'], sym.B.get('code', 0x08)
    names = ['p.a', 'p.b', 'p.c', 'p.d'][:N]
    idents = [sym.int(f'ident{i}', 0, 65535) for i in range(N)]
    for i in range(N):
        for j in range(i):
            sym.assume(idents[i] != idents[j])
    same = sym.B.get('same')                 # all requests concern one parameter (a finished request must not see later answers)
    if same:
        names, idents = names[:1] * N, idents[:1] * N
    kinds = [KINDS[sym.choice(f'kind{i}', len(KINDS))] for i in range(N)]
    if 'kind0' in sym.B:
        sym.assume(kinds[0] == sym.B['kind0'])
    dup_of = sym.int('dup_of', 0, N - 1) if sym.B.get('dup') else None          # which reply arrives twice
    dup_at = sym.int('dup_at', 0, N - 1) if sym.B.get('dup') else None          # ... the copy after reply number dup_at
    if dup_of is not None:
        sym.assume(dup_at >= dup_of)
    sym.apply_known()
    M = 1 if same else N
    w = World(sym, env, 10, [(idents[i], code, _TAIL('p', names[i][2:])) for i in range(M)])
    p, cf, up = w.p, w.cf, w.up
    w.fetch_all(True, [(idents[i], [0] * E.type_size(code)) for i in range(M)])
    for n in names[:M]:
        p.toc.get_element_by_complete_name(n).mark_persistent()
    base = len(w.sent)
    now = {'reply': None}
    got = [[] for _ in range(N)]

    def mk(i):
        def cb(name, arg):
            got[i].append((now['reply'], name, arg))
        return cb
    for i in range(N):
        issue_misc(p, kinds[i], names[i], mk(i))
    assert len(w.sent) == base
    replies, preds = [], []
    for i in range(N):
        body, pred = misc_reply(sym, f'r{i}_', kinds[i], code, idents[i])
        replies.append(body)
        preds.append(pred)
    for i in range(N):
        assert env.step(up) == 'yield'
        assert len(w.sent) == base + i + 1, 'request not sent (or more than one sent)'
        pk = w.sent[base + i]
        check_header(pk, CH_MISC)
        assert list(pk.data) == [kinds[i]] + E.ident_bytes(idents[i], True), 'misc request is not command || id'
        now['reply'] = i
        cf.deliver(E.packet(PORT_PARAM, CH_MISC, bytearray(replies[i])))
        if dup_of is not None and dup_at == i:
            j = _pick(dup_of, i + 1)
            now['reply'] = ('copy', j)
            cf.deliver(E.packet(PORT_PARAM, CH_MISC, bytearray(replies[j])))
            sym.goal('duplicate')
    assert env.step(up) == 'yield' and len(w.sent) == base + N
    for i in range(N):
        assert len(got[i]) >= 1, ('callback of a request never invoked', i)
        assert [g[0] for g in got[i]] == [i], ('callback invoked by a reply that does not answer its request (or twice)',
                                               i, [g[0] for g in got[i]])
        assert got[i][0][1] == names[i]
        assert preds[i](got[i][0][2]), ('callback argument differs from what the device reported', i)
    assert not up.wait_lock.held and not up.request_queue.items
    sym.goal('answered')
    if any(kinds[i] == kinds[j] for i in range(N) for j in range(i)):
        sym.goal('same-command-twice')


def _pick(v, n):
    """Concrete value of a symbolic int in range(n) (forks)."""
    for a in range(n - 1):
        if v == a:
            return a
    return n - 1


_KN = {GET_STATE: 'get_state', STORE: 'store', CLEAR: 'clear', DEFAULT: 'default'}
HARNESSES += [
    Harness(f'attribution[{_KN[k]}..]', h_attr, quick=dict(requests=3, kind0=k), thorough=dict(requests=3, kind0=k, dup=True),
            timeout=(600, 2400), goals=('answered', 'same-command-twice'))
    for k in KINDS
] + [
    Harness('attribution[one parameter]', h_attr, quick=dict(requests=3, same=True), thorough=dict(requests=4, same=True),
            timeout=(600, 2400), goals=('answered', 'same-command-twice'),
            note='all requests concern the same parameter: every answer reaches the one request it answers, finished requests none'),
] + [
    Harness(f'misc_typing[{_NAMES[c]}]', h_attr, quick=dict(requests=1, code=c), timeout=(300, 900), goals=('answered',),
            smt_timeout=(1.5 if c in E.FLOAT_CODES else None))
    for c in _NAMES
]


# ------------------------------------------------------------------------------------------------ extended types
def h_exttype(sym):
    with E.Env(sym.symbolic) as env:
        _exttype(sym, env)


def _fetcher_of(cf):
    from cflib.crazyflie.param import _ExtendedTypeFetcher
    fs = [c.callback.__self__ for c in cf.incoming.cb if isinstance(getattr(c.callback, '__self__', None), _ExtendedTypeFetcher)]
    assert len(fs) == 1
    return fs[0]


def _exttype(sym, env):
    N = sym.B['extended']
    idents = [sym.int(f'ident{i}', 0, 65535) for i in range(N + 1)]
    for i in range(N + 1):
        for j in range(i):
            sym.assume(idents[i] != idents[j])
    ext = [sym.int(f'ext_type{i}', 0, 255) for i in range(N)]
    notif = sym.B.get('notify')
    if notif:
        n_at = sym.int('notify_at', 0, N - 1)            # a value-changed notification arrives while request n_at is open
        n_id = sym.int('notify_ident', 0, 65535)
        n_val = sym.int('notify_value', 0, 255)
        sym.assume(any(n_id == x for x in idents))        # the firmware notifies about parameters it has
    sym.apply_known()
    names = ['e.a', 'e.b', 'e.c', 'e.d'][:N]
    table = [(idents[i], 0x08 + 0x10, _TAIL('e', names[i][2:])) for i in range(N)] + [(idents[N], 0x08, _TAIL('q', 'plain'))]
    w = World(sym, env, 10, table)
    cf, p = w.cf, w.p
    f = _fetcher_of(cf)
    assert w.toc_done == 0, 'TOC reported complete before the extended types were fetched'
    for i in range(N):
        assert env.step(f) == 'yield'
        assert len(w.sent) == i + 1, 'extended-type request not sent, or sent before the previous one was answered'
        check_header(w.sent[i], CH_MISC)
        assert list(w.sent[i].data) == [MISC_GET_EXTENDED_TYPE] + E.ident_bytes(idents[i], True)
        assert env.step(f) == 'yield' and len(w.sent) == i + 1
        if notif and n_at == i:
            cf.deliver(E.packet(PORT_PARAM, CH_MISC, bytearray([MISC_VALUE_UPDATED] + E.ident_bytes(n_id, True) + [n_val])))
            sym.goal('notified')
            if n_id == idents[i]:
                sym.goal('notified-about-the-open-request')
            assert len(w.sent) == i + 1 and (env.step(f), len(w.sent)) == ('yield', i + 1), \
                'next request sent although the open one is not answered'
        assert w.toc_done == 0, 'TOC reported complete although an extended-type request is still unanswered'
        cf.deliver(E.packet(PORT_PARAM, CH_MISC, bytearray([MISC_GET_EXTENDED_TYPE] + E.ident_bytes(idents[i], True) + [ext[i]])))
    assert w.toc_done == 1, 'completion not reported exactly once after the last answer'
    for i in range(N):
        el = p.toc.get_element_by_complete_name(names[i])
        assert bool(el.is_persistent()) == bool(ext[i] == EXT_PERSISTENT), ('persistent flag differs from the device answer', i)
    assert not p.toc.get_element_by_complete_name('q.plain').is_persistent()
    assert env.step(f) == 'yield' and len(w.sent) == N and not f._lock.held and not f.request_queue.items
    if any(bool(e == EXT_PERSISTENT) for e in ext):
        sym.goal('persistent')


HARNESSES += [
    Harness('exttype', h_exttype, quick=dict(extended=3), thorough=dict(extended=4), timeout=(300, 900), goals=('persistent',)),
    Harness('exttype[notify]', h_exttype, quick=dict(extended=2, notify=True), thorough=dict(extended=3, notify=True),
            timeout=(300, 900), goals=('persistent', 'notified', 'notified-about-the-open-request')),
]


# ------------------------------------------------------------------------------------------------ (b) serialisation
SET, READ, MISC = 'set', 'read', 'misc'
REQ_KINDS = (SET, READ, MISC)


def h_serial(sym):
    with E.Env(sym.symbolic) as env:
        _serial(sym, env)


def _serial(sym, env):
    """Requests (set / read / persistent_store on one of two uint8 parameters) are issued at solver-chosen points between
    updater steps and reply deliveries.  User calls never block (they put on an unbounded queue), so under the stated
    context-switch bound each call is atomic and k user threads produce exactly the histories of the merged call sequence:
    the harness enumerates the merged sequence (every kind and target per position) and every position of each call relative
    to the updater's steps and the arrival of the replies."""
    N = sym.B['requests']
    dups = sym.B.get('dups', 0)
    notify = sym.B.get('notify', 0)
    eager = sym.B.get('issue_first', False)
    ids = [sym.int('ident_x', 0, 65535), sym.int('ident_y', 0, 65535)]
    sym.assume(ids[0] != ids[1])
    names = ['g.x', 'g.y']
    kinds, targets, setvals = [], [], []
    for k in range(N):
        fixed = sym.B.get(f'kind{k}')             # the check is split over the kinds of the first request(s) to run in parallel
        kinds.append(fixed if fixed is not None else REQ_KINDS[sym.choice(f'kind{k}', 3)])
        targets.append(0 if k == 0 else sym.choice(f'target{k}', 2))       # symmetry: the first request goes to x
        setvals.append(sym.int(f'value{k}', 0, 255))
    dev = [sym.int('x0', 0, 255), sym.int('y0', 0, 255)]                  # values held by the device
    sym.apply_known()
    w = World(sym, env, 10, [(ids[0], 0x08, _TAIL('g', 'x')), (ids[1], 0x08, _TAIL('g', 'y'))])
    p, cf, up = w.p, w.cf, w.up
    w.fetch_all(True, [(ids[0], [dev[0]]), (ids[1], [dev[1]])])
    for n in names:
        p.toc.get_element_by_complete_name(n).mark_persistent()
    base_sent, base_put = len(w.sent), len(up.request_queue.puts)
    stored_cb = []
    reported = [dev[0], dev[1]]          # last value the device reported per parameter (what the cache must show)

    issued = 0
    answered = []                        # per request on the wire: has a reply that answers it arrived since?
    wire = []                            # (channel, key bytes) of requests on the wire, in order
    inflight = []                        # replies produced by the device, not yet delivered: (request index, packet)
    copies = []                          # delivered replies that may arrive once more: (request index, packet)
    ndup = 0
    nnotif = 0

    def key_of(k):
        t = ids[targets[k]]
        if kinds[k] == SET:
            return CH_WRITE, E.ident_bytes(t, True)
        if kinds[k] == READ:
            return CH_READ, E.ident_bytes(t, True)
        return CH_MISC, [MISC_PERSISTENT_STORE] + E.ident_bytes(t, True)

    def on_wire():
        """The device receives what the updater has just sent; checks order and the one-at-a-time rule."""
        while len(wire) < len(w.sent) - base_sent:
            k = len(wire)
            pk = w.sent[base_sent + k]
            assert k < issued and pk is up.request_queue.puts[base_put + k], 'wire order differs from issue order'
            assert all(answered), ('request sent while an earlier one is still unanswered', k, list(answered))
            chan, key = key_of(k)
            check_header(pk, chan)
            t = targets[k]
            if kinds[k] == SET:
                assert list(pk.data) == key + [setvals[k]]
                dev[t] = setvals[k]
                body = key + [dev[t]]
            elif kinds[k] == READ:
                assert list(pk.data) == key
                body = key + [0, dev[t]]
            else:
                assert list(pk.data) == key
                body = key + [0]
            wire.append((chan, key))
            answered.append(False)
            inflight.append((k, (chan, list(body)), dev[t]))

    def deliver(j, raw, val):
        chan, body = raw
        pk = E.packet(PORT_PARAM, chan, bytearray(body))        # a fresh packet per arrival (the updater edits packets in place)
        # which open request does this packet answer?  (same channel, same id, same command: a copy of an earlier reply
        # that is indistinguishable from the awaited one counts as the answer - no implementation could tell them apart)
        for k in range(len(wire)):
            if not answered[k] and wire[k][0] == chan and list(pk.data[:len(wire[k][1])]) == wire[k][1]:
                answered[k] = True
                if chan != CH_MISC:
                    reported[targets[k]] = val
                break
        cf.deliver(pk)

    if sym.B.get('fast'):
        # the device answers so fast that the receiver thread dispatches the reply while the updater is still inside the
        # driver's (blocking) send_packet: a legal interleaving of the two threads
        link = cf.link
        plain_send = link.send_packet

        def send_and_answer(pk):
            plain_send(pk)
            on_wire()
            if inflight:
                j, raw, val = inflight.pop(0)
                deliver(j, raw, val)
                copies.append((j, raw, val))
                sym.goal('answered-during-send')
        link.send_packet = send_and_answer
    for t in range(4 * N + dups + notify + 2):
        on_wire()
        ev = []
        if issued < N:
            ev.append('issue')
        if not eager or issued == N:
            if up.request_queue.items and not up.wait_lock.held:
                ev.append('updater')
            if inflight:
                ev.append('reply')
            if copies and ndup < dups:
                ev.append('copy')
            if nnotif < notify:
                ev.append('notify')
        if not ev:
            break
        e = ev[_pick(sym.int(f'ev{t}', 0, len(ev) - 1), len(ev))] if len(ev) > 1 else ev[0]
        if e == 'issue':
            k = issued
            issued += 1
            nq = len(up.request_queue.puts)
            if kinds[k] == SET:
                p.set_value(names[targets[k]], setvals[k])
            elif kinds[k] == READ:
                p.request_param_update(names[targets[k]])
            else:
                p.persistent_store(names[targets[k]], lambda n, ok, k=k: stored_cb.append((k, n, ok)))
            assert len(up.request_queue.puts) == nq + 1
        elif e == 'updater':
            n = len(w.sent)
            assert env.step(up) == 'yield'
            if sym.B.get('fast'):
                assert len(w.sent) >= n + 1, 'updater did not send a request'       # answered in-send: it goes straight on to the next
            else:
                assert len(w.sent) == n + 1, 'updater did not send exactly one request'
        elif e == 'reply':
            j, pk, val = inflight.pop(0)
            deliver(j, pk, val)
            copies.append((j, pk, val))
        elif e == 'copy':
            ndup += 1
            c = copies[_pick(sym.int(f'copy{ndup}', 0, len(copies) - 1), len(copies))] if len(copies) > 1 else copies[0]
            j, pk, val = c
            o = len(wire) - 1
            if wire and not answered[o] and targets[j] == targets[o] and {kinds[j], kinds[o]} == {SET, READ}:
                sym.goal('copy-with-the-id-of-the-open-request-on-another-channel')
            deliver(j, pk, val)
            sym.goal('duplicate')
        else:
            nnotif += 1
            tgt = sym.choice(f'notify_target{nnotif}', 2)
            val = sym.int(f'notify_value{nnotif}', 0, 255)
            dev[tgt] = val
            reported[tgt] = val
            cf.deliver(E.packet(PORT_PARAM, CH_MISC, bytearray([MISC_VALUE_UPDATED] + E.ident_bytes(ids[tgt], True) + [val])))
            sym.goal('notified')
    else:
        raise Inconclusive('event bound too small')
    on_wire()
    assert issued == N and len(wire) == N, 'a request was never sent'
    assert all(answered) and not inflight
    assert not up.wait_lock.held, 'wait_lock still held at the end'
    assert not up.request_queue.items
    # (with copies too: `reported` follows the packets that answer an open request under the same lenient matching)
    for i in (0, 1):
        assert p.get_value(names[i]) == text(reported[i]), 'cached value differs from the last value the device reported'
    ms = [k for k in range(N) if kinds[k] == MISC]
    assert sorted(c[0] for c in stored_cb) == ms, 'persistent_store callback not invoked exactly once per request'
    if N >= 2 and any(kinds[k] != kinds[0] for k in range(N)):
        sym.goal('mixed-kinds')
    sym.goal('done')


HARNESSES += [
    Harness(f'serial[schedule,{k0}..]', h_serial, quick=dict(requests=3, kind0=k0), tiers=('quick',), timeout=(600, 600),
            goals=('done', 'mixed-kinds'))
    for k0 in REQ_KINDS
] + [
    Harness(f'serial[schedule,{k0},{k1}..]', h_serial, quick=dict(requests=4, kind0=k0, kind1=k1), tiers=('thorough',),
            timeout=(3000, 3000), goals=('done', 'mixed-kinds'))
    for k0 in REQ_KINDS for k1 in REQ_KINDS
] + [
    Harness(f'serial[copies,{k0}..]', h_serial, quick=dict(requests=3, dups=1, issue_first=True, kind0=k0),
            thorough=dict(requests=3, dups=2, issue_first=True, kind0=k0), timeout=(600, 3000),
            goals=('done', 'duplicate', 'copy-with-the-id-of-the-open-request-on-another-channel'))
    for k0 in REQ_KINDS
] + [
    Harness('serial[fast answers]', h_serial, quick=dict(requests=3, fast=True), thorough=dict(requests=4, fast=True), timeout=(600, 1800),
            goals=('answered-during-send',), note='every reply is dispatched while the sender is still inside the driver\'s send_packet'),
    Harness('serial[notify]', h_serial, quick=dict(requests=2, notify=1), thorough=dict(requests=3, notify=1, issue_first=True),
            timeout=(600, 3000), goals=('done', 'notified')),
]
