"""C04 Parameter writes and reads are typed correctly and never cross-attributed."""
import errno
import struct

from vf.harness import Harness
from vf.explore import Inconclusive
from vf.env import c04_env as E
from vf.env.c04_env import text
from cflib.crazyflie.param import Param, ParamTocElement

PORT_PARAM = 2
CH_TOC, CH_READ, CH_WRITE, CH_MISC = 0, 1, 2, 3
MISC_VALUE_UPDATED, MISC_GET_EXTENDED_TYPE, MISC_PERSISTENT_STORE, MISC_PERSISTENT_GET_STATE, MISC_PERSISTENT_CLEAR, \
    MISC_GET_DEFAULT_VALUE = 1, 2, 3, 4, 5, 6
EXT_PERSISTENT = 1
ENOENT = errno.ENOENT

FUNCTIONS = []
STUBS = []
ASSUMPTIONS = []
OUTSIDE = []
EXPLANATION = ''


# ------------------------------------------------------------------------------------------------ world
class World:
    """Real Param on a ParamCF; TOC installed through the real Param.refresh_toc (stub fetcher, real ParamTocElement)."""

    def __init__(self, sym, env, ver, table):
        self.sym, self.env = sym, env
        self.cf = E.ParamCF(ver)
        self.p = Param(self.cf)
        self.up = self.p.param_updater
        self.toc_done = 0
        E.FakeTocFetcher.table = [(ident, bytearray([meta]) + bytearray(names)) for ident, meta, names in table]

        def done():
            self.toc_done += 1
        self.p.refresh_toc(done, None)

    @property
    def sent(self):
        return self.cf.sent


def check_header(pk, chan):
    assert pk.header == ((PORT_PARAM << 4) | 0x0c | chan), ('request on the wrong port/channel', pk.header)
    assert pk.port == PORT_PARAM and pk.channel == chan


# ------------------------------------------------------------------------------------------------ (a) typing
def h_typing(sym):
    with E.Env(sym.symbolic) as env:
        _typing(sym, env)


def _device_value(sym, code, name):
    """A symbolic value held by the device in firmware type `code` -> (number, its little-endian bytes)."""
    if code in E.INT_CODES:
        # every bit pattern of the type; the number is decoded by reference arithmetic (linear in the bytes: the 64-bit
        # obligation "unpack(bytes of dv) == dv" with div/mod terms was measured at 73 s per query)
        bs = sym.bytes(name + '_b', E.type_size(code))
        return E.int_from_bytes(code, bs), bs
    if code == 0x06:
        bs = sym.bytes(name + '_b', 4)           # every float32 bit pattern (NaN payloads, inf, subnormals)
        return E.float_from_bytes(code, bs), bs
    dv = sym.f64(name)
    return dv, E.float_bytes(code, dv)


def _typing(sym, env):
    code = sym.B['code']
    valkind = sym.B.get('value', 'int' if code in E.INT_CODES else 'float')
    ver = sym.int('ver', 0, 10)
    v2 = bool(ver >= 4)                          # CRTP protocol version 4 introduced 16-bit parameter ids
    ident, oid, zid = sym.int('ident', 0, 65535), sym.int('other_ident', 0, 65535), sym.int('third_ident', 0, 65535)
    if not v2:
        sym.assume(ident <= 255 and oid <= 255 and zid <= 255)
    sym.assume(ident != oid and ident != zid and oid != zid)
    hi = sym.int('meta_hi', 0, 15)               # metadata bits 4..7: extended, (core), read-only, (group marker)
    sym.assume(hi % 2 == 0)                      # not extended here (extended-type fetch: harness exttype)
    ro = bool((hi // 4) % 2 == 1)
    value = sym.int('value', -(1 << 70), 1 << 70) if valkind == 'int' else sym.f64('value')
    sym.apply_known()

    tail = lambda g, n: (g + '\0' + n + '\0').encode('ISO-8859-1')      # noqa: E731
    w = World(sym, env, ver, [(ident, hi * 16 + code, tail('g', 'x')), (oid, 0x08, tail('g', 'y')),
                              (zid, 0x08, tail('h', 'z'))])
    p, cf, up = w.p, w.cf, w.up
    assert w.toc_done == 1
    calls = []
    p.add_update_callback(group='g', name='x', cb=lambda n, v: calls.append(('name', n, v)))
    p.add_update_callback(group='g', cb=lambda n, v: calls.append(('group', n, v)))
    p.add_update_callback(cb=lambda n, v: calls.append(('all', n, v)))
    p.add_update_callback(group='g', name='y', cb=lambda n, v: calls.append(('name-y', n, v)))
    p.add_update_callback(group='h', cb=lambda n, v: calls.append(('group-h', n, v)))
    all_updated = []
    p.all_updated.add_callback(lambda: all_updated.append(1))

    # ---- reads: the connection sequence asks for every parameter once
    p.request_update_of_all_params()
    dv, dv_bytes = _device_value(sym, code, 'dev_value')
    yv = sym.int('y_value', 0, 255)
    idents = {'g.x': ident, 'g.y': oid, 'h.z': zid}
    device = {'g.x': dv_bytes, 'g.y': [yv], 'h.z': [7]}
    order = ['g.x', 'g.y', 'h.z']
    for k, name in enumerate(order):
        assert not p.is_updated and not all_updated
        assert env.step(up) == 'yield'
        assert len(w.sent) == k + 1, 'read request not sent'
        pk = w.sent[k]
        check_header(pk, CH_READ)
        assert list(pk.data) == E.ident_bytes(idents[name], v2), 'read request does not carry the parameter id'
        assert env.step(up) == 'yield' and len(w.sent) == k + 1, 'next request sent before the reply'
        body = E.ident_bytes(idents[name], v2) + ([0] if v2 else []) + device[name]      # V2: status byte before the value
        cf.deliver(E.packet(PORT_PARAM, CH_READ, bytearray(body)))
    assert p.is_updated and all_updated == [1]
    exp = [(k, 'g.x', text(dv)) for k in ('name', 'group', 'all')] + \
          [(k, 'g.y', text(yv)) for k in ('group', 'all', 'name-y')] + [(k, 'h.z', '7') for k in ('all', 'group-h')]
    assert len(calls) == len(exp)
    assert sorted(c[:2] for c in calls) == sorted(e[:2] for e in exp), 'update callbacks invoked for the wrong parameter'
    for e in exp:
        assert [c for c in calls if c[:2] == e[:2]] == [e], ('update callback did not get the device value once', e[:2])
    assert p.values['g']['x'] == text(dv) and p.get_value('g.x') == text(dv), 'cached value differs from the device value'
    assert p.get_value('g.y') == text(yv) and p.get_value('h.z') == '7'
    sym.goal('read')

    # ---- write
    del calls[:]
    nput, nsent = len(up.request_queue.puts), len(w.sent)
    if code in E.INT_CODES:
        lo, hi_ = E.int_range(code)
        fits = bool(lo <= value <= hi_)
        ref = E.int_bytes(code, value) if fits else None
    else:
        try:
            ref = E.float_bytes(code, float(value))
        except OverflowError:                    # finite double (or int) beyond the float32/float64 range
            ref = None
    try:
        p.set_value('g.x', value)
        raised = None
    except Exception as e:                       # noqa: BLE001
        raised = e
    if ro or ref is None:
        if ro:
            assert isinstance(raised, AttributeError), 'write to a read-only parameter not refused'
            sym.goal('refused-ro')
        else:
            assert isinstance(raised, (struct.error, OverflowError)), 'out-of-range value not refused'
            sym.goal('refused-range')
        assert len(up.request_queue.puts) == nput and not up.request_queue.items, 'refused write was queued'
        assert env.step(up) == 'yield' and len(w.sent) == nsent, 'refused write was transmitted'
        assert p.get_value('g.x') == text(dv) and not calls
        return
    assert raised is None, ('representable value refused', type(raised).__name__)
    assert len(up.request_queue.puts) == nput + 1, 'not exactly one request queued'
    assert len(w.sent) == nsent, 'sent by the caller instead of the updater'
    assert env.step(up) == 'yield'
    assert len(w.sent) == nsent + 1
    pk = w.sent[nsent]
    check_header(pk, CH_WRITE)
    assert len(pk.data) == (2 if v2 else 1) + E.type_size(code)
    assert list(pk.data) == E.ident_bytes(ident, v2) + ref, 'write request is not id || value in the declared type'
    # the device stores the bytes and answers with id || stored value
    if code in E.INT_CODES:
        stored = value
    else:
        stored = E.float_from_bytes(code, ref)
    cf.deliver(E.packet(PORT_PARAM, CH_WRITE, bytearray(E.ident_bytes(ident, v2) + ref)))
    exp = [(k, 'g.x', text(stored)) for k in ('name', 'group', 'all')]
    assert len(calls) == 3 and sorted(c[0] for c in calls) == ['all', 'group', 'name']
    for e in exp:
        assert [c for c in calls if c[0] == e[0]] == [e], ('update callback did not get the written value once', e[0])
    assert p.get_value('g.x') == text(stored), 'cached value differs from the device value after the write'
    assert p.get_value('g.y') == text(yv) and p.get_value('h.z') == '7', 'another parameter changed'
    assert not up.wait_lock.held and not up.request_queue.items
    sym.goal('written')


_NAMES = {0x08: 'uint8', 0x09: 'uint16', 0x0A: 'uint32', 0x0B: 'uint64', 0x00: 'int8', 0x01: 'int16', 0x02: 'int32',
          0x03: 'int64', 0x06: 'float', 0x07: 'double'}

HARNESSES = [
    Harness(f'typing[{_NAMES[c]}]', h_typing, quick=dict(code=c), goals=('read', 'written', 'refused-ro', 'refused-range'),
            timeout=(300, 900))
    for c in (0x08, 0x09, 0x0A, 0x0B, 0x00, 0x01, 0x02, 0x03)
] + [
    Harness(f'typing[{_NAMES[c]}]', h_typing, quick=dict(code=c), goals=('read', 'written', 'refused-ro') +
            (('refused-range',) if c == 0x06 else ()), timeout=(300, 900), smt_timeout=1.5)
    for c in (0x06, 0x07)
]
