"""C01 Radio link delivers every packet exactly once, in order, despite loss.

The real radio thread body (`_RadioDriverThread.run`, created by the real `RadioDriver.connect`) is run synchronously
against a fake Crazyradio whose `send_packet` hands every transmitted frame to a *peer model* under a solver-chosen
per-transmission outcome (delivered+acked / uplink lost / delivered but ack lost).

Oracle = `Peer`, the nRF51/STM side of the link written from the safelink protocol (crazyflie2-nrf-firmware esb.c
semantics; the firmware sources are not in the sandbox, see DESIGN 1.5):
  * a 3-byte frame ff 05 xx on the null port enables safelink (xx != 0), resets both one-bit counters to 1 and is echoed;
  * with safelink an uplink frame is accepted iff its header bit 3 differs from the bit of the last accepted frame;
  * the current downlink frame (a queued packet, or a null/RSSI packet f3|bits 01 rssi when nothing is queued) is
    retransmitted until a received uplink frame carries a header bit 2 different from the one the current downlink
    frame is labelled with; then the next one is taken and labelled with the new bit (variant idle=empty: when
    nothing is queued the ack payload is empty and nothing is outstanding; the next queued packet is labelled with
    the bit 2 the host shows at that time);
  * without safelink every delivered frame is taken and every ack carries the next queued packet (lost with the ack).
The session ends with a concrete "flush" tail of acknowledged transmissions, so that the bounded form of "every
accepted packet reaches the other side exactly once" is an equality, not just a prefix relation.
"""
import queue as _queue

from vf.harness import Harness
from vf.explore import Inconclusive
import cflib.crtp.radiodriver as rd
import cflib.crtp.radio_link_statistics as rls
from cflib.crtp.crtpstack import CRTPPacket
from cflib.drivers.crazyradio import _radio_ack

FUNCTIONS = ['cflib.drivers.crazyradio:Crazyradio.send_packet', 'cflib.crtp.radiodriver:_SharedRadio.run', 'cflib.crtp.radiodriver:_SharedRadioInstance.send_packet',
             'cflib.crtp.radiodriver:_RadioDriverThread.run', 'cflib.crtp.radiodriver:_RadioDriverThread._send_packet_safe',
             'cflib.crtp.radiodriver:_RadioDriverThread.__init__', 'cflib.crtp.radiodriver:RadioDriver.connect',
             'cflib.crtp.radiodriver:RadioDriver.parse_uri', 'cflib.crtp.radiodriver:RadioDriver.send_packet',
             'cflib.crtp.radiodriver:RadioDriver.receive_packet', 'cflib.crtp.radiodriver:set_retries_before_disconnect',
             'cflib.drivers.crazyradio:_radio_ack', 'cflib.crtp.crtpstack:CRTPPacket',
             'cflib.crtp.radio_link_statistics:RadioLinkStatistics']
STUBS = ['threading.Thread.start/join (no OS thread): the real _RadioDriverThread.run() is called synchronously; the fake radio '
         'sets thread._sp after the last scripted transmission so that run() returns',
         'RadioManager.open returns the fake Crazyradio (send_packet -> peer model + outcome; set_channel/address/data_rate/arc recorded)',
         'time.sleep in radiodriver and time.time in radio_link_statistics served by a virtual clock (+30 ms per reading); the real '
         'RadioLinkStatistics.update runs (its numpy RSSI average sees concrete numbers only: the RSSI byte of null packets is concrete)',
         'the name `queue` in radiodriver is bound to a shim whose Queue is a real queue.Queue subclass in which waits expire '
         'immediately (virtual time): put() on the full size-1 out_queue raises Full at once (models the 2 s time-out), get() on an '
         'empty queue raises Empty at once', 'logging disabled']
ASSUMPTIONS = ['peer behaves as the Peer model in vf/props/c01.py (written from the safelink protocol): it computes the ack payload after '
               'it has seen the frame it acknowledges; while nothing is queued it sends a null/RSSI packet (firmware behaviour) or, in '
               'harness loss-idle-empty, an empty ack payload',
               'application packets and queued downlink packets are not null packets, i.e. (port, channel) != (15, 3)',
               'the application submits packets / the firmware queues downlink packets while the radio thread is inside the USB '
               'call of transmission i (any instant between two dequeue operations is equivalent to one of these)',
               'a packet refused by RadioDriver.send_packet (returns False, out_queue full) is not part of the submitted sequence',
               'retry budget: whether un-acked start-up (negotiation) attempts count is left open: where link errors are asserted no two '
               'start-up attempts in a row go un-acked and the last one is acked',
               'the session ends with max(m, d)+2 acknowledged transmissions (flush), after which delivery must be complete']
OUTSIDE = ['more transmissions / packets than the bound; payload lengths other than the fixed 0..2 (symbolic) and 0..30 (concrete) ones',
           'exceptions raised by the USB dongle (the except arm of run() re-uses the previous ackStatus)',
           'a peer that enabled safelink while every echo was lost (host falls back to plain mode, peer then rejects frames)',
           'preemption of the radio thread other than at the USB call; RadioManager reference counting (open/close of dongles) -- the shared '
           'dongle thread itself is covered by shared_radio; rate-limit timing',
           'null packets handed to the application through in_queue (they are filtered out before comparing)']
EXPLANATION = 'C01: real RadioDriver.connect + _RadioDriverThread.run executed against a safelink peer model with symbolic ' \
              'per-transmission outcomes, packet bytes, submission times, negotiation replies and retry budget.'

ACKED, UPLOST, ACKLOST = 0, 1, 2
NEG = (0xff, 0x05, 0x01)
RSSI = 0x2c


# ------------------------------------------------------------------------------------------------ environment
class _Clock:
    def __init__(self):
        self.reset()

    def reset(self):
        self.now = 1000.0
        self.slept = []

    def time(self):
        self.now += 0.03
        return self.now

    def sleep(self, s):
        self.slept.append(s)
        self.now += s


class _VQueue(_queue.Queue):
    """queue.Queue in virtual time: a wait that cannot be satisfied now expires at once."""
    def put(self, item, block=True, timeout=None):
        return _queue.Queue.put(self, item, False)

    def get(self, block=True, timeout=None):
        return _queue.Queue.get(self, False)


class _QueueModule:
    Queue = _VQueue
    Empty = _queue.Empty
    Full = _queue.Full


_CLOCK = _Clock()
_CURRENT = {'radio': None}
rd.time = _CLOCK
rls.time = _CLOCK
rd.queue = _QueueModule
rd.RadioManager.open = staticmethod(lambda devid: _CURRENT['radio'])


class FakeRadio:
    version = 0.53

    def __init__(self, world):
        self.world = world
        self.cfg = []

    def set_channel(self, c):
        self.cfg.append(('channel', c))

    def set_data_rate(self, d):
        self.cfg.append(('datarate', d))

    def set_address(self, a):
        self.cfg.append(('address', tuple(a)))

    def set_arc(self, n):
        self.cfg.append(('arc', n))

    def close(self):
        self.cfg.append(('close',))

    def send_packet(self, data):
        return self.world.transmit(data)


def _ack(ok, data=(), retry=0):
    a = _radio_ack()
    a.ack = ok
    a.data = tuple(data)
    a.retry = retry
    return a


# ------------------------------------------------------------------------------------------------ oracle: the peer
class Peer:
    def __init__(self, capable=True, idle='rssi'):
        self.capable = capable       # firmware knows the safelink service packet
        self.idle = idle             # safelink ack payload when nothing is queued: 'rssi' null packet (firmware) | 'empty'
        self.safelink = False
        self.up_bit = 1              # bit 3 of the last accepted uplink frame
        self.down_bit = 1            # bit 2 labelling the current downlink frame
        self.current = None          # None: nothing yet; 'svc'; 'null'; int index into self.queue
        self.queue = []              # downlink packets queued so far: dict(h=port<<4|chan, data=tuple, b3=None|bit)
        self.taken = 0               # queue entries that have become `current` so far
        self.accepted = []           # (header & 0xF3, payload) of every non-null frame taken from the air, in order
        self.events = []             # ('accept'|'dup'|'null', t): uplink frames; ('down-again', t): queued packet repeated
        self.n_plain_empty = 0

    def queue_down(self, item):
        self.queue.append(item)

    @staticmethod
    def _is_null(frame):
        return (frame[0] & 0xF3) == 0xF3

    def _take(self, frame, t):
        if self._is_null(frame):
            self.events.append(('null', t))
        else:
            self.accepted.append((frame[0] & 0xF3, tuple(frame[1:])))
            self.events.append(('accept', t))

    def _next(self):
        if self.taken < len(self.queue):
            self.taken += 1
            return self.taken - 1
        return 'null'

    def on_frame(self, frame, t):
        """A frame arrived over the air; returns the ack payload."""
        if self.capable and len(frame) == 3 and self._is_null(frame) and frame[1] == 0x05:
            self.safelink = frame[2] != 0
            self.up_bit = 1
            self.down_bit = 1
            self.current = 'svc'
            self.svc = tuple(frame)
            return self.svc
        if not self.safelink:
            self._take(frame, t)
            nxt = self._next()
            if nxt == 'null':
                # old firmware: empty ack, or an RSSI null packet; both occur (alternating)
                self.n_plain_empty += 1
                return () if self.n_plain_empty % 2 else (0xFF, 0x01, RSSI)
            it = self.queue[nxt]
            return (it['h'] + 0x0C,) + tuple(it['data'])
        up = (frame[0] >> 3) & 1
        dn = (frame[0] >> 2) & 1
        if up != self.up_bit:
            self.up_bit = 1 - self.up_bit
            self._take(frame, t)
        elif not self._is_null(frame):
            self.events.append(('dup', t))
        if dn != self.down_bit:
            # the host shows a new bit 2: it has seen the current downlink frame; the next one is labelled with the new bit
            self.down_bit = 1 - self.down_bit
            self.current = None
        elif isinstance(self.current, int):
            self.events.append(('down-again', t))
        if self.current is None:
            nxt = self._next()
            if nxt == 'null' and self.idle == 'empty':
                return ()                  # nothing outstanding, nothing to label
            self.current = nxt
        bits = self.down_bit << 2
        if self.current == 'svc':
            return self.svc
        if self.current == 'null':
            return (0xF3 | bits | (self.up_bit << 3), 0x01, RSSI)
        it = self.queue[self.current]
        b3 = self.up_bit if it.get('b3') is None else it['b3']
        return (it['h'] + bits + b3 * 8,) + tuple(it['data'])    # h = port*16 + channel has bits 2,3 clear


# ------------------------------------------------------------------------------------------------ the scripted world
class World:
    """Fake dongle + air + peer + concurrent application/firmware activity for one session."""
    def __init__(self, peer, outcomes, neg, on_tx):
        self.peer = peer
        self.outcomes = outcomes      # per data transmission: ACKED / UPLOST / ACKLOST (symbolic or concrete ints)
        self.neg = neg                # neg(i, frame) -> ack object for start-up attempt i
        self.on_tx = on_tx            # on_tx(t): what the other threads / the firmware do during transmission t
        self.t = 0
        self.frames = []              # data frames as transmitted
        self.kinds = []               # concrete outcome per data transmission
        self.acks = []                # payload handed back to the driver per data transmission (None = no ack)
        self.neg_frames = []
        self.thread = None
        self.errors = []              # (transmissions done so far, message)
        self.stats = []

    def link_error(self, msg):
        self.errors.append((self.t, msg))

    def stats_cb(self, d):
        self.stats.append(d)

    def transmit(self, data):
        frame = list(data)
        if self.t == 0 and len(frame) == 3 and (frame[0] & 0xF3) == 0xF3 and frame[1] == 0x05:
            i = len(self.neg_frames)
            self.neg_frames.append(tuple(frame))
            return self.neg(i, frame)
        t = self.t
        if t >= len(self.outcomes):
            raise Inconclusive('radio loop transmitted after the stop flag was set')
        self.t += 1
        self.frames.append(frame)
        self.on_tx(t)
        o = self.outcomes[t]
        kind = ACKED if o == ACKED else (UPLOST if o == UPLOST else ACKLOST)
        self.kinds.append(kind)
        if t == len(self.outcomes) - 1:
            self.thread._sp = True
        if kind == UPLOST:
            self.acks.append(None)
            return _ack(False, (), retry=3)
        reply = self.peer.on_frame(frame, t)
        if kind == ACKLOST:
            self.acks.append(None)
            return _ack(False, (), retry=3)
        self.acks.append(tuple(reply))
        return _ack(True, reply, retry=t % 3)


def neg_via_peer(peer, script):
    """Start-up attempts answered by the peer under a concrete script of outcomes."""
    def neg(i, frame):
        kind = script[i] if i < len(script) else ACKED
        if kind == UPLOST:
            return _ack(False, (), retry=3)
        reply = peer.on_frame(frame, -1)
        if kind == ACKLOST:
            return _ack(False, (), retry=3)
        return _ack(True, reply)
    return neg


def open_link(world, uri='radio://0/80/2M', retries=None):
    """The real RadioDriver.connect (fake dongle underneath); returns the driver, thread not yet run."""
    _CLOCK.reset()
    _CURRENT['radio'] = FakeRadio(world)
    rd.set_retries_before_disconnect(100 if retries is None else retries)   # also overwrites whatever an aborted path left
    drv = rd.RadioDriver()
    drv.connect(uri, world.stats_cb, world.link_error)
    world.thread = drv._thread
    world.drv = drv
    return drv


def run_link(world):
    try:
        world.thread.run()
    finally:
        rd.set_retries_before_disconnect(100)     # never leave a (possibly symbolic) value in the module global


def up_packet(port, chan, payload):
    pk = CRTPPacket()
    pk.set_header(port, chan)
    pk.data = list(payload)
    return pk


class App:
    """Application side: submits packets through RadioDriver.send_packet, drains RadioDriver.receive_packet."""
    def __init__(self, world, pkts, submit_at=None, down=(), down_at=None):
        self.world = world
        self.pkts = pkts                  # [(port, chan, payload)]
        self.submit_at = submit_at        # None: eager (as soon as the out queue has room); else concrete index per packet
        self.down = list(down)
        self.down_at = down_at or [0] * len(self.down)
        self.nxt = 0
        self.submitted = []               # indices accepted by send_packet, in order
        self.refused = []
        self.received = []
        self.n_down = 0

    def on_tx(self, t):
        drv = self.world.drv
        for j, it in enumerate(self.down):
            if self.down_at[j] == t:
                self.world.peer.queue_down(it)
        if self.submit_at is None:
            while self.nxt < len(self.pkts) and not drv.out_queue.full():
                self._send(self.nxt)
                self.nxt += 1
        else:
            for j in range(len(self.pkts)):
                if self.submit_at[j] == t:
                    self._send(j)
        self.drain(0 if t % 2 else 0.05)

    def _send(self, j):
        ok = self.world.drv.send_packet(up_packet(*self.pkts[j]))
        (self.submitted if ok else self.refused).append(j)

    def drain(self, wait=0):
        while True:
            pk = self.world.drv.receive_packet(wait)
            if pk is None:
                return
            self.received.append(pk)


def not_null(pk):
    return (pk.header & 0xF3) != 0xF3


def check_delivery(sym, world, app, complete=True):
    """Exactly-once in-order delivery in both directions (safelink sessions)."""
    peer = world.peer
    want_up = [(app.pkts[j][0] * 16 + app.pkts[j][1], tuple(app.pkts[j][2])) for j in app.submitted]
    got_up = peer.accepted
    assert len(got_up) <= len(want_up), ('peer accepted more packets than were submitted (duplicate)', len(got_up))
    assert got_up == want_up[:len(got_up)], ('uplink sequence is not a prefix of the submitted one', got_up, want_up)
    if complete:
        assert len(got_up) == len(want_up), ('submitted packet never reached the peer', len(got_up), len(want_up))
    app.drain()
    got_down = [pk for pk in app.received if not_null(pk)]
    want_down = app.down
    assert len(got_down) <= len(want_down), ('receive_packet returned more packets than the peer queued', len(got_down))
    for pk, it in zip(got_down, want_down):
        assert pk.port == it['port'] and pk.channel == it['chan'], 'downlink port/channel changed or out of order'
        assert (pk.header & 0xF3) == it['h'], 'downlink header changed'
        assert tuple(pk.data) == tuple(it['data']), 'downlink payload changed or out of order'
    if complete:
        assert len(got_down) == len(want_down), ('queued downlink packet never came out of receive_packet',
                                                 len(got_down), len(want_down))
    ev = [e for e, _ in peer.events]
    if 'dup' in ev and 'accept' in ev:
        sym.goal('uplink-duplicate-rejected')
    if 'down-again' in ev:
        sym.goal('downlink-retransmitted')
    if got_up and got_down:
        sym.goal('delivered')


def expected_errors(kinds, R):
    """Transmission counts at which 'Too many packets lost' is due: the R-th consecutive un-acked transmission."""
    out = []
    run = 0
    for t, k in enumerate(kinds):
        if k == ACKED:
            run = 0
        else:
            run += 1
            if run == R:
                out.append(t + 1)
    return out


def check_errors(sym, world, R):
    lost = [t for t, msg in world.errors if msg == 'Too many packets lost']
    other = [msg for t, msg in world.errors if msg != 'Too many packets lost' and not msg.startswith('RadioDriver: Could not send')]
    assert not other, ('unexpected link error', other)
    want = expected_errors(world.kinds, R)
    assert lost == want, ('link error reports', lost, 'expected after transmissions', want)
    if want:
        sym.goal('link-error')


def flush_len(m, d):
    return max(m, d) + 2


CONCRETE_UP = [(2, 1, (0x11, 0x22)), (5, 0, ()), (13, 3, tuple(range(1, 31))), (15, 0, (0xEE,))]


def down_packet(port, chan, data, b3=None):
    return dict(port=port, chan=chan, h=port * 16 + chan, data=tuple(data), b3=b3)


CONCRETE_DOWN = [down_packet(5, 2, (0xA1,)), down_packet(15, 1, ()), down_packet(0, 0, (0x41, 0x42, 0x0A)),
                 down_packet(2, 3, tuple(range(30, 0, -1)))]


# ------------------------------------------------------------------------------------------------ harnesses
def h_loss(sym):
    """Every loss pattern over k transmissions; concrete packets; eager application; peer-driven negotiation in which
    the first attempt is lost and the echo of the second is lost (the peer resets its counters twice)."""
    k, m, d = sym.B['k'], sym.B['m'], sym.B['d']
    outcomes = [sym.int(f'o{i}', 0, 2) for i in range(k)] + [ACKED] * flush_len(m, d)
    sym.apply_known()
    peer = Peer(idle=sym.B.get('idle', 'rssi'))
    app = App(None, CONCRETE_UP[:m], down=CONCRETE_DOWN[:d], down_at=[0, 2, 2, 3][:d])
    world = World(peer, outcomes, neg_via_peer(peer, [UPLOST, ACKLOST, ACKED]), app.on_tx)
    app.world = world
    drv = open_link(world)
    run_link(world)
    assert len(world.neg_frames) == 3 and drv.needs_resending is False
    check_delivery(sym, world, app)
    assert not world.errors, world.errors          # default budget (100) cannot be exhausted within the bound
    _check_retransmission(sym, world)


def _check_retransmission(sym, world):
    """While a transmission is not acknowledged the same frame goes out again, sequence bits included."""
    for t in range(len(world.frames) - 1):
        if world.kinds[t] != ACKED:
            assert world.frames[t + 1] == world.frames[t], ('un-acked frame was not retransmitted unchanged', t)
            if len(world.frames[t]) > 1:
                sym.goal('retransmission')


def _few_losses(sym, k, nloss):
    """k outcomes, at most nloss of them not ACKED, positions and kinds chosen by the solver."""
    out = [ACKED] * k
    prev = -1
    for i in range(nloss):
        p = prev + 1 + sym.choice(f'loss{i}_at', k - prev)       # prev+1 .. k ; k means "no further loss"
        if p >= k:
            break
        out[p] = UPLOST if sym.choice(f'loss{i}_kind', 2) == 0 else ACKLOST
        prev = p
    return out


def _sym_packet(sym, name, n):
    code = sym.int(f'{name}_pc', 0, 62)                            # (port, channel) != (15, 3)
    return code // 4, code % 4, tuple(sym.int(f'{name}_b{i}', 0, 255) for i in range(n))


def h_data(sym):
    """Symbolic (port, channel) and payload bytes in both directions; at most `losses` lost transmissions."""
    k, m, d = sym.B['k'], sym.B['m'], sym.B['d']
    ups = [_sym_packet(sym, f'up{j}', (2, 0, 1)[j % 3]) for j in range(m)]
    downs = []
    for j in range(d):
        port, chan, data = _sym_packet(sym, f'dn{j}', (1, 0, 2)[j % 3])
        downs.append(down_packet(port, chan, data, b3=sym.int(f'dn{j}_bit3', 0, 1)))
    outcomes = _few_losses(sym, k, sym.B['losses']) + [ACKED] * flush_len(m, d)
    sym.apply_known()
    peer = Peer()
    app = App(None, ups, down=downs)
    world = World(peer, outcomes, neg_via_peer(peer, [ACKED]), app.on_tx)
    app.world = world
    drv = open_link(world)
    run_link(world)
    assert drv.needs_resending is False
    check_delivery(sym, world, app)
    _check_retransmission(sym, world)


def _nondecreasing(sym, name, n, hi):
    out = []
    lo = 0
    for j in range(n):
        lo = lo + sym.choice(f'{name}{j}', hi - lo + 1)
        out.append(lo)
    return out


def h_timing(sym):
    """When the application submits (which=up) / the firmware queues (which=down) relative to the radio loop is chosen
    by the solver; a submission into the full size-1 queue is refused by send_packet and is not part of the claim."""
    k, m, d = sym.B['k'], sym.B['m'], sym.B['d']
    submit_at = down_at = None
    if sym.B['which'] == 'up':
        submit_at = _nondecreasing(sym, 'submit_at', m, k)
        down_at = [0, 1, 3][:d]
    else:
        down_at = _nondecreasing(sym, 'down_at', d, k)
    outcomes = _few_losses(sym, k, sym.B['losses']) + [ACKED] * flush_len(m, d)
    sym.apply_known()
    peer = Peer()
    app = App(None, CONCRETE_UP[:m], submit_at=submit_at, down=CONCRETE_DOWN[:d], down_at=down_at)
    world = World(peer, outcomes, neg_via_peer(peer, [ACKED]), app.on_tx)
    app.world = world
    open_link(world, uri='radio://0/80/2M/E7E7E7E701?rate_limit=200')
    run_link(world)
    check_delivery(sym, world, app)
    assert _CLOCK.slept, 'rate limit pause never taken'
    for j in app.refused:
        sym.goal('send-refused')
    assert len(app.submitted) + len(app.refused) == m
    assert not [msg for _, msg in world.errors if msg == 'Too many packets lost']


def h_neg(sym):
    """Start-up: a window of consecutive attempts (symbolic start) gets arbitrary replies, the others get no ack.
    Safelink must be used afterwards iff one of the replies actually seen was the exact echo."""
    win, after = sym.B['window'], sym.B['after']
    start = sym.choice('start', 10 - win + 1)
    kinds = [sym.int(f'neg{i}_kind', 0, 4) for i in range(win)]
    data3 = [[sym.int(f'neg{i}_b{j}', 0, 255) for j in range(3)] for i in range(win)]
    extra = [sym.int(f'neg{i}_x', 0, 255) for i in range(win)]
    sym.apply_known()
    state = {'echo': False, 'attempts': 0}
    peer = Peer()

    def neg(i, frame):
        state['attempts'] += 1
        if not start <= i < start + win:
            return _ack(False, (), retry=3)
        w = i - start
        kd = kinds[w]
        if kd == 0:
            return _ack(False, (), retry=3)                      # no ack
        if kd == 1:                                              # three arbitrary bytes (the echo is one of them)
            if data3[w][0] == NEG[0] and data3[w][1] == NEG[1] and data3[w][2] == NEG[2]:
                state['echo'] = True
                peer.on_frame(list(NEG), -1)                     # the echo comes from a peer that switched safelink on
            return _ack(True, data3[w])
        if kd == 2:
            return _ack(True, (extra[w],))                       # shorter
        if kd == 3:
            return _ack(True, NEG + (extra[w],))                 # echo followed by one more byte
        return _ack(True, ())                                    # acked, empty payload
    m, d = 2, 1
    app = App(None, CONCRETE_UP[:m], down=CONCRETE_DOWN[:d])
    world = World(peer, [ACKED] * (after + flush_len(m, d)), neg, app.on_tx)
    app.world = world
    drv = open_link(world)
    assert drv.needs_resending is True                            # before start-up nothing has been confirmed
    run_link(world)
    assert all(f == NEG for f in world.neg_frames)
    assert state['attempts'] == len(world.neg_frames)
    if state['echo']:
        sym.goal('safelink')
        assert drv.needs_resending is False, 'safelink confirmed but needs_resending still set'
        for t in range(1, len(world.frames)):            # every transmission here is acked with a non-empty payload
            a, b = world.frames[t - 1][0], world.frames[t][0]
            assert (a ^ b) & 0x0C == 0x0C, ('sequence bits 2/3 not toggling after an acknowledged transmission', t, a, b)
        check_delivery(sym, world, app)
    else:
        sym.goal('no-safelink')
        assert drv.needs_resending is True, 'safelink not confirmed but needs_resending cleared'
        _check_plain(sym, world, app, complete=True)


def h_restart(sym):
    """pause() / restart() on one RadioDriver: whether safelink is used (and hence whether the layers above must retransmit)
    follows the LATEST start-up negotiation, not an earlier one."""
    first = True if sym.bool('first_confirms') else False
    second = True if sym.bool('second_confirms') else False

    def session(confirms, drv=None):
        peer = Peer(capable=confirms)
        app = App(None, CONCRETE_UP[:1], down=CONCRETE_DOWN[:1])
        world = World(peer, [ACKED] * (2 + flush_len(1, 1)), neg_via_peer(peer, [ACKED]), app.on_tx)
        app.world = world
        if drv is None:
            drv = open_link(world)
        else:
            drv._radio.world = world
            drv.restart()
            world.thread = drv._thread
            world.drv = drv
        run_link(world)
        return drv, world, app
    drv, w1, a1 = session(first)
    assert drv.needs_resending is (not first), 'first session: needs_resending does not follow the negotiation'
    drv.pause()
    assert drv._thread is None
    drv, w2, a2 = session(second, drv)
    assert drv.needs_resending is (not second), 'after restart: needs_resending does not follow the latest negotiation'
    if second:
        check_delivery(sym, w2, a2)
    if first and not second:
        sym.goal('safelink-lost-on-restart')
    if second and not first:
        sym.goal('safelink-gained-on-restart')


def _raw(p):
    port, chan, data = p
    return [port * 16 + 0x0C + chan] + list(data)


def _check_plain(sym, world, app, complete):
    """No safelink: frames go out untouched, the frame of an un-acked transmission is repeated, every acked frame is
    followed by the next submitted packet (or a null frame), every ack payload goes to the application once."""
    want = [_raw(app.pkts[j]) for j in app.submitted]
    runs = []                                                    # one entry per acknowledged frame
    for t, f in enumerate(world.frames):
        if t and world.kinds[t - 1] != ACKED:
            assert f == world.frames[t - 1], ('un-acked frame was not retransmitted unchanged', t)
            if len(f) > 1:
                sym.goal('retransmission')
        if world.kinds[t] == ACKED:
            runs.append(f)
    sent = [f for f in runs if f != [0xFF]]
    assert sent == want[:len(sent)], ('frames differ from the submitted packets', sent, want)
    if complete:
        assert len(sent) == len(want)
    # at-least-once at the peer: collapsing the repeats of one frame gives the same sequence
    app.drain()
    got = [(pk.header, tuple(pk.data)) for pk in app.received]
    exp = [(a[0] | 0x0C, tuple(a[1:])) for a in world.acks if a]
    assert got == exp, ('ack payloads handed to the application', got, exp)


def h_retry(sym):
    """Retry budget R (symbolic, through set_retries_before_disconnect) against every outcome pattern."""
    k, safelink = sym.B['k'], sym.B['safelink']
    R = sym.int('R', 1, sym.B['rmax'])
    outcomes = [sym.int(f'o{i}', 0, sym.B['kinds'] - 1) for i in range(k)] + [ACKED, UPLOST, ACKED]
    sym.apply_known()
    peer = Peer(capable=safelink)
    m, d = 1, 1
    app = App(None, CONCRETE_UP[:m], down=CONCRETE_DOWN[:d])
    world = World(peer, outcomes, neg_via_peer(peer, [ACKED]), app.on_tx)
    app.world = world
    drv = open_link(world, retries=R)
    run_link(world)
    assert drv.needs_resending is (not safelink)
    check_errors(sym, world, R)
    if any(x == ACKED for x in world.kinds[:k]) and world.errors:
        sym.goal('count-restarted')


def h_plain(sym):
    """Peer without safelink: all 10 start-up attempts fail; plain retransmit semantics under every loss pattern."""
    k, m, d, R = sym.B['k'], sym.B['m'], sym.B['d'], sym.B['R']
    outcomes = [sym.int(f'o{i}', 0, 2) for i in range(k)] + [ACKED] * flush_len(m, d)
    sym.apply_known()
    peer = Peer(capable=False)
    app = App(None, CONCRETE_UP[:m], down=CONCRETE_DOWN[:d], down_at=[0, 2, 2, 3][:d])
    world = World(peer, outcomes, neg_via_peer(peer, [UPLOST, ACKED, ACKLOST, ACKED]), app.on_tx)
    app.world = world
    drv = open_link(world, retries=R)
    run_link(world)
    assert drv.needs_resending is True
    _check_plain(sym, world, app, complete=True)
    check_errors(sym, world, R)
    # exactly-once is NOT claimed here; at-least-once in order is: collapse what the peer saw
    seen = []
    for x in world.peer.accepted:
        if not seen or seen[-1] != x:
            seen.append(x)
    assert seen == [(p[0] * 16 + p[1], tuple(p[2])) for p in (app.pkts[j] for j in app.submitted)]
    if len(world.peer.accepted) > len(seen):
        sym.goal('duplicate-without-safelink')


G_DELIVERY = ('delivered', 'retransmission', 'uplink-duplicate-rejected', 'downlink-retransmitted')
# ---------------------------------------------------------------------------------------------------------------------
# The shared dongle: several links (_SharedRadioInstance) funnel their transmissions through one _SharedRadio thread.  The
# radio loop of C01 judges "acknowledged / lost / downlink payload" from what instance.send_packet returns, so every call must
# be answered with the outcome of ITS OWN transmission, made with ITS OWN channel / address / data rate -- however slow the
# dongle thread is (a timed wait anywhere on the way may run out before the answer exists).

class _Expired(Exception):
    pass


def h_shared_radio(sym):
    from vf.explore import Yield
    K = sym.B['calls']
    log = []                 # transmissions as the dongle saw them: (channel, address, rate, data)

    class FakeDongle:
        version = 0.53

        def __init__(self, devid=0):
            self.ch = self.addr = self.dr = None

        def set_channel(self, c):
            self.ch = c

        def set_address(self, a):
            self.addr = tuple(a)

        def set_data_rate(self, d):
            self.dr = d

        def set_arc(self, arc):
            pass

        def send_packet(self, data):
            log.append((self.ch, self.addr, self.dr, tuple(data)))
            ack = _radio_ack()
            ack.ack = True
            ack.data = (len(log),)           # identifies the transmission this answer belongs to
            return ack

        def close(self):
            pass
    state = {'shared': None, 'slow': False}

    class HQueue(_queue.Queue):
        """queue.Queue whose waiting is under harness control: a consumer that would wait lets the dongle thread take steps; a
        TIMED wait marked slow runs out first (the answer arrives afterwards, time being what it is)."""
        def get(self, block=True, timeout=None):
            if self.empty() and block:
                sh = state['shared']
                if sh is not None and self is sh._cmd_queue:
                    raise Yield()                      # the dongle thread has nothing to do: leave its loop body
                if timeout is not None and state['slow']:
                    state['slow'] = False
                    raise _queue.Empty
                for _ in range(4):
                    try:
                        sh.run()
                    except Yield:
                        pass
                    if not self.empty():
                        break
                assert not self.empty(), 'no answer from the dongle thread: the caller waits for ever'
            return _queue.Queue.get(self, False)
    saved = (rd.Queue, rd.Crazyradio)
    rd.Queue, rd.Crazyradio = HQueue, FakeDongle
    try:
        sh = rd._SharedRadio(0)
        state['shared'] = sh
        inst = [sh.open_instance(), sh.open_instance()]
        cfg = [(10, (1, 2, 3, 4, 5), 0), (90, (0xE7,) * 5, 2)]
        for i in (0, 1):
            inst[i].set_channel(cfg[i][0])
            inst[i].set_address(cfg[i][1])
            inst[i].set_data_rate(cfg[i][2])
        for k in range(K):
            who = sym.choice(f'who{k}', 2)
            state['slow'] = True if sym.bool(f'slow{k}') else False
            data = (0x3C, k, sym.int(f'b{k}', 0, 255))
            before = len(log)
            try:
                ack = inst[who].send_packet(list(data))
            except _queue.Empty:
                ack = None
            # a late answer exists by the time the caller comes back
            try:
                sh.run()
            except Yield:
                pass
            mine = [n + 1 for n in range(before, len(log)) if log[n][3] == data]
            assert len(log) == before + 1 and len(mine) == 1, 'one call of send_packet is one transmission of its data'
            assert log[before][:3] == cfg[who], 'transmission made with the radio settings of another link'
            if ack is not None:
                assert tuple(ack.data) == (mine[0],), 'send_packet returned the outcome of another transmission'
                sym.goal('answered')
            else:
                sym.goal('wait-ran-out')      # reported to the radio loop as "no answer": allowed, as long as later answers are not shifted
        if K >= 2:
            sym.goal('two-links-interleaved')
    finally:
        rd.Queue, rd.Crazyradio = saved



def h_dongle_ack(sym):
    """Crazyradio.send_packet (USB layer): the status byte and payload the dongle returns decode to the acknowledgement the radio
    loop judges by -- acknowledged = bit 0, power detector = bit 1, retries = high nibble, payload = the remaining bytes; a zero
    status byte means no acknowledgement (retries = the configured maximum); a USB error means no answer (None)."""
    import os
    import usb
    from cflib.drivers.crazyradio import Crazyradio
    os.environ.pop('CRTP_PCAP_LOG', None)
    n = sym.choice('reply_len', 5)              # 0: USB error; otherwise status byte + n-1 payload bytes
    status = sym.int('status', 0, 255)
    payload = [sym.int(f'p{i}', 0, 255) for i in range(max(n - 1, 0))]
    arc = sym.int('arc', 0, 15)
    out = [sym.int('o0', 0, 255), sym.int('o1', 0, 255)]
    written = []

    class Handle:
        def write(self, endpoint, data, timeout):
            written.append((endpoint, list(data)))

        def read(self, endpoint, size, timeout):
            assert endpoint == 0x81 and size >= 33
            if n == 0:
                raise usb.USBError('timeout')
            return [status] + payload
    cr = Crazyradio.__new__(Crazyradio)
    cr.handle, cr.arc, cr.devid, cr.current_address, cr.current_channel = Handle(), arc, 0, (0xE7,) * 5, 80
    ack = cr.send_packet(list(out))
    assert written == [(1, out)], 'the packet is written once, unchanged, to the OUT endpoint'
    if n == 0:
        assert ack is None, 'a USB error is reported as "no answer"'
        sym.goal('usb-error')
        return
    assert ack is not None
    if status == 0:
        assert ack.ack is False and ack.retry == arc and len(ack.data) == 0, 'zero status byte: not acknowledged'
        sym.goal('not-acknowledged')
    else:
        assert ack.ack == (status % 2 == 1), 'acknowledged flag is bit 0 of the status byte'
        assert ack.powerDet == ((status // 2) % 2 == 1), 'power detector flag is bit 1'
        assert ack.retry == status // 16, 'retry count is the high nibble'
        assert list(ack.data) == payload, 'downlink payload is everything after the status byte'
        sym.goal('acknowledged' if status % 2 else 'status-without-ack')



HARNESSES = [
    Harness('dongle_ack', h_dongle_ack, goals=('usb-error', 'not-acknowledged', 'acknowledged', 'status-without-ack'), timeout=(120, 300)),
    Harness('shared_radio', h_shared_radio, quick=dict(calls=3), thorough=dict(calls=5), timeout=(200, 900),
            goals=('answered', 'two-links-interleaved'),
            note='two links on one dongle; which link sends and whether a timed wait runs out are solver choices'),
    Harness('restart', h_restart, goals=('safelink-lost-on-restart', 'safelink-gained-on-restart'), symbolic=False, timeout=(120, 300)),
    # concern 1: every loss pattern, concrete packets
    Harness('loss', h_loss, quick=dict(k=6, m=2, d=2), thorough=dict(k=9, m=3, d=3), timeout=(280, 1700), goals=G_DELIVERY),
    Harness('loss-idle-empty', h_loss, quick=dict(k=6, m=2, d=2, idle='empty'), thorough=dict(k=8, m=3, d=3, idle='empty'),
            timeout=(280, 1700), goals=G_DELIVERY, note='peer variant: empty ack payload while nothing is queued'),
    # concern 2: every header / payload value, few losses
    Harness('data', h_data, quick=dict(k=6, m=2, d=2, losses=2), thorough=dict(k=7, m=3, d=3, losses=3), timeout=(280, 1700),
            goals=G_DELIVERY),
    # concern 3: when packets are submitted / queued relative to the loop
    Harness('timing-up', h_timing, quick=dict(k=5, m=2, d=2, losses=1, which='up'),
            thorough=dict(k=6, m=3, d=2, losses=2, which='up'), timeout=(280, 1700),
            goals=('delivered', 'send-refused', 'uplink-duplicate-rejected')),
    Harness('timing-down', h_timing, quick=dict(k=5, m=2, d=2, losses=1, which='down'),
            thorough=dict(k=6, m=2, d=3, losses=2, which='down'), timeout=(280, 1700),
            goals=('delivered', 'downlink-retransmitted')),
    # concern 4: start-up negotiation
    Harness('negotiation', h_neg, quick=dict(window=2, after=3), thorough=dict(window=3, after=4), timeout=(280, 1700),
            goals=('safelink', 'no-safelink', 'delivered')),
    # concern 5: retry budget
    Harness('retry', h_retry, quick=dict(k=5, kinds=3, rmax=4, safelink=True), thorough=dict(k=7, kinds=3, rmax=4, safelink=True),
            timeout=(280, 1700), goals=('link-error', 'count-restarted')),
    Harness('retry-plain', h_retry, quick=dict(k=7, kinds=2, rmax=4, safelink=False),
            thorough=dict(k=10, kinds=2, rmax=4, safelink=False), timeout=(280, 1700), goals=('link-error', 'count-restarted')),
    # no-safelink variant: plain retransmission
    Harness('plain', h_plain, quick=dict(k=6, m=2, d=2, R=2), thorough=dict(k=8, m=3, d=3, R=3), timeout=(280, 1700),
            goals=('retransmission', 'link-error', 'duplicate-without-safelink')),
]
