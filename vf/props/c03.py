"""C03 Downloaded log and parameter tables equal the device tables.

Oracle: the device side of the CRTP TOC protocol (vf/env/c03_env.py: info / item replies of both protocol
generations, log reset, parameter extended-type query) and the type-code tables below, written from the protocol
(log: 1..8 = uint8,uint16,uint32,int8,int16,int32,float,FP16; param: bits 0-1 size, bit 2 float, bit 3 unsigned,
0x10 extended, 0x40 read-only).  The library side is the real TocFetcher / Toc / LogTocElement / ParamTocElement /
Log.refresh_toc / Param.refresh_toc / _ExtendedTypeFetcher, dispatched by the real _IncomingPacketHandler.

Harnesses
  step-item[*]   inductive step of TocFetcher._new_packet_cb in state GET_TOC_ELEMENT from an arbitrary state
                 satisfying the representation invariant (table size up to 65535 / 255: covers 255/256 and beyond)
  step-info[*]   the GET_TOC_INFO step (size 0, cache hit, first request)
  download[*]    log / param download from refresh_toc to the done callback, table size symbolic 0..N, duplicated
                 replies (multiplicity 1..2 per request) or one delayed duplicate of an earlier reply
  boundary[*]    one download with a concrete table of 255 (legacy) / 257 (current) entries
  decode[*]      element decoding over all type codes, attribute bits, name bytes and lengths
  exttype        _ExtendedTypeFetcher persistence marking with symbolic idents and foreign replies

Names that end up as keys of Toc.toc (step-item, download, boundary) are picked by the solver from short fixed lists of
sharing patterns (same group / same name in another group / unrelated): the engine can only hash concrete strings
(a symbolic key would be enumerated value by value).  All name bytes and lengths are covered by decode[*], where the
element never enters a dictionary.
"""
from vf.harness import Harness
from vf.env.base import step
from vf.env import c03_env as E
from vf.env.c03_env import CF3, MissCache, TocDevice, Entry, packet, clone, PORT_LOG, PORT_PARAM
from cflib.crazyflie.toc import Toc, TocFetcher, GET_TOC_INFO, GET_TOC_ELEMENT
from cflib.crazyflie.log import Log, LogTocElement
from cflib.crazyflie.param import Param, ParamTocElement, _ExtendedTypeFetcher

FUNCTIONS = ['cflib.crazyflie.platformservice:PlatformService._crt_service_callback', 'cflib.crazyflie.platformservice:PlatformService._platform_callback',
             'cflib.crazyflie.toc:TocFetcher.start', 'cflib.crazyflie.toc:TocFetcher._new_packet_cb',
             'cflib.crazyflie.toc:TocFetcher._request_toc_element', 'cflib.crazyflie.toc:TocFetcher._toc_fetch_finished',
             'cflib.crazyflie.toc:Toc', 'cflib.crazyflie.log:LogTocElement.__init__',
             'cflib.crazyflie.log:LogTocElement.get_cstring_from_id', 'cflib.crazyflie.log:LogTocElement.get_unpack_string_from_id',
             'cflib.crazyflie.log:Log.refresh_toc', 'cflib.crazyflie.log:Log._new_packet_cb',
             'cflib.crazyflie.param:ParamTocElement.__init__', 'cflib.crazyflie.param:Param.refresh_toc',
             'cflib.crazyflie.param:_ExtendedTypeFetcher', 'cflib.crazyflie:_IncomingPacketHandler.run',
             'cflib.crazyflie:Crazyflie.send_packet', 'cflib.crtp.crtpstack:CRTPPacket']
STUBS = ['CF3 (vf/env/c03_env.py): MiniCF + the real _IncomingPacketHandler stepped once per received packet; '
         'link records packets; send_packet is the real Crazyflie.send_packet (no resend timers: needs_resending False)',
         'platform service: protocol version handed in directly (symbolic -1..20 in the download harnesses)',
         'TocCache: stand-in that always misses (one cache-hit case in step-info returns a prepared table)',
         'cflib.crazyflie.param.Lock / Queue: cooperative stand-ins; _ExtendedTypeFetcher.run is stepped, a blocked '
         'acquire leaves the step and puts the dequeued request back',
         'threading.Thread.start never starts an OS thread (_ParamUpdater, _ExtendedTypeFetcher, dispatcher)',
         'TocDevice: device side of the TOC protocol written from the CRTP protocol description']
ASSUMPTIONS = ['device tables are legal: type codes from the protocol table (log 1..8; param nibble 0-3, 5-11, any upper '
               'bits), group/name non-empty NUL-free byte strings that fit a 30-byte packet, (group, name) pairwise distinct, '
               'idents 0..n-1',
               'in state GET_TOC_INFO the only traffic on the TOC channel of the port is the info reply (nothing was '
               'requested on that channel earlier in the connection)',
               'legacy-generation devices (protocol < 4) have no extended parameter types',
               'the extended type byte is 0 or 1 (bit 0 = persistent); foreign traffic on the param MISC channel during '
               'the extended-type phase carries an ident other than the one being queried',
               'context switches only at blocking calls; one packet is dispatched at a time']
OUTSIDE = ['TOC cache contents (C11)', 'request retransmission timers (C10)', 'platform version negotiation and the rest of '
           'the connection sequence (C02)', 'symbolic name bytes inside Toc dictionaries: step/download/boundary harnesses draw (group, name) from fixed '
           'sharing patterns, decode[*] covers every byte value, lengths 1..3 (quick) / 1..5 (thorough) and the longest names '
           'that fit a packet', 'unsolicited param MISC packets (e.g. value-updated notifications) for the very ident '
           'whose extended type is being queried', 'replies lost for ever (no completion is claimed then)']
EXPLANATION = 'C03: inductive step of the TOC fetcher over symbolic (generation, table size, index, reply ident/channel, ' \
              'element bytes), bounded downloads with duplicated/delayed replies through the real dispatcher, element ' \
              'decoding over all type codes, extended-type persistence marking.'

# ---------------------------------------------------------------- oracle tables (protocol side)
LOG_TYPES = {1: ('uint8_t', '<B', 1), 2: ('uint16_t', '<H', 2), 3: ('uint32_t', '<L', 4), 4: ('int8_t', '<b', 1),
             5: ('int16_t', '<h', 2), 6: ('int32_t', '<i', 4), 7: ('float', '<f', 4), 8: ('FP16', '<e', 2)}
# param type nibble: size = 1 << (code & 3); code & 4 float; code & 8 unsigned.  FP16 values are not transferable
# by the library (pytype not checked for it).
PARAM_TYPES = {0x0: ('int8_t', '<b'), 0x1: ('int16_t', '<h'), 0x2: ('int32_t', '<i'), 0x3: ('int64_t', '<q'),
               0x5: ('FP16', None), 0x6: ('float', '<f'), 0x7: ('double', '<d'),
               0x8: ('uint8_t', '<B'), 0x9: ('uint16_t', '<H'), 0xA: ('uint32_t', '<L'), 0xB: ('uint64_t', '<Q')}
PARAM_EXTENDED, PARAM_RONLY = 0x10, 0x40
KINDS = {'log': (LogTocElement, PORT_LOG), 'param': (ParamTocElement, PORT_PARAM)}


def sbool(sym, name):
    return True if sym.bool(name) else False


def name_bytes(sym, prefix, n):
    """n symbolic non-NUL bytes (any ISO-8859-1 code)."""
    return [sym.int(f'{prefix}{i}', 1, 255) for i in range(n)]


def sym_type_byte(sym, kind, name='type', flags=True):
    """A legal type byte of the protocol: log 1..8; param: legal nibble + symbolic upper bits."""
    if kind == 'log':
        return sym.int(name, 1, 8)
    code = sym.int(name + '_code', 0, 11)
    sym.assume(code != 4)
    if not flags:
        return code
    return code + 16 * sym.int(name + '_hi', 0, 15)


def elements(toc):
    """[(group key, name key, element)] of a Toc, read from its dictionary (not through the lookup functions)."""
    return [(g, nm, e) for g, d in toc.toc.items() for nm, e in d.items()]


def check_element(kind, e, ident, entry, persistent=None):
    """The library element `e` is the device entry `entry` at index `ident`."""
    assert e.ident == ident, 'ident differs from the device index'
    assert [ord(c) for c in e.group] == entry.group, 'group differs'
    assert [ord(c) for c in e.name] == entry.name, 'name differs'
    t = entry.type_byte
    if kind == 'log':
        for code, (ct, py, _) in LOG_TYPES.items():
            if t == code:
                assert e.ctype == ct and e.pytype == py, ('log type', code)
    else:
        low = t % 16
        for code, (ct, py) in PARAM_TYPES.items():
            if low == code:
                assert e.ctype == ct, ('param ctype', code)
                assert py is None or e.pytype == py, ('param pytype', code)
        ro = (t // PARAM_RONLY) % 2 == 1
        ext = (t // PARAM_EXTENDED) % 2 == 1
        assert (e.access == ParamTocElement.RO_ACCESS) == ro, 'access attribute'
        assert e.access in (ParamTocElement.RO_ACCESS, ParamTocElement.RW_ACCESS)
        assert (True if e.is_extended() else False) == ext, 'extended attribute'
        if persistent is not None:
            assert (True if e.is_persistent() else False) == persistent, 'persistence marker'


def check_table(kind, toc, table, persist=False):
    """toc holds exactly the device table."""
    els = elements(toc)
    assert len(els) == len(table), ('number of entries', len(els), len(table))
    for i, entry in enumerate(table):
        mine = [(g, nm, e) for (g, nm, e) in els if e.ident == i]
        assert len(mine) == 1, ('entries with device index', i, len(mine))
        g, nm, e = mine[0]
        check_element(kind, e, i, entry, (entry.persistent if persist else None))
        assert g == e.group and nm == e.name, 'stored under a different key than its own group/name'


def check_lookups(toc, n):
    """Lookup by (group, name), by index and by complete name agree for every stored entry."""
    for g, nm, e in elements(toc):
        assert toc.get_element(g, nm) is e
        assert toc.get_element_by_id(e.ident) is e
        cn = g + '.' + nm
        assert toc.get_element_by_complete_name(cn) is e
        assert toc.get_element_id(cn) == e.ident
    assert toc.get_element_by_id(n) is None


def item_request(v2, port, index):
    """(header, data) of the request for table index `index`."""
    hdr = port * 16 + 12
    if v2:
        return hdr, [E.V2_ITEM, index % 256, index // 256]
    return hdr, [E.V1_ITEM, index]


def registered_cbs(cf, port):
    return [cb for (p, cb) in cf.port_cbs if p == port]


# ---------------------------------------------------------------- 1. inductive step, state GET_TOC_ELEMENT
def mk_fetcher(cf, kind, v2, toc, finished, cache):
    cls, port = KINDS[kind]
    f = TocFetcher(cf, cls, port, toc, lambda: finished.append(1), cache)
    f._useV2 = v2
    cf.add_port_callback(port, f._new_packet_cb)       # what start() registers
    return f, port


# (group, name) of the arriving entry: in the group of the entries already stored / same name in a new group / longer
STEP_NAMES = [('pg', 'n'), ('q', 'a'), ('qrs', 'zyxw')]


def h_step_item(sym):
    from vf.env.base import MiniCF
    kind, v2, npre, L = sym.B['kind'], sym.B['v2'], sym.B['pre'], sym.B['names']
    maxn = 65535 if v2 else 255
    cf = MiniCF(10 if v2 else 1)
    toc, finished, cache = Toc(), [], MissCache()
    f, port = mk_fetcher(cf, kind, v2, toc, finished, cache)
    cls = KINDS[kind][0]
    # ---- arbitrary state satisfying the representation invariant
    n = sym.int('n', 1, maxn)
    idx = sym.int('idx', 0, maxn - 1)
    sym.assume(idx < n)
    pre = []
    for i in range(npre):
        pid = sym.int(f'pre{i}', 0, maxn - 1)
        sym.assume(pid < idx)
        for q in pre:
            sym.assume(q.ident != pid)
        el = cls(pid, bytearray([7 if kind == 'log' else 6] + [112, 103, 0, 97 + i, 0]))    # pg.a, pg.b
        toc.add_element(el)
        pre.append(el)
    f.state, f.nbr_of_items, f.requested_index, f._crc = GET_TOC_ELEMENT, n, idx, 0xCAFE
    # ---- the packet that arrives
    dev = TocDevice(port, [])
    rkind = sym.choice('reply_kind', 2)
    entry = None
    if rkind == 0:       # an item reply (the awaited one, a duplicate of an earlier one, or on another channel)
        g, m = STEP_NAMES[sym.choice('name', L)]
        entry = Entry(sym_type_byte(sym, kind), [ord(c) for c in g], [ord(c) for c in m])
        rid = sym.int('rid', 0, maxn)
        # any index of the table: an earlier request of THIS download (rid <= idx) or a stale reply to a request made
        # before a reconnect (rid > idx)
        sym.assume(rid < n)
        chan = sym.int('chan', 0, 3)
        pk = dev.item_reply(v2, rid, entry)
        pk.channel = chan
        accept = True if (chan == 0 and rid == idx) else False
    else:                # a late duplicate of the info reply (the info request was retransmitted)
        dev.crc = sym.int('crc', 0, 2 ** 32 - 1)
        pk = dev.info_reply(v2, n)
        accept = False
    sym.apply_known()
    f._new_packet_cb(pk)
    els = elements(toc)
    if not accept:
        assert f.state == GET_TOC_ELEMENT and f.requested_index == idx and f.nbr_of_items == n, 'state changed'
        assert len(cf.sent) == 0, 'request sent on a reply that is not the awaited one'
        assert not finished, 'finished on a reply that is not the awaited one'
        assert len(els) == npre and all(a[2] is b for a, b in zip(els, pre)), 'table changed'
        assert registered_cbs(cf, port) == [f._new_packet_cb]
        sym.goal('ignored')
        return
    # ---- the awaited reply
    new = [e for (_, _, e) in els if not any(e is p for p in pre)]
    assert len(els) == npre + 1 and len(new) == 1, 'not exactly one entry added'
    for p in pre:
        assert toc.toc['pg'][p.name] is p, 'earlier entry disturbed'
    e = new[0]
    check_element(kind, e, idx, entry)
    assert toc.toc[e.group][e.name] is e
    sym.goal('stored')
    assert f.nbr_of_items == n
    if idx < n - 1:
        assert not finished, 'finished before the last entry'
        assert len(cf.sent) == 1, 'not exactly one request for the next entry'
        hdr, data = item_request(v2, port, idx + 1)
        assert cf.sent[0].header == hdr and list(cf.sent[0].data) == data, 'next request is not index+1 in this generation'
        assert f.state == GET_TOC_ELEMENT and f.requested_index == idx + 1
        assert registered_cbs(cf, port) == [f._new_packet_cb]
        sym.goal('next-requested')
        if v2 and idx == 255:
            sym.goal('crossed-255')
    else:
        assert len(finished) == 1, 'finished callback not called exactly once'
        assert len(cf.sent) == 0, 'request sent after the last entry'
        # a duplicate of the last reply is without effect once the download has finished
        for cb in registered_cbs(cf, port):
            cb(clone(pk))
        assert len(finished) == 1 and len(cf.sent) == 0, 'duplicate of the last reply had an effect'
        assert len(elements(toc)) == npre + 1
        sym.goal('finished')


# ---------------------------------------------------------------- 1b. step in state GET_TOC_INFO
def h_step_info(sym):
    from vf.env.base import MiniCF
    kind, v2 = sym.B['kind'], sym.B['v2']
    maxn = 65535 if v2 else 255
    cf = MiniCF(10 if v2 else 1)
    toc, finished = Toc(), []
    hit = sbool(sym, 'cache_hit')
    cached = {'cg': {'cn': KINDS[kind][0]()}}       # a cached table of this port's own element class
    cache = MissCache(cached if hit else None)
    f, port = mk_fetcher(cf, kind, v2, toc, finished, cache)
    f.state = GET_TOC_INFO
    if sbool(sym, 'early_lookup'):
        # the table object is consulted before the download has filled it (a stale value packet of the previous session does
        # that through Param._param_updated): nothing found now, and no effect on what is found later
        assert toc.get_element_by_id(0) is None and toc.get_element_by_complete_name('cg.cn') is None
        assert toc.get_element_id('cg.cn') is None
        sym.goal('looked-up-before-download')
    n = sym.int('n', 0, maxn)
    dev = TocDevice(port, [], crc=sym.int('crc', 0, 2 ** 32 - 1))
    pk = dev.info_reply(v2, n)
    chan = sym.int('chan', 0, 3)
    pk.channel = chan
    sym.apply_known()
    f._new_packet_cb(pk)
    if chan != 0:
        assert f.state == GET_TOC_INFO and not finished and len(cf.sent) == 0 and toc.toc == {}
        sym.goal('ignored')
        return
    if hit:
        assert toc.toc is cached and len(finished) == 1 and len(cf.sent) == 0
        check_lookups(toc, 1)
        sym.goal('cache-hit')
    elif n == 0:
        assert toc.toc == {} and len(finished) == 1 and len(cf.sent) == 0, 'empty table must finish at once'
        sym.goal('empty')
    else:
        assert not finished and len(cf.sent) == 1
        hdr, data = item_request(v2, port, 0)
        assert cf.sent[0].header == hdr and list(cf.sent[0].data) == data, 'first request is not index 0'
        assert f.state == GET_TOC_ELEMENT and f.requested_index == 0 and f.nbr_of_items == n, 'table size not taken over'
        assert toc.toc == {}
        sym.goal('first-requested')
        return
    for cb in registered_cbs(cf, port):
        cb(clone(pk))
    assert len(finished) == 1 and len(cf.sent) == 0, 'duplicate info reply had an effect after finishing'


# ---------------------------------------------------------------- 2. bounded download from refresh_toc
NAME_CHOICES = [
    [('a', 'x')],
    [('a', 'y'), ('b', 'x'), ('bcd', 'yy')],        # same group / same name in another group / unrelated, longer
    [('a', 'z'), ('c', 'x'), ('bcd', 'y')],
    [('a', 'w'), ('d', 'x')],
]


def build_table(sym, kind, n, legacy, choose_names=True, sym_at=None):
    """Device table of n entries. Symbolic: attribute bits and persistence of parameters; the (group, name) sharing
    pattern is a solver-chosen selector over NAME_CHOICES (names end up as dictionary keys in Toc, which the engine
    can only handle concretely; all name bytes are covered by decode[*])."""
    table = []
    for i in range(n):
        if kind == 'log':
            t = (7, 2, 6, 8)[i % 4]
        else:
            t = (6, 0x48, 0x2A, 0x61)[i % 4]          # float RW, uint8 RO, uint32 core, int16 core RO
            ext = 0
            if not legacy and (sym_at is None or i in sym_at):
                ext = 1 if sbool(sym, f'ext{i}') else 0        # selector: the packet bytes stay concrete
                t = t + 16 * ext
        if choose_names:
            opts = NAME_CHOICES[i]
            if kind == 'param':          # fewer sharing patterns than on the log port (same Toc/TocFetcher code):
                if i == 1:               # entry 1 in the group of entry 0 or in a new one; entry 2 in a third group
                    g, m = (('a', 'y'), ('b', 'x'))[sym.choice('name1', 2)]
                else:
                    g, m = (('a', 'x'), None, ('c', 'x'), ('c', 'y'))[i]
            else:
                g, m = opts[sym.choice(f'name{i}', len(opts))] if len(opts) > 1 else opts[0]
            g, m = [ord(c) for c in g], [ord(c) for c in m]
        else:
            g, m = [103, 48 + (i // 16) % 10, 48 + i // 160], [118, 48 + i % 16]
        # the persistence flag is part of the extended type: only extended parameters can carry it
        pers = (sbool(sym, f'pers{i}') if ext == 1 else False) if (kind == 'param' and not legacy) else False
        table.append(Entry(t, g, m, pers))
    return table


def snapshot(toc):
    """[(element, persistence marker now)]"""
    return [(e, True if getattr(e, 'persistent', False) else False) for (_, _, e) in elements(toc)]


def start_download(kind, cf, done):
    """Start the real refresh; returns a function giving the library's table."""
    if kind == 'log':
        log = Log(cf)
        log.refresh_toc(lambda: done.append(snapshot(log.toc)), MissCache())
        return lambda: log.toc
    E.patch_param_sync()
    par = Param(cf)
    par.refresh_toc(lambda: done.append(snapshot(par.toc)), MissCache())
    return lambda: par.toc


def ext_fetchers(cf):
    out = []
    for c in cf.incoming.cb:
        o = getattr(c.callback, '__self__', None)
        if isinstance(o, _ExtendedTypeFetcher) and not any(o is x for x in out):
            out.append(o)
    return out


def run_tasks(cf):
    """Let every stepped thread body run until it blocks."""
    for t in ext_fetchers(cf):
        step(t)


def h_download(sym):
    kind, N, faults = sym.B['kind'], sym.B['maxsize'], sym.B['faults']
    E.reset()
    ver = sym.int('version', -1, 20)
    legacy = True if ver < 4 else False
    n = sym.choice('size', N + 1)
    table = build_table(sym, kind, n, legacy)
    port = KINDS[kind][1]
    dev = TocDevice(port, table)
    cf = CF3(ver)
    done = []
    max_req = 2 + 2 * n          # reset (log) or info, n items, at most n extended-type queries
    sym.apply_known()
    get_toc = start_download(kind, cf, done)
    history, k, stale_used = [], 0, False
    while k < len(cf.sent):
        assert k < max_req, 'more requests than a complete download needs'
        r = dev.answer(cf.sent[k])
        batch = [r]
        if faults in ('dup', 'both'):
            # the reply to request k arrives twice (the request was retransmitted and answered twice)
            if sbool(sym, f'dup{k}'):
                batch.append(clone(r))
                sym.goal('duplicated')
        if faults in ('stale', 'both') and history and not stale_used:
            # one delayed duplicate of an earlier reply shows up just before or just after the reply to request k
            if sbool(sym, f'stale{k}'):
                stale_used = True
                old = clone(history[sym.choice('stale_which', len(history))])
                batch = [old] + batch if sbool(sym, 'stale_before') else batch + [old]
                sym.goal('stale')
        # with two packets in flight the stepped thread (extended-type fetcher) may run between them or only after both
        late = True if (len(batch) > 1 and ext_fetchers(cf) and sbool(sym, f'tasks_late{k}')) else False
        for pk in batch:
            cf.deliver(pk)
            if not late:
                run_tasks(cf)
        run_tasks(cf)
        history.append(r)
        k += 1
    # ---- connected would be signalled now
    assert len(done) == 1, ('done callback calls', len(done))
    toc = get_toc()
    assert len(done[0]) == n, 'table incomplete when the download was reported finished'
    check_table(kind, toc, table, persist=(kind == 'param'))
    now = snapshot(toc)
    assert len(now) == len(done[0]) and all(a[0] is b[0] and a[1] == b[1] for a, b in zip(now, done[0])), \
        'table or persistence markers changed after the download was reported finished'
    check_lookups(toc, n)
    assert toc.get_element('??', '??') is None and toc.get_element_by_complete_name('??.??') is None
    if kind == 'param':
        if any(p for (_, p) in now):
            sym.goal('persistent')
    if n == 0:
        sym.goal('empty')
    if n == N:
        sym.goal('full')
    if legacy:
        sym.goal('legacy')
    else:
        sym.goal('current')


def h_boundary(sym):
    """One download of a concrete-size table across the 8-bit index boundary; names concrete except three entries."""
    kind, n, ver = sym.B['kind'], sym.B['n'], sym.B['version']
    E.reset()
    legacy = ver < 4
    table = build_table(sym, kind, n, legacy, choose_names=False, sym_at=(255, n - 1))
    if kind == 'log':
        table[n - 1].type_byte = sym.int('type_last', 1, 8)
    port = KINDS[kind][1]
    dev = TocDevice(port, table)
    cf = CF3(ver)
    done = []
    get_toc = start_download(kind, cf, done)
    k = 0
    while k < len(cf.sent):
        assert k < 2 * n + 4
        cf.deliver(dev.answer(cf.sent[k]))
        run_tasks(cf)
        k += 1
    assert len(done) == 1
    toc = get_toc()
    check_table(kind, toc, table, persist=(kind == 'param'))
    items = [r[2] for r in dev.requests if r[0] == 'item']
    assert items == list(range(n)), 'entries not requested one by one in index order'
    for i in (0, n - 2, n - 1):
        e = toc.get_element_by_id(i)
        assert e is not None and toc.get_element(e.group, e.name) is e
        assert toc.get_element_by_complete_name(e.group + '.' + e.name) is e
    sym.goal('beyond-255' if n > 256 else 'at-255')


# ---------------------------------------------------------------- 3. element decoding
def h_decode(sym):
    kind = sym.B['kind']
    cls = KINDS[kind][0]
    if 'lens' in sym.B:
        gl, nl = sym.B['lens']
    else:
        gl, nl = 1 + sym.choice('glen', sym.B['maxlen']), 1 + sym.choice('nlen', sym.B['maxlen'])
    entry = Entry(sym_type_byte(sym, kind), name_bytes(sym, 'g', gl), name_bytes(sym, 'm', nl))
    ident = sym.int('ident', 0, 65535)
    v2 = sbool(sym, 'v2')
    if not v2:
        sym.assume(ident < 256)
    sym.apply_known()
    pk = TocDevice(KINDS[kind][1], []).item_reply(v2, ident, entry)
    assert len(pk.data) <= 30
    payload = pk.data[1:]
    e = cls(ident, payload[2:] if v2 else payload[1:])      # the slice the fetcher hands to the element class
    check_element(kind, e, ident, entry, persistent=(False if kind == 'param' else None))
    if kind == 'param':
        if e.is_extended():
            sym.goal('extended')
        if e.access == ParamTocElement.RO_ACCESS:
            sym.goal('read-only')
    sym.goal('decoded')


# ---------------------------------------------------------------- 4. extended type fetcher
def h_exttype(sym):
    NE = sym.B['n']
    E.reset()
    E.patch_param_sync()
    cf = CF3(10)
    toc = Toc()
    idents, pers, els = [], [], []
    for i in range(NE):
        ident = sym.int(f'id{i}', 0, 65535)
        for q in idents:
            sym.assume(q != ident)
        idents.append(ident)
        pers.append(sbool(sym, f'pers{i}'))
        el = ParamTocElement(ident, bytearray([0x16, 103, 0, 97 + i, 0]))     # extended float g.a, g.b, ...
        toc.add_element(el)
        els.append(el)
    other = ParamTocElement(sym.int('id_other', 0, 65535), bytearray([0x06, 104, 0, 120, 0]))   # not extended: h.x
    for q in idents:
        sym.assume(q != other.ident)
    toc.add_element(other)
    # foreign packets on the MISC channel: before which request's reply, with which ident and payload byte
    stray_at = sym.choice('stray_at', NE + 1)        # NE: none
    stray_id = sym.int('stray_id', 0, 65535)
    stray_val = sym.int('stray_val', 0, 255)
    stray_cmd = sym.int('stray_cmd', 0, 255)
    sym.apply_known()
    done = []
    dev = TocDevice(PORT_PARAM, [])
    fet = _ExtendedTypeFetcher(cf, toc)
    fet.start()
    fet.set_callback(lambda: done.append([True if x.is_persistent() else False for x in els]))
    fet.request_extended_types(list(els))
    step(fet)
    answered = 0
    while answered < len(cf.sent):
        assert answered < NE, 'more extended-type requests than extended entries'
        rq = cf.sent[answered]
        d = list(rq.data)
        assert rq.header == PORT_PARAM * 16 + 12 + 3 and len(d) == 3 and d[0] == 2, 'malformed extended type request'
        rid = d[1] + 256 * d[2]
        which = [i for i in range(NE) if idents[i] == rid]
        assert len(which) == 1, 'extended type requested for an ident that is not an extended entry'
        i = which[0]
        if stray_at == answered:
            sym.assume(stray_id != rid)
            before = [True if x.is_persistent() else False for x in els + [other]]
            cf.deliver(packet(PORT_PARAM, 3, [stray_cmd, stray_id % 256, stray_id // 256, stray_val]))
            step(fet)
            assert [True if x.is_persistent() else False for x in els + [other]] == before, 'foreign reply changed a marker'
            assert not done and len(cf.sent) == answered + 1, 'foreign reply advanced the fetcher'
            sym.goal('foreign-ignored')
        cf.deliver(dev.ext_reply(rid, pers[i]))
        assert len(cf.sent) == answered + 1, 'next request sent from the dispatcher context'
        step(fet)
        answered += 1
    assert answered == NE, 'not every extended entry was queried'
    assert len(done) == 1, 'done callback not called exactly once'
    assert done[0] == pers, 'markers incomplete when done was reported'
    assert [True if x.is_persistent() else False for x in els] == pers, 'persistence markers differ from the device'
    assert not other.is_persistent()
    # a duplicate of the last reply after completion is without effect
    cf.deliver(dev.ext_reply(rid, True))
    step(fet)
    assert len(done) == 1 and [True if x.is_persistent() else False for x in els] == pers
    if any(pers):
        sym.goal('persistent')
    if not all(pers):
        sym.goal('not-persistent')


_GEN = (('v1', False), ('v2', True))
def h_generation(sym):
    """Which protocol generation the table download will use is what the device announced, regardless of duplicated replies:
    after the device has told its protocol version, a duplicate of an earlier reply of the negotiation (which only repeats what the
    device has said already) leaves the negotiated version alone, and the connection sequence continues exactly once."""
    from vf.env.base import MiniCF
    from cflib.crazyflie.platformservice import PlatformService
    cf = MiniCF(0)
    ps = PlatformService.__new__(PlatformService)
    ps._cf = cf
    ps._protocolVersion = -1
    ps._callback = None
    ver = sym.int('device_version', 0, 255)
    legacy = True if sym.bool('legacy_device') else False
    cont = []
    ps.fetch_platform_informations(lambda: cont.append(ps.get_protocol_version()))
    assert len(cf.sent) == 1 and cf.sent[0].port == 15 and cf.sent[0].channel == 1, 'negotiation starts with the link-service source request'
    ls_reply = packet(15, 1, list(b'xxxxxxxxxxxxxxxxxxxx') if legacy else list(b'Bitcraze Crazyflie'))
    v_reply = packet(13, 1, [0, ver])
    ps._crt_service_callback(ls_reply)
    if legacy:
        assert cont == [-1] and ps.get_protocol_version() == -1, 'a device without the magic string is a legacy device'
        want = -1
        sym.goal('legacy')
    else:
        assert cont == [] and len(cf.sent) == 2 and cf.sent[1].port == 13, 'version request expected'
        ps._platform_callback(v_reply)
        assert cont == [ver] and ps.get_protocol_version() == ver, 'negotiated version is the one the device announced'
        want = ver
        sym.goal('versioned')
    for k in range(sym.B['dups']):
        which = sym.choice(f'dup{k}', 2 if not legacy else 1)
        if which == 0:
            ps._crt_service_callback(ls_reply)
        else:
            ps._platform_callback(v_reply)
        assert ps.get_protocol_version() == want, 'a duplicated negotiation reply changed the negotiated protocol version'
        assert cont == [want], 'the connection sequence was continued more than once'
        sym.goal('duplicate-handled')


HARNESSES = [
    Harness('generation[duplicated replies]', h_generation, quick=dict(dups=2), thorough=dict(dups=3), timeout=(120, 300),
            goals=('legacy', 'versioned', 'duplicate-handled')),
] + [
    Harness(f'step-item[{k},{g}]', h_step_item, quick=dict(kind=k, v2=v, pre=2, names=3), thorough=dict(kind=k, v2=v, pre=3, names=3), timeout=(400, 1800),
            goals=('ignored', 'stored', 'next-requested', 'finished') + (('crossed-255',) if v else ()))
    for k in ('log', 'param') for g, v in _GEN
] + [
    Harness(f'step-info[{k},{g}]', h_step_info, quick=dict(kind=k, v2=v), timeout=(120, 600),
            goals=('ignored', 'cache-hit', 'empty', 'first-requested', 'looked-up-before-download'))
    for k in ('log', 'param') for g, v in _GEN
] + [
    Harness(f'download[{k},{f}]', h_download, quick=dict(kind=k, maxsize=2, faults=f),
            thorough=dict(kind=k, maxsize=(4 if k == 'log' else 3), faults=f), timeout=(600, 3000),
            goals=('empty', 'full', 'legacy', 'current', 'duplicated' if f == 'dup' else 'stale') + (('persistent',) if k == 'param' else ()))
    for k in ('log', 'param') for f in ('dup', 'stale')
] + [
    Harness(f'download[{k},dup+stale]', h_download, quick=dict(kind=k, maxsize=2, faults='both'), timeout=(600, 3000),
            tiers=('thorough',), goals=('empty', 'full', 'legacy', 'current', 'duplicated', 'stale') + (('persistent',) if k == 'param' else ()))
    for k in ('log', 'param')
] + [
    Harness('boundary[log,v1,255]', h_boundary, quick=dict(kind='log', n=255, version=1), goals=('at-255',), timeout=(600, 1800),
            note='concrete table size, last entries symbolic: end-to-end witness of the index boundary, '
            'the deciding argument for arbitrary sizes is step-item'),
    Harness('boundary[log,v2,257]', h_boundary, quick=dict(kind='log', n=257, version=7), goals=('beyond-255',), timeout=(600, 1800),
            note='concrete table size, last entries symbolic'),
    Harness('boundary[param,v2,257]', h_boundary, quick=dict(kind='param', n=257, version=7), goals=('beyond-255',),
            timeout=(600, 1800), note='concrete table size, last entries symbolic'),
] + [
    Harness('decode[log]', h_decode, quick=dict(kind='log', maxlen=3), thorough=dict(kind='log', maxlen=5), goals=('decoded',),
            timeout=(300, 1200)),
    Harness('decode[param]', h_decode, quick=dict(kind='param', maxlen=3), thorough=dict(kind='param', maxlen=5),
            goals=('decoded', 'extended', 'read-only'), timeout=(400, 1800)),
    Harness('decode[log,long]', h_decode, quick=dict(kind='log', lens=(12, 12)), goals=('decoded',), timeout=(300, 1200)),
    Harness('decode[param,long]', h_decode, quick=dict(kind='param', lens=(1, 23)), goals=('decoded',), timeout=(300, 1200)),
    Harness('exttype', h_exttype, quick=dict(n=2), thorough=dict(n=4), goals=('foreign-ignored', 'persistent', 'not-persistent'),
            timeout=(400, 1800)),
]
