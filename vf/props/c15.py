"""C15 Lighthouse angle, vector and pose conversions are mutually consistent — the rigid-motion laws of Pose, and the
LighthouseBsVector conversions (V1 / V2 angles, Cartesian, projection) in the field of view with abstract trigonometry.

The real cflib.localization.lighthouse_types.Pose code runs on numpy *object* arrays whose entries are CrossHair real-model
symbolic numbers, so np.dot / np.transpose / + / - build exact polynomial terms over the 9 matrix entries, translations and
points.  Each law component is one non-linear real arithmetic obligation discharged by the cvc5/z3 portfolio (sym.prove).
Rotation matrices are 9 reals with the 6 orthonormality equations as solver assumptions (every orthogonal matrix,
proper or not: the laws below hold for both)."""
import numpy as np

from vf.harness import Harness
from cflib.localization.lighthouse_types import Pose

FUNCTIONS = ['cflib.localization.lighthouse_types:Pose.rotate_translate', 'cflib.localization.lighthouse_types:Pose.inv_rotate_translate',
             'cflib.localization.lighthouse_types:Pose.rotate_translate_pose',
             'cflib.localization.lighthouse_types:Pose.inv_rotate_translate_pose', 'cflib.localization.lighthouse_types:Pose.scale',
             'cflib.localization.lighthouse_types:Pose.__init__',
             'cflib.localization.lighthouse_bs_vector:LighthouseBsVector.from_lh2', 'cflib.localization.lighthouse_bs_vector:LighthouseBsVector.from_cart',
             'cflib.localization.lighthouse_bs_vector:LighthouseBsVector.from_projection', 'cflib.localization.lighthouse_bs_vector:LighthouseBsVector._q',
             'cflib.localization.lighthouse_bs_vector:LighthouseBsVector']
STUBS = ['math.tan/atan/atan2/asin/sin/cos on symbolic reals -> uninterpreted functions + ground instances of standard identities (vf/plugins/trig.py); '
         'math.sqrt -> real-model root; np.float32(seq) inside lighthouse_bs_vector -> object array of the same numbers (conv_* harnesses only)',
         'numpy object arrays of symbolic reals (np.dot, np.transpose, elementwise + - * run as compiled numpy loops over Python objects)']
ASSUMPTIONS = ['decided over the real numbers (float rounding of the matrix products is outside)',
               'conv_*: field of view = V1 (resp. V2) angles within +-0.98 rad (56 degrees, |tan| <= 1.5); the trigonometric identities instantiated '
               'by vf/plugins/trig.py are true statements about the real functions (trusted mathematics, listed in that file)',
               'point_inverse[inv] takes both R^T R = I and R R^T = I as the definition of an orthogonal matrix',
               'rotation matrices: any 3x3 real matrix with R^T R = I (solver assumption)']
OUTSIDE = ['float32 / float64 rounding of the conversions ("to float32 accuracy" is decided as exact equality over the reals)',
           'directions outside the field of view (behind the base station, beyond +-56 degrees)',
           'rotation-vector and quaternion views (compiled scipy)',
           'the geometry solver\'s vectorised projection (numpy linalg / nan_to_num)']
EXPLANATION = 'C15: LighthouseBsVector conversion laws with abstract trigonometry (uninterpreted functions + identity instances), and inverse, composition/associativity, sequential-application and orthonormality-preservation laws of Pose ' \
              'as NRA obligations; inputs unmodified.'

PROVE = dict(prove_order='z3', prove_timeout=300, prove_z3_timeout=30)


def chain(sym, terms, what):
    """Prove terms[0] == terms[-1] through the given intermediate forms: each link is one small obligation (a pure
    polynomial identity, or one substitution of the assumed orthonormality equations); proven links become assumptions,
    so the final equality is immediate.  Direct NRA queries for the composite statements take cvc5 minutes to half an hour;
    the links are decided by z3 in milliseconds."""
    for a, b in zip(terms, terms[1:]):
        sym.prove(sym.close(a, b), what + ' (link)')
    sym.prove(sym.close(terms[0], terms[-1]), what)


def gram(R):
    """R^T R as terms over the entries of R."""
    return [[sum(R[k][i] * R[k][j] for k in range(3)) for j in range(3)] for i in range(3)]


def rot(sym, name, rows_too=False):
    """A 3x3 orthogonal matrix: 9 reals with R^T R = I assumed.  rows_too: R R^T = I is assumed as well (for a square real
    matrix the two are equivalent by a theorem of linear algebra; deriving one from the other is a hard NRA query that no
    installed solver finishes, so the harness that needs the row form takes it as part of the definition)."""
    R = [[sym.real(f'{name}{i}{j}', -1, 1) for j in range(3)] for i in range(3)]
    for i in range(3):
        for j in range(i, 3):
            sym.constrain_eq(sum(R[k][i] * R[k][j] for k in range(3)), 1.0 if i == j else 0.0)
            if rows_too:
                sym.constrain_eq(sum(R[i][k] * R[j][k] for k in range(3)), 1.0 if i == j else 0.0)
    return R


def anymat(sym, name):
    return [[sym.real(f'{name}{i}{j}', -2, 2) for j in range(3)] for i in range(3)]


def vec(sym, name, lim=10):
    return [sym.real(f'{name}{i}', -lim, lim) for i in range(3)]


def snapshot(*poses):
    return [(p._R_matrix, p._t_vec, [list(r) for r in p._R_matrix], list(p._t_vec)) for p in poses]


def unchanged(snap, *poses):
    for (R0, t0, Rv, tv), p in zip(snap, poses):
        assert p._R_matrix is R0 and p._t_vec is t0, 'input pose arrays were replaced'
        for i in range(3):
            assert p._t_vec[i] is tv[i], 'input translation modified'
            for j in range(3):
                assert p._R_matrix[i][j] is Rv[i][j], 'input rotation modified'


def h_point_inverse(sym):
    """inv_rotate_translate undoes rotate_translate and vice versa, for every orthogonal R, translation and point."""
    sym.B.update(PROVE)
    fwd_first = sym.B['direction'] == 'fwd'
    A = Pose(rot(sym, 'r', rows_too=not fwd_first), vec(sym, 't'))
    p = vec(sym, 'p')
    snap = snapshot(A)
    R = [list(r) for r in A.rot_matrix]
    q = A.inv_rotate_translate(A.rotate_translate(p)) if fwd_first else A.rotate_translate(A.inv_rotate_translate(p))
    if fwd_first:
        M = gram(R)                                                    # R^T R
    else:
        M = [[sum(R[i][k] * R[j][k] for k in range(3)) for j in range(3)] for i in range(3)]       # R R^T
    t = list(A.translation)
    for i in range(3):
        mid = sum(M[i][k] * p[k] for k in range(3)) if fwd_first else sum(M[i][k] * (p[k] - t[k]) for k in range(3)) + t[i]
        chain(sym, [q[i], mid, p[i]], f'component {i} returns to the original point')
    unchanged(snap, A)
    sym.goal('proved')


def h_pose_inverse(sym):
    """A.inv_rotate_translate_pose(A.rotate_translate_pose(B)) == B for orthogonal A.R and ARBITRARY B."""
    sym.B.update(PROVE)
    A = Pose(rot(sym, 'a'), vec(sym, 'at'))
    B = Pose(anymat(sym, 'b'), vec(sym, 'bt'))
    snap = snapshot(A, B)
    C = A.inv_rotate_translate_pose(A.rotate_translate_pose(B))
    M = gram([list(r) for r in A.rot_matrix])
    bt, bR = list(B.translation), [list(r) for r in B.rot_matrix]
    part = sym.B['part']
    if part == 't':
        for i in range(3):
            chain(sym, [C.translation[i], sum(M[i][k] * bt[k] for k in range(3)), bt[i]], f'translation {i}')
    else:
        i = int(part)
        for j in range(3):
            chain(sym, [C.rot_matrix[i][j], sum(M[i][k] * bR[k][j] for k in range(3)), bR[i][j]], f'rotation [{i}][{j}]')
    unchanged(snap, A, B)
    sym.goal('proved')


def h_assoc(sym):
    """(A o B) o C == A o (B o C) and (A o B)(p) == A(B(p)) for arbitrary matrices (pure polynomial identities)."""
    A = Pose(anymat(sym, 'a'), vec(sym, 'at'))
    B = Pose(anymat(sym, 'b'), vec(sym, 'bt'))
    C = Pose(anymat(sym, 'c'), vec(sym, 'ct'))
    p = vec(sym, 'p')
    snap = snapshot(A, B, C)
    L = A.rotate_translate_pose(B).rotate_translate_pose(C)
    Rr = A.rotate_translate_pose(B.rotate_translate_pose(C))
    for i in range(3):
        sym.prove(sym.close(L.translation[i], Rr.translation[i]), 'associativity, translation')
        for j in range(3):
            sym.prove(sym.close(L.rot_matrix[i][j], Rr.rot_matrix[i][j]), 'associativity, rotation')
    AB = A.rotate_translate_pose(B)
    x, y = AB.rotate_translate(p), A.rotate_translate(B.rotate_translate(p))
    for i in range(3):
        sym.prove(sym.close(x[i], y[i]), 'composition matches sequential application')
    # identity pose is neutral
    E = Pose()
    I = E.rotate_translate_pose(A)
    for i in range(3):
        assert sym.close(I.translation[i], A.translation[i])
        for j in range(3):
            assert sym.close(I.rot_matrix[i][j], A.rot_matrix[i][j])
    unchanged(snap, A, B, C)
    sym.goal('proved')


def h_compose_orthonormal(sym):
    """Composition of two rigid motions is rigid: (A o B).R stays orthonormal (one entry of R^T R per harness instance)."""
    sym.B.update(PROVE)
    A = Pose(rot(sym, 'a'), vec(sym, 'at'))
    B = Pose(rot(sym, 'b'), vec(sym, 'bt'))
    R = A.rotate_translate_pose(B).rot_matrix
    a, b = [list(r) for r in A.rot_matrix], [list(r) for r in B.rot_matrix]
    M = gram(a)
    i, j = sym.B['entry']
    chain(sym, [sum(R[k][i] * R[k][j] for k in range(3)),
                sum(b[l][i] * M[l][m] * b[m][j] for l in range(3) for m in range(3)),       # B^T (A^T A) B
                sum(b[l][i] * b[l][j] for l in range(3)),                                   # B^T B
                1.0 if i == j else 0.0], f'((AB)^T (AB))[{i}][{j}]')
    sym.goal('proved')


def h_inverse_after_scale(sym):
    """Histories on ONE object: inverse, scale, inverse again. After scale(s) the inverse must undo the forward transform of the
    SCALED pose (no state derived before the scaling may survive it); a shallow copy scaled afterwards likewise."""
    import copy
    sym.B.update(PROVE)
    A = Pose(rot(sym, 'r'), vec(sym, 't'))
    p = vec(sym, 'p')
    s = sym.real('s', -20, 20)
    A.inv_rotate_translate(p)                      # an inverse operation before scaling
    A.inv_rotate_translate_pose(Pose())
    B = copy.copy(A) if sym.B.get('copy') else A
    t_before = list(A.translation)
    B.scale(s)
    M = gram([list(r) for r in B.rot_matrix])
    q = B.inv_rotate_translate(B.rotate_translate(p))
    for i in range(3):
        chain(sym, [q[i], sum(M[i][k] * p[k] for k in range(3)), p[i]], f'component {i} after scale')
        assert sym.close(B.translation[i], t_before[i] * s)
    if sym.B.get('copy'):
        for i in range(3):
            assert A.translation[i] is t_before[i], 'scaling the copy changed the original'
    sym.goal('proved')


def h_no_alias(sym):
    """A Pose is a fixed rigid motion: modifying the arrays it was built from, or a default pose, later does not change it."""
    R = np.array(anymat(sym, 'a'), dtype=object)
    t = np.array(vec(sym, 'at'), dtype=object)
    buf = np.zeros(6)
    buf[:] = (0.1, -0.2, 0.3, 1.0, 2.0, 3.0)
    A = Pose(R, t)
    C = Pose.from_rot_vec(buf[:3], buf[3:])
    r0, t0 = [list(r) for r in A.rot_matrix], list(A.translation)
    c0 = (np.array(C.rot_matrix, dtype=float).copy(), np.array(C.translation, dtype=float).copy())
    R[0][0] = 7.0
    t[1] = 7.0
    buf[:] = 0.5
    for i in range(3):
        assert A.translation[i] is t0[i], 'pose translation aliases the array it was built from'
        for j in range(3):
            assert A.rot_matrix[i][j] is r0[i][j], 'pose rotation aliases the array it was built from'
    assert np.array_equal(np.array(C.rot_matrix, dtype=float), c0[0]) and np.array_equal(np.array(C.translation, dtype=float), c0[1]), \
        'pose built from a parameter buffer changed when the buffer was reused'
    D = Pose()
    D.translation[0] = D.translation[0]            # reading is fine
    E = Pose()
    try:
        E.translation[0] = 5.0                      # an in-place write into one default pose ...
    except ValueError:
        pass
    F = Pose()
    assert float(F.translation[0]) == 0.0 and float(F.rot_matrix[0][0]) == 1.0, '... must not change what Pose() means'
    sym.goal('proved')


def h_scale(sym):
    """Pose.scale multiplies the translation by the factor, keeps the rotation (same values) and leaves the old arrays alone."""
    A = Pose(anymat(sym, 'a'), vec(sym, 'at'))
    s = sym.real('s', -100, 100)
    R0, t0, tv = A.rot_matrix, A.translation, list(A.translation)
    A.scale(s)
    for i in range(3):
        assert sym.close(A.translation[i], tv[i] * s)
        assert t0[i] is tv[i], 'old translation array modified in place'
    assert A.rot_matrix is R0
    sym.goal('proved')



# ---------------------------------------------------------------------------------------------------------------------
# Angle / vector conversions of LighthouseBsVector, decided over the reals with ABSTRACT trigonometry (vf/plugins/trig.py):
# tan/atan/atan2/asin/sin/cos are uninterpreted functions constrained by ground instances of standard identities, sqrt is the
# real-model root.  np.float32(...) in the module under test keeps its entries (rounding to float32 is outside the claim).
import math                                                                   # noqa: E402
import cflib.localization.lighthouse_bs_vector as _bsv                         # noqa: E402
from cflib.localization.lighthouse_bs_vector import LighthouseBsVector         # noqa: E402

FOV_ANGLE = 0.98          # rad (56 degrees): |tan| <= 1.5, inside every base station's field of view


class _NpShim:
    """numpy for the module under test while symbolic: float32(seq) -> object array of the same (symbolic) numbers."""

    def __getattr__(self, name):
        return getattr(np, name)

    @staticmethod
    def float32(x):
        return np.array(list(x), dtype=object)


def _abstract_trig(sym):
    if sym.symbolic:
        from vf.plugins import trig
        trig.ENABLED = True
        _bsv.np = _NpShim()
    sym.B.update(dict(prove_order='z3', prove_timeout=300, prove_z3_timeout=15, prove_identity_first=False,
                      prove_relevance=True, prove_relevance_hops=(1, 2, 3), prove_relevance_timeout=10, cex_margin=0.01))


def _angle(sym, name, lim=FOV_ANGLE):
    return sym.real(name, -lim, lim)


def h_conv_projection(sym):
    """V1 angles <-> image-plane projection are mutual inverses; signs follow the documented convention (left/up positive)."""
    _abstract_trig(sym)
    h, v = _angle(sym, 'h'), _angle(sym, 'v')
    y, z = sym.real('y', -1.5, 1.5), sym.real('z', -1.5, 1.5)
    b = LighthouseBsVector(h, v)
    assert b.lh_v1_horiz_angle is h and b.lh_v1_vert_angle is v and b.lh_v1_angle_pair == (h, v)
    p = b.projection
    assert len(p) == 2
    sym.prove(sym.close(p[0], math.tan(h)), 'projection y is tan(horizontal angle)')
    sym.prove(sym.close(p[1], math.tan(v)), 'projection z is tan(vertical angle)')
    if sym.symbolic:
        sym.prove((p[0] > 0) == (h > 0), 'projection y has the sign of the horizontal angle')
        sym.prove((p[1] > 0) == (v > 0), 'projection z has the sign of the vertical angle')
    b2 = LighthouseBsVector.from_projection(p)
    sym.prove(sym.close(b2.lh_v1_horiz_angle, h), 'angles -> projection -> angles, horizontal')
    sym.prove(sym.close(b2.lh_v1_vert_angle, v), 'angles -> projection -> angles, vertical')
    b3 = LighthouseBsVector.from_projection([y, z])
    q = b3.projection
    sym.prove(sym.close(q[0], y), 'projection -> angles -> projection, y')
    sym.prove(sym.close(q[1], z), 'projection -> angles -> projection, z')
    sym.prove(abs(b3.lh_v1_horiz_angle) < 1.5708, 'angle from a projection is within a quarter turn')
    sym.goal('proved')


def h_conv_cart(sym):
    """The Cartesian form is a unit vector pointing along (1, tan h, tan v); from_cart inverts it and accepts any length."""
    _abstract_trig(sym)
    h, v = _angle(sym, 'h'), _angle(sym, 'v')
    w = [sym.real('w0', 0.05, 10), sym.real('w1', -10, 10), sym.real('w2', -10, 10)]
    sym.constrain(abs(w[1]) <= 1.5 * w[0])
    sym.constrain(abs(w[2]) <= 1.5 * w[0])
    b = LighthouseBsVector(h, v)
    c = b.cart
    assert len(c) == 3
    th, tv = math.tan(h), math.tan(v)
    sym.prove(sym.close(c[0] * c[0] + c[1] * c[1] + c[2] * c[2], 1.0), 'cart is a unit vector')
    sym.prove(c[0] > 0, 'cart points forward')
    sym.prove(sym.close(c[1], c[0] * th), 'cart y / x is tan(horizontal angle)')
    sym.prove(sym.close(c[2], c[0] * tv), 'cart z / x is tan(vertical angle)')
    b2 = LighthouseBsVector.from_cart(c)
    sym.prove(sym.close(c[1] / c[0], th), 'ratio (link)')
    sym.prove(sym.close(c[2] / c[0], tv), 'ratio (link)')
    sym.prove(sym.close(b2.lh_v1_horiz_angle, h), 'angles -> cart -> angles, horizontal')
    sym.prove(sym.close(b2.lh_v1_vert_angle, v), 'angles -> cart -> angles, vertical')
    # any vector in front of the base station, any length
    d = LighthouseBsVector.from_cart(w).cart
    sym.prove(d[0] > 0, 'cart of a forward vector points forward')
    sym.prove(sym.close(d[1] * w[0], d[0] * w[1]), 'vector -> angles -> cart is parallel to the vector (y)')
    sym.prove(sym.close(d[2] * w[0], d[0] * w[2]), 'vector -> angles -> cart is parallel to the vector (z)')
    sym.goal('proved')


_TT = math.tan(math.pi / 6)


def h_conv_v1_v2_v1(sym):
    """V1 angles -> V2 sweep angles -> V1 angles is the identity in the field of view."""
    _abstract_trig(sym)
    h, v = _angle(sym, 'h'), _angle(sym, 'v')
    b = LighthouseBsVector(h, v)
    a1, a2 = b.lh_v2_angle_1, b.lh_v2_angle_2
    b2 = LighthouseBsVector.from_lh2(a1, a2)
    sym.prove(sym.close(b2.lh_v1_horiz_angle, h), 'V1 -> V2 -> V1, horizontal')
    # proof script for the vertical angle: every link is a true statement about the definitions, decided by the solver
    r = math.sqrt(1 + math.tan(h) ** 2)
    s = math.asin(math.tan(v) / r * _TT)
    sym.prove(sym.close(a2 - h, s), 'second sweep angle is h + asin(q tan T) (link)')
    sym.prove(sym.close(h - a1, s), 'first sweep angle is h - asin(q tan T) (link)')
    y = math.sin(a2 - a1)
    x = _TT * (math.cos(a1) + math.cos(a2))
    sym.prove(sym.close(y, 2 * math.sin(s) * math.cos(s)), 'double angle (link)')
    sym.prove(sym.close(x, _TT * (2 * math.cos(h) * math.cos(s))), 'sum to product (link)')
    sym.prove(sym.close(r * math.cos(h), 1.0), '1/sqrt(1+tan^2) = cos (link)')
    sym.prove(math.cos(s) > 0, 'cos of the half difference is positive in the field of view (link)')
    sym.prove(x > 0, 'forward (link)')
    sym.prove(sym.close(math.tan(v) / r, math.tan(v) * math.cos(h)), 'q = tan v cos h (link)')
    sym.prove(sym.close(math.tan(v) / r * _TT, math.sin(s)), 'sin(asin(q tan T)) (link)')
    sym.prove(sym.close(math.tan(v) * math.cos(h) * _TT, math.sin(s)), 'q tan T = tan v cos h tan T = sin(s) (link)')
    tv, ch, cs, ss = math.tan(v), math.cos(h), math.cos(s), math.sin(s)
    sym.prove(sym.close(tv * x, (tv * ch * _TT) * (2 * cs)), 'regroup (link)')
    sym.prove(sym.close(tv * x, ss * (2 * cs)), 'substitute (link)')
    sym.prove(sym.close(tv * x, y), 'y = tan(v) x (link)')
    sym.prove(sym.close(math.tan(b2.lh_v1_vert_angle) * x, y), 'tan(atan2(y, x)) x = y (link)')
    sym.prove(sym.close(math.tan(b2.lh_v1_vert_angle), math.tan(v)), 'same tangent (link)')
    sym.prove(sym.close(b2.lh_v1_vert_angle, v), 'V1 -> V2 -> V1, vertical')
    if sym.symbolic:
        sym.prove((math.tan(v) / r * _TT > 0) == (v > 0), 'sign of q (link)')
        sym.prove((s > 0) == (v > 0), 'sign of the half difference (link)')
        sym.prove((a2 > a1) == (v > 0), 'second sweep angle is the larger one above the horizon')
    sym.goal('proved')


def h_conv_v2_v1_v2(sym):
    """V2 sweep angles -> V1 angles -> V2 sweep angles is the identity in the field of view."""
    _abstract_trig(sym)
    a1, a2 = _angle(sym, 'a1'), _angle(sym, 'a2')
    b = LighthouseBsVector.from_lh2(a1, a2)
    h, v = b.lh_v1_horiz_angle, b.lh_v1_vert_angle
    sym.prove(sym.close(h, (a1 + a2) / 2), 'horizontal angle is the mean of the sweep angles')
    beta = (a2 - a1) / 2
    y = math.sin(a2 - a1)
    x = _TT * (math.cos(a1) + math.cos(a2))
    sym.prove(sym.close(y, 2 * math.sin(beta) * math.cos(beta)), 'double angle (link)')
    sym.prove(sym.close(x, _TT * (2 * math.cos(h) * math.cos(beta))), 'sum to product (link)')
    sym.prove(x > 0, 'forward (link)')
    cb, ch, sb, tv = math.cos(beta), math.cos(h), math.sin(beta), math.tan(v)
    sym.prove(cb > 0, 'cos of the half difference is positive (link)')
    sym.prove(ch > 0, 'cos of the mean is positive (link)')
    sym.prove(sym.close(tv, y / x), 'tan(atan2(y, x)) = y / x for x > 0 (link)')
    sym.prove(sym.close(tv * x, y), 'tan v * x = y (link)')
    sym.prove(sym.close(tv * (_TT * (2 * ch * cb)), 2 * sb * cb), 'substitute (link)')
    sym.prove(sym.close(tv * _TT * ch, sb), 'tan of the vertical angle (link)')
    r = math.sqrt(1 + math.tan(h) ** 2)
    sym.prove(sym.close(r * ch, 1.0), '1/sqrt(1+tan^2) = cos (link)')
    sym.prove(sym.close(tv / r, tv * ch), 'q = tan v cos h (link)')
    sym.prove(sym.close(tv / r * _TT, sb), 'q tan T = sin(half difference) (link)')
    r1, r2 = b.lh_v2_angle_1, b.lh_v2_angle_2
    s2 = math.asin(tv / r * _TT)
    sym.prove(sym.close(s2, beta), 'asin(sin(half difference)) (link)')
    sym.prove(sym.close(r2 - h, s2), 'second sweep angle is h + asin(q tan T) (link)')
    sym.prove(abs(tv / r * _TT) < 1, 'asin argument in range (link)')
    s1 = math.asin(tv / r * math.tan(-math.pi / 6))
    sym.prove(sym.close(s1, -s2), 'asin is odd (link)')
    sym.prove(sym.close(r1 - h, s1), 'first sweep angle is h + asin(q tan(-T)) (link)')
    sym.prove(sym.close(h - r1, s2), 'first sweep angle is h - asin(q tan T) (link)')
    sym.prove(sym.close(r2, a2), 'V2 -> V1 -> V2, second sweep angle')
    sym.prove(sym.close(r1, a1), 'V2 -> V1 -> V2, first sweep angle')
    sym.goal('proved')


HARNESSES = [
    Harness('point_inverse[fwd]', h_point_inverse, quick=dict(direction='fwd'), float_model='real', goals=('proved',), timeout=(300, 900), per_path=900),
    Harness('point_inverse[inv]', h_point_inverse, quick=dict(direction='inv'), float_model='real', goals=('proved',), timeout=(300, 900), per_path=900,
),
    Harness('pose_inverse[t]', h_pose_inverse, quick=dict(part='t'), float_model='real', goals=('proved',), timeout=(300, 900), per_path=900),
] + [Harness(f'pose_inverse[R{i}]', h_pose_inverse, quick=dict(part=str(i)), float_model='real', goals=('proved',), timeout=(300, 900),
             per_path=900, tiers=('quick', 'thorough') if i == 0 else ('thorough',)) for i in range(3)] + [
    Harness('associativity', h_assoc, float_model='real', goals=('proved',), timeout=(300, 900), per_path=900),
] + [Harness(f'compose_orthonormal[{i}{j}]', h_compose_orthonormal, quick=dict(entry=(i, j)), float_model='real', goals=('proved',),
             timeout=(300, 900), per_path=900, tiers=('quick', 'thorough') if (i, j) in ((0, 0), (0, 1)) else ('thorough',))
     for i in range(3) for j in range(i, 3)] + [
    Harness('scale', h_scale, float_model='real', goals=('proved',), timeout=(120, 300)),
    Harness('inverse_after_scale', h_inverse_after_scale, float_model='real', goals=('proved',), timeout=(300, 900), per_path=900),
    Harness('inverse_after_scale[copy]', h_inverse_after_scale, quick=dict(copy=True), float_model='real', goals=('proved',), timeout=(300, 900), per_path=900),
    Harness('no_alias', h_no_alias, float_model='real', goals=('proved',), timeout=(120, 300)),
    Harness('conv_projection', h_conv_projection, float_model='real', goals=('proved',), timeout=(300, 900), per_path=900),
    Harness('conv_cart', h_conv_cart, float_model='real', goals=('proved',), timeout=(300, 900), per_path=900),
    Harness('conv_v1_v2_v1', h_conv_v1_v2_v1, float_model='real', goals=('proved',), timeout=(300, 900), per_path=900),
    Harness('conv_v2_v1_v2', h_conv_v2_v1_v2, float_model='real', goals=('proved',), timeout=(300, 900), per_path=900),
]
