"""C14 Stored configuration images round-trip and validity follows the checksum.

Oracles are written from the storage formats (firmware side), not from the parsing code:
  EEPROM   '0xBC' | version u8 | channel u8 | speed u8 | pitch f32 | roll f32 | [v1: address 5 bytes, MSB first byte
           then LE32] | checksum u8 = sum of all previous bytes mod 256       (configblock, versions 0 and 1)
  1-wire   0xEB | pins LE32 | vid u8 | pid u8 | crc u8   then   version u8 | length u8 | {id u8, len u8, bytes}* | crc u8
           crc = low byte of CRC-32 over the preceding bytes of that part
  lighthouse geometry page: origin 3 x f32, rotation 3x3 f32 row major, valid u8   (49 bytes, page id*0x100)
  lighthouse calibration page: 2 x (phase, tilt, curve, gibmag, gibphase, ogeemag, ogeephase) f32, uid u32, valid u8
           (61 bytes, 0x1000 + id*0x100)
  trajectory: Poly4D = x[8] y[8] z[8] yaw[8] duration, 33 x f32; compressed start = x y z (mm) yaw (0.1 deg) i16;
           compressed segment = types u8 (x:0-1 y:2-3 z:4-5 yaw:6-7; 0,1,2,3 <-> 0,1,3,7 points) | ms u16 | points i16
  LED timing entry: duration u8 | RGB565 big endian | leds:4 fade:1 rotate:3 ; sequence ends with an all-zero entry
  deck memory info v3: version u8 then 8 x 32 bytes: bits u8 | bits2 u8 | hash u32 | length u32 | base u32 | name[18]
  loco: count u8; anchor page 0x1000(+0x100*i) / 0x2000(+0x100*id): x y z f32, valid u8; id list: count u8, ids u8[16]
"""
import struct
from binascii import crc32

from vf.harness import Harness
from vf.explore import Inconclusive
from vf.env.c14_env import Mem, Other, Calls, YamlStore, install_format_stub, install_disjoint_or, install_bv_lowmask, \
    install_struct_int_bv, install_linear_crc, bv_int, all_equal, iff, install_bytes_split, \
    check_crc_model, prove_crc_models_equal

from cflib.crazyflie.mem.i2c_element import I2CElement
from cflib.crazyflie.mem.ow_element import OWElement
from cflib.crazyflie.mem.memory_element import MemoryElement

FUNCTIONS = ['cflib.localization.lighthouse_config_manager:LighthouseConfigWriter.write_and_store_config', 'cflib.localization.lighthouse_config_manager:LighthouseConfigWriter._next',
             'cflib.crazyflie.mem.i2c_element:I2CElement.new_data', 'cflib.crazyflie.mem.i2c_element:I2CElement.write_data',
             'cflib.crazyflie.mem.i2c_element:I2CElement.update', 'cflib.crazyflie.mem.i2c_element:I2CElement._checksum256',
             'cflib.crazyflie.mem.i2c_element:I2CElement.write_done',
             'cflib.crazyflie.mem.ow_element:OWElement.new_data', 'cflib.crazyflie.mem.ow_element:OWElement.write_data',
             'cflib.crazyflie.mem.ow_element:OWElement._parse_and_check_elements',
             'cflib.crazyflie.mem.ow_element:OWElement._parse_and_check_header', 'cflib.crazyflie.mem.ow_element:OWElement.update',
             'cflib.crazyflie.mem.lighthouse_memory:LighthouseBsGeometry', 'cflib.crazyflie.mem.lighthouse_memory:LighthouseBsCalibration',
             'cflib.crazyflie.mem.lighthouse_memory:LighthouseCalibrationSweep',
             'cflib.crazyflie.mem.lighthouse_memory:LighthouseMemory.new_data',
             'cflib.crazyflie.mem.lighthouse_memory:LighthouseMemory.new_data_failed',
             'cflib.crazyflie.mem.lighthouse_memory:LighthouseMemory.read_geo_data',
             'cflib.crazyflie.mem.lighthouse_memory:LighthouseMemory.read_calib_data',
             'cflib.crazyflie.mem.lighthouse_memory:LighthouseMemory.write_geo_data',
             'cflib.crazyflie.mem.lighthouse_memory:LighthouseMemory.write_calib_data',
             'cflib.crazyflie.mem.lighthouse_memory:LighthouseMemory.write_done',
             'cflib.localization.lighthouse_config_manager:LighthouseConfigFileManager.write',
             'cflib.localization.lighthouse_config_manager:LighthouseConfigFileManager.read',
             'cflib.localization.param_io:ParamFileManager.write', 'cflib.localization.param_io:ParamFileManager.read',
             'cflib.crazyflie.mem.trajectory_memory:Poly4D.pack', 'cflib.crazyflie.mem.trajectory_memory:CompressedStart.pack',
             'cflib.crazyflie.mem.trajectory_memory:CompressedSegment.pack', 'cflib.crazyflie.mem.trajectory_memory:CompressedSegment._encode_type',
             'cflib.crazyflie.mem.trajectory_memory:CompressedSegment._pack_element',
             'cflib.crazyflie.mem.trajectory_memory:TrajectoryMemory.write_data', 'cflib.crazyflie.mem.trajectory_memory:TrajectoryMemory.write_done',
             'cflib.crazyflie.mem.led_timings_driver_memory:LEDTimingsDriverMemory.add',
             'cflib.crazyflie.mem.led_timings_driver_memory:LEDTimingsDriverMemory.write_data',
             'cflib.crazyflie.mem.deck_memory:DeckMemory._parse', 'cflib.crazyflie.mem.deck_memory:DeckMemoryManager._parse_info_section',
             'cflib.crazyflie.mem.deck_memory:DeckMemoryManager.query_decks', 'cflib.crazyflie.mem.deck_memory:DeckMemoryManager._new_data',
             'cflib.crazyflie.mem.loco_memory:LocoMemory.new_data', 'cflib.crazyflie.mem.loco_memory:LocoMemory.update',
             'cflib.crazyflie.mem.loco_memory:AnchorData.set_from_mem_data',
             'cflib.crazyflie.mem.loco_memory_2:LocoMemory2.new_data', 'cflib.crazyflie.mem.loco_memory_2:LocoMemory2.update_id_list',
             'cflib.crazyflie.mem.loco_memory_2:LocoMemory2.update_active_id_list', 'cflib.crazyflie.mem.loco_memory_2:LocoMemory2.update_data',
             'cflib.crazyflie.mem.loco_memory_2:LocoMemory2._handle_id_list_data', 'cflib.crazyflie.mem.loco_memory_2:LocoMemory2._handle_anchor_data',
             'cflib.crazyflie.mem.loco_memory_2:AnchorData2.set_from_mem_data']
STUBS = ['Mem (vf/env/c14_env.py): byte-array memory handler standing in for cflib.crazyflie.mem.Memory; read/write only '
         'record the request, the harness delivers exactly one new_data/write_done (or failure) callback per request, never '
         're-entrantly',
         'YamlStore: open()/yaml.dump/yaml.safe_load in lighthouse_config_manager and param_io replaced by a lossless in-memory '
         'store (deep copies) - PyYAML and the file system are not executed',
         'format() of a symbolic byte buffer / of a symbolic int with empty spec yields a placeholder (only log lines and '
         'exception texts are built that way in the code under test; no assertion reads a message text)',
         'solver models local to vf/env/c14_env.py: CRC-32 as an affine map over GF(2) (validated in harness crc_model), '
         'hi<<k | lo as a sum when the solver proves the bit ranges disjoint, x & (2^k-1) on BV2Int terms as Extract, '
         'struct pack/unpack of bit-vector backed ints as byte slices, bytes.split(one byte) as a scan',
         'logging disabled']
ASSUMPTIONS = ['storage layouts are the ones in the docstring of vf/props/c14.py (firmware sources are not in the sandbox)',
               'float content is finite and within the float32 range (NaN payloads and infinities are not enumerated); the '
               'round trip is exact on the float32 rounding of the value',
               'lighthouse / trajectory float fields: one field symbolic at a time, the others pairwise distinct constants; LED '
               'colours: one 8 bit channel symbolic at a time',
               '1-wire images are structurally well-formed TLV lists with element ids 1..3 (ids are dict keys: forked '
               'concretely; string CONTENT and all other bytes symbolic); string lengths within the stated bound',
               'deck names are ASCII, bytes after the terminating NUL are all NUL or all non-NUL',
               'EEPROM single-byte corruption excludes the version byte flipping between 0 and 1: that changes which bytes are '
               'covered, and whether the result is valid then depends on bytes outside the original image (format property, '
               'same on the firmware side)',
               'EEPROM images of unknown version (>= 2) are never reported valid; that update() then never calls back is noted, '
               'not asserted']
OUTSIDE = ['PyYAML fidelity and file-system errors', 'LighthouseConfigWriter (upload + persist sequencing through the localization service)',
           '1-wire images with unknown element ids or truncated TLVs (KeyError / struct.error escape new_data)',
           'numeric value of the compressed-trajectory scaling for non-integer metres and arbitrary angles (C13)',
           'deck names with non-ASCII bytes (the library drops such a deck on purpose)', 'NaN / infinite float fields',
           'more than 2 one-wire elements x 5 characters (thorough), 99 characters for a single element']
EXPLANATION = 'C14: images are symbolic byte arrays / symbolic field values behind a byte-array memory handler; written images are ' \
              'compared with format-side reference encoders/decoders and read back through the real parsers.'

install_format_stub()
install_disjoint_or()
install_bv_lowmask()
install_struct_int_bv()
install_linear_crc()
install_bytes_split()

FLT_MAX = 3.4028234663852886e+38     # largest float32; doubles beyond it are not "representable content"


def f32(sym, name):
    """A double in the float32 range (packing it cannot overflow). The content that round-trips is its float32 rounding."""
    return sym.f64(name, finite=True, lo=-FLT_MAX, hi=FLT_MAX)


def as32(x):
    """float32 rounding of x as the device stores it."""
    return struct.unpack('<f', struct.pack('<f', x))[0]


def sbool(sym, name):
    return True if sym.bool(name) else False


def le32(b):
    return b[0] + 256 * b[1] + 65536 * b[2] + 16777216 * b[3]


# ================================================================ EEPROM (I2CElement)
TOKEN = [0x30, 0x78, 0x42, 0x43]       # '0xBC'


def eeprom_expected_valid(img):
    """Format-side verdict for a 21 byte EEPROM image; None when the version is unknown (no covered range defined)."""
    if img[0:4] != TOKEN:
        return False
    if img[4] == 0:
        return sum(img[0:15]) % 256 == img[15]
    if img[4] == 1:
        return sum(img[0:20]) % 256 == img[20]
    return None


def eeprom_parse(img):
    h = Mem(image=img)
    el = I2CElement(id=0, type=MemoryElement.TYPE_I2C, size=len(img), mem_handler=h)
    done = Calls()
    el.update(done)
    assert h.reads == [(0, 16)], 'update must start with the 16 byte header read'
    # data of another memory must not be taken for ours
    el.new_data(Other(5), 0, bytearray(img[0:16]))
    assert not el.valid and not done.calls
    h.serve_all()
    return el, h, done


def h_eeprom_valid(sym):
    """valid <=> token and checksum over the range selected by the version byte; decoded integer fields."""
    img = sym.bytes('img', 21)
    el, h, done = eeprom_parse(img)
    exp = eeprom_expected_valid(img)
    if exp is None:
        sym.goal('unknown-version')
        assert not el.valid, 'image of unknown version reported valid'
        return
    assert len(done.calls) == 1 and done.calls[0][0] is el, 'update callback not called exactly once'
    assert el.valid == exp, 'valid flag differs from token+checksum verdict'
    if exp:
        sym.goal('valid-v1' if img[4] == 1 else 'valid-v0')
        assert el.elements['version'] == img[4]
        assert el.elements['radio_channel'] == img[5] and el.elements['radio_speed'] == img[6]
        if img[4] == 1:
            assert h.reads == [(0, 16), (16, 5)]
            assert el.elements['radio_address'] == img[15] * 2 ** 32 + le32(img[16:20])
        else:
            assert h.reads == [(0, 16)]
    else:
        sym.goal('invalid')


def h_eeprom_corrupt(sym):
    """Any single corrupted byte of a valid image is detected.  Position is forked concretely, the image, the new
    byte value and the version are symbolic.  Excluded: the version byte flipping between 0 and 1 (this changes which
    bytes are covered; whether the result is valid then depends on bytes outside the original image: a property of the
    storage format, identical on the firmware side)."""
    ver = sym.choice('ver', 2)
    n = 16 if ver == 0 else 21
    img = sym.bytes('img', 21)
    img[0:4] = TOKEN
    img[4] = ver
    img[n - 1] = sum(img[0:n - 1]) % 256
    assert eeprom_expected_valid(img)
    pos = sym.choice('pos', n)
    new = sym.int('new', 0, 255)
    sym.assume(new != img[pos])
    bad = list(img)
    bad[pos] = new
    if pos == 4:
        sym.assume(new > 1)
    el, h, done = eeprom_parse(bad)
    assert not el.valid, 'corrupted image reported valid'
    sym.goal('corrupted')
    # the same element object refreshed: first the intact image (valid), then the corrupted one -> the verdict must follow the
    # image just read, not an earlier read
    el2, h2, done2 = eeprom_parse(img)
    assert el2.valid, 'intact image reported invalid'
    h2.image = list(bad)
    d3 = Calls()
    el2.update(d3)
    h2.serve_all()
    assert not el2.valid, 'corrupted image reported valid after an earlier valid read of the same element'
    sym.goal('refreshed')


def h_eeprom_roundtrip(sym):
    """write_data -> image has the firmware layout -> update/new_data gives back every field, valid."""
    ver = sym.choice('ver', 2)
    ch, speed = sym.int('channel', 0, 255), sym.int('speed', 0, 255)
    pitch, roll = f32(sym, 'pitch'), f32(sym, 'roll')
    addr = sym.int('address', 0, 2 ** 40 - 1)
    old = sym.bytes('old', 21)          # previous EEPROM content
    h = Mem(image=old)
    el = I2CElement(id=0, type=MemoryElement.TYPE_I2C, size=21, mem_handler=h)
    el.elements = {'version': ver, 'radio_channel': ch, 'radio_speed': speed, 'pitch_trim': pitch, 'roll_trim': roll}
    if ver == 1:
        el.elements['radio_address'] = addr
    wdone = Calls()
    el.write_data(wdone)
    assert len(h.writes) == 1 and h.writes[0][0] == 0, 'image must be written once, at address 0'
    body = [ver, ch, speed] + list(struct.pack('<ff', pitch, roll))
    if ver == 1:
        a = struct.pack('<Q', addr)
        body += [a[4]] + list(a[0:4])
    ref = TOKEN + body
    ref = ref + [sum(ref) % 256]
    assert h.writes[0][1] == ref, 'written image differs from the EEPROM layout'
    h.serve_all()
    assert len(wdone.calls) == 1 and wdone.calls[0] == (el, 0)
    # a fresh element reads it back
    el2 = I2CElement(id=0, type=MemoryElement.TYPE_I2C, size=21, mem_handler=h)
    done = Calls()
    el2.update(done)
    h.serve_all()
    assert len(done.calls) == 1
    assert el2.valid, 'correctly written image rejected'
    exp = {'version': ver, 'radio_channel': ch, 'radio_speed': speed, 'pitch_trim': as32(pitch), 'roll_trim': as32(roll)}
    if ver == 1:
        exp['radio_address'] = addr
    assert el2.elements == exp, 'fields lost or changed in the round trip'
    sym.goal('v1' if ver == 1 else 'v0')


# ================================================================ 1-wire (OWElement)
OW_NAMES = {1: 'Board name', 2: 'Board revision', 3: 'Custom'}
_PERMS2 = [(1, 2), (2, 1), (1, 3), (3, 1), (2, 3), (3, 2)]
_PERMS3 = [(1, 2, 3), (1, 3, 2), (2, 1, 3), (2, 3, 1), (3, 1, 2), (3, 2, 1)]


def bv_bytes(sym, name, n):
    """n symbolic bytes represented as 8-bit bit-vectors (CRCs over them stay in bit-vector logic)."""
    return [bv_int(sym, f'{name}{i}', 8) for i in range(n)]


def crc8(bs):
    """Low byte of CRC-32 over the bytes, as the deck firmware checks it."""
    return crc32(bytes(bs)) & 0xFF


def ow_elements(sym, distinct):
    """0..n elements: ids concrete-forked (they become dict keys), lengths concrete-forked, CONTENT symbolic bytes.
    -> list of (id, [bytes])"""
    n, maxlen = sym.B['n'], sym.B['maxlen']
    count = sym.choice('count', n + 1)
    if count == 0:
        ids = ()
    elif not distinct:
        ids = tuple(1 + sym.choice(f'id{i}', 3) for i in range(count))
    elif count == 1:
        ids = (1 + sym.choice('id0', 3),)
    elif count == 2:
        ids = _PERMS2[sym.choice('ids', 6)]
    else:
        ids = _PERMS3[sym.choice('ids', 6)]
    out = []
    lens = sym.B.get('lens') or tuple(range(maxlen + 1))
    for i, eid in enumerate(ids):
        out.append((eid, bv_bytes(sym, f's{i}_', lens[sym.choice(f'len{i}', len(lens))])))
    return out


def ow_ref_parse(img):
    """Reference reader of a 1-wire image (format side). -> (ok, pins, vid, pid, {id: [bytes]}, end)"""
    hdr_ok = img[0] == 0xEB and crc8(img[0:7]) == img[7]
    pins, vid, pid = img[1:5], img[5], img[6]
    total = img[9]
    area = img[8:8 + total + 3]
    crc_ok = crc8(area[:-1]) == area[-1]
    tlv, out = area[2:-1], {}
    while tlv:
        eid, ln = tlv[0], tlv[1]
        out[eid] = tlv[2:2 + ln]
        tlv = tlv[2 + ln:]
    return hdr_ok, crc_ok, pins, vid, pid, out, 8 + total + 3


def ow_read(h):
    el = OWElement(id=1, type=MemoryElement.TYPE_1W, size=112, addr=0x0123456789ABCDEF, mem_handler=h)
    done = Calls()
    el.update(done)
    assert h.reads[-1] == (0, 11)
    h.serve_all()
    return el, done


def h_ow_roundtrip(sym):
    vid, pid, pins = bv_int(sym, 'vid', 8), bv_int(sym, 'pid', 8), bv_int(sym, 'pins', 32)
    elems = ow_elements(sym, distinct=True)
    h = Mem(size=112)
    el = OWElement(id=1, type=MemoryElement.TYPE_1W, size=112, addr=0x0123456789ABCDEF, mem_handler=h)
    el.vid, el.pid, el.pins = vid, pid, pins
    content = {}
    for eid, b in elems:
        content[OW_NAMES[eid]] = bytes(b).decode('ISO-8859-1')
    el.elements = dict(content)
    wdone = Calls()
    el.write_data(wdone)
    assert len(h.writes) == 1 and h.writes[0][0] == 0, 'image must be written once, at address 0'
    # the written image, read with the format-side reader
    total = sum(2 + len(b) for _, b in elems)
    assert len(h.writes[0][1]) == 8 + 2 + total + 1, 'image length'
    hdr_ok, crc_ok, rpins, rvid, rpid, rel, end = ow_ref_parse(h.image)
    assert hdr_ok and crc_ok, 'written image has a wrong header byte or CRC'
    assert (rpins, rvid, rpid) == (list(struct.pack('<I', pins)), vid, pid), 'header fields misplaced'
    assert h.image[9] == total and sorted(rel) == sorted(eid for eid, _ in elems), 'element area differs from the TLV layout'
    for eid, b in elems:
        assert all_equal(rel[eid], b), 'element content differs from the TLV layout'
    h.serve_all()
    assert len(wdone.calls) == 1
    # read back as the library does it (11 bytes, then the element area)
    el2, done = ow_read(h)
    assert len(done.calls) == 1, 'update callback not called exactly once'
    assert el2.valid, 'correctly written image rejected'
    assert (el2.pins, el2.vid, el2.pid) == (pins, vid, pid), 'header fields lost'
    assert sorted(el2.elements) == sorted(content), 'elements lost or invented in the round trip'
    for eid, b in elems:
        assert all_equal(el2.elements[OW_NAMES[eid]].encode('ISO-8859-1'), b), 'element content changed in the round trip'
    sym.goal(f'{len(elems)}-elements')
    if h.reads == [(0, 11), (8, total + 3)]:
        sym.goal('two-step-read')


def h_ow_valid(sym):
    """Structurally well-formed image with arbitrary header bytes, arbitrary element content and arbitrary CRC bytes:
    valid <=> start byte and both CRCs match; when valid, the fields are those stored."""
    hdr = bv_bytes(sym, 'hdr', 8)
    ever, ecrc = bv_int(sym, 'ever', 8), bv_int(sym, 'ecrc', 8)
    elems = ow_elements(sym, distinct=False)
    tlv = []
    for eid, b in elems:
        tlv += [eid, len(b)] + b
    area = [ever, len(tlv)] + tlv + [ecrc]
    h = Mem(size=112)
    h.image[0:8 + len(area)] = hdr + area
    el, done = ow_read(h)
    exp = hdr[0] == 0xEB and crc8(hdr[0:7]) == hdr[7] and crc8(area[:-1]) == ecrc
    assert len(done.calls) == 1, 'update callback not called exactly once'
    assert el.valid == exp, 'valid flag differs from the CRC verdict'
    if exp:
        want = {}
        for eid, b in elems:
            want[OW_NAMES[eid]] = bytes(b).decode('ISO-8859-1')
        assert (list(struct.pack('<I', el.pins)), el.vid, el.pid) == (hdr[1:5], hdr[5], hdr[6])
        assert el.elements == want, 'valid image parsed to other elements than stored'
        sym.goal('valid')
    else:
        sym.goal('invalid')


# ================================================================ lighthouse memory layout
from cflib.crazyflie.mem.lighthouse_memory import (LighthouseMemory, LighthouseBsGeometry,      # noqa: E402
                                                    LighthouseBsCalibration, LighthouseMemHelper)

SWEEP_FIELDS = ('phase', 'tilt', 'curve', 'gibmag', 'gibphase', 'ogeemag', 'ogeephase')     # firmware struct order


_CONSTS = [0.5 + 0.25 * i if i % 2 else -(1.5 + 0.125 * i) for i in range(40)]     # pairwise distinct, exact in float32


def one_symbolic(sym, n, tag=''):
    """n float fields: one of them (position forked concretely) is a symbolic double of the whole float32 range, the
    others are pairwise distinct constants - a swapped or shifted field shows up whichever position is symbolic."""
    k = sym.choice(f'{tag}field', n)
    vals = list(_CONSTS[:n])
    vals[k] = f32(sym, f'{tag}x')
    return vals


def mk_geo(vals):
    g = LighthouseBsGeometry()
    g.origin = list(vals[0:3])
    g.rotation_matrix = [list(vals[3:6]), list(vals[6:9]), list(vals[9:12])]
    return g


def geo_floats(g):
    return list(g.origin) + [x for row in g.rotation_matrix for x in row]


def mk_calib(vals):
    c = LighthouseBsCalibration()
    for k, sw in enumerate(c.sweeps):
        for i, f in enumerate(SWEEP_FIELDS):
            setattr(sw, f, vals[7 * k + i])
    return c


def calib_floats(c):
    return [getattr(c.sweeps[k], f) for k in range(2) for f in SWEEP_FIELDS]


def h_lh_geo(sym):
    """write_geo_data -> page image has the firmware layout at id*0x100 -> read_geo_data gives the same geometry."""
    bs = sym.int('bs', 0, 15)
    g = mk_geo(one_symbolic(sym, 12))
    g.valid = sbool(sym, 'valid')
    h = Mem()
    m = LighthouseMemory(id=4, type=MemoryElement.TYPE_LH, size=0x2000, mem_handler=h)
    wdone, wfail = Calls(), Calls()
    m.write_geo_data(bs, g, wdone, write_failed_cb=wfail)
    assert len(h.writes) == 1
    addr, data, flush = h.writes[0]
    assert addr == bs * 0x100, 'geometry page address'
    ref = struct.pack('<12f?', *(geo_floats(g) + [g.valid]))
    assert len(data) == 49 and all_equal(data, ref), 'geometry page layout'
    h.serve()
    assert len(wdone.calls) == 1 and not wfail.calls
    done, fail = Calls(), Calls()
    m.read_geo_data(bs, done, update_failed_cb=fail)
    assert h.reads == [(addr, 49)]
    h.serve()
    assert len(done.calls) == 1 and not fail.calls
    back = done.calls[0][1]
    assert isinstance(back, LighthouseBsGeometry)
    assert all_equal(geo_floats(back), struct.unpack('<12f', ref[0:48])), 'geometry floats changed in the round trip'
    assert len(back.origin) == 3 and [len(r) for r in back.rotation_matrix] == [3, 3, 3]
    assert back.valid == g.valid
    sym.goal('valid' if g.valid else 'not-valid')


def h_lh_calib(sym):
    bs = sym.int('bs', 0, 15)
    c = mk_calib(one_symbolic(sym, 14))
    c.uid = sym.int('uid', 0, 2 ** 32 - 1)
    c.valid = sbool(sym, 'valid')
    h = Mem()
    m = LighthouseMemory(id=4, type=MemoryElement.TYPE_LH, size=0x2000, mem_handler=h)
    wdone = Calls()
    m.write_calib_data(bs, c, wdone)
    assert len(h.writes) == 1
    addr, data, flush = h.writes[0]
    assert addr == 0x1000 + bs * 0x100, 'calibration page address'
    ref = struct.pack('<14fL?', *(calib_floats(c) + [c.uid, c.valid]))
    assert len(data) == 61 and all_equal(data, ref), 'calibration page layout'
    h.serve()
    assert len(wdone.calls) == 1
    done = Calls()
    m.read_calib_data(bs, done)
    assert h.reads == [(addr, 61)]
    h.serve()
    assert len(done.calls) == 1
    back = done.calls[0][1]
    assert isinstance(back, LighthouseBsCalibration)
    assert all_equal(calib_floats(back), struct.unpack('<14f', ref[0:56])), 'calibration floats changed in the round trip'
    assert back.uid == c.uid and back.valid == c.valid
    sym.goal('valid' if c.valid else 'not-valid')


def h_lh_flags(sym):
    """Device-side pages with arbitrary uid and flag bytes: valid = (flag byte != 0), uid little endian at offset 56."""
    bs = sym.int('bs', 0, 15)
    uid, gflag, cflag = sym.bytes('uid', 4), sym.int('gflag', 0, 255), sym.int('cflag', 0, 255)
    h = Mem()
    h.preload(bs * 0x100, list(struct.pack('<12f', *_CONSTS[:12])) + [gflag])
    h.preload(0x1000 + bs * 0x100, list(struct.pack('<14f', *_CONSTS[:14])) + uid + [cflag])
    m = LighthouseMemory(id=4, type=MemoryElement.TYPE_LH, size=0x2000, mem_handler=h)
    done = Calls()
    m.read_geo_data(bs, done)
    h.serve()
    m.read_calib_data(bs, done)
    h.serve()
    assert len(done.calls) == 2
    g, c = done.calls[0][1], done.calls[1][1]
    assert geo_floats(g) == _CONSTS[:12] and calib_floats(c) == _CONSTS[:14]
    assert g.valid == (gflag != 0) and c.valid == (cflag != 0)
    assert c.uid == le32(uid)
    # a failed read is reported through the failure callback only
    fail = Calls()
    m.read_geo_data(bs, done, update_failed_cb=fail)
    h.serve(fail=True)
    assert len(done.calls) == 2 and len(fail.calls) == 1


class _CfWithLh:
    """What LighthouseMemHelper uses of a Crazyflie: cf.mem.get_mems(type)."""
    def __init__(self, lh):
        self.mem = self
        self._lh = lh

    def get_mems(self, t):
        return [self._lh] if t == MemoryElement.TYPE_LH else []


def h_lh_helper(sym):
    """LighthouseMemHelper.write_geos / write_calibs for a solver-chosen subset of base stations, then read_all_*: the device
    supports the first n base stations (requests for the others fail, as the firmware does).  Every object of the subset that
    the device supports is on its own page, nothing else is written, the done callback comes once with the right verdict, and
    reading everything gives back exactly the supported base stations with the written content."""
    what = sym.B['what']
    cand = list(sym.B.get('cand', (0, 1, 3, 15)))
    chosen = [i for i in cand if sbool(sym, f'bs{i}_in_subset')]
    # base stations whose pages the device serves: a prefix (what firmware builds differ in), or everything but 1 and 2 (a read
    # that fails for another reason in the middle of the sweep)
    sup = [set(range(2)), set(range(4)), set(range(16)), set(range(16)) - {1, 2}][sym.choice('supported_sel', 4)]
    h = Mem()
    m = LighthouseMemory(id=4, type=MemoryElement.TYPE_LH, size=0x2000, mem_handler=h)
    helper = LighthouseMemHelper(_CfWithLh(m))
    base = 0 if what == 'geo' else 0x1000
    objs = {}
    for k, i in enumerate(chosen):
        if what == 'geo':
            vals = [c + k for c in _CONSTS[:12]]
            if k == 0:
                vals[0] = f32(sym, 'x')
            objs[i] = mk_geo(vals)
        else:
            vals = [c + k for c in _CONSTS[:14]]
            if k == 0:
                vals[0] = f32(sym, 'x')
            objs[i] = mk_calib(vals)
            objs[i].uid = 1000 + i
        # a not-valid object is how a base station is removed from a configured device: it has to be written like any other
        objs[i].valid = sbool(sym, f'bs{i}_valid')

    def serve_all():
        n = 0
        while h.pending:
            n += 1
            assert n <= 40, 'helper keeps issuing requests'
            addr = h.pending[0][2]
            h.serve(fail=((addr - base) // 0x100 not in sup))
    done = Calls()
    (helper.write_geos if what == 'geo' else helper.write_calibs)(dict(objs), done)
    serve_all()
    assert len(done.calls) == 1, 'write done callback not called exactly once'
    assert (True if done.calls[0][0] else False) == all(i in sup for i in chosen), 'verdict of the write'
    assert sorted(a for (a, d, f) in h.writes) == [base + i * 0x100 for i in chosen], 'pages written: one per object of the subset'
    for (a, d, f) in h.writes:
        i = (a - base) // 0x100
        ref = struct.pack('<12f?', *(geo_floats(objs[i]) + [objs[i].valid])) if what == 'geo' else \
            struct.pack('<14fL?', *(calib_floats(objs[i]) + [objs[i].uid, objs[i].valid]))
        assert all_equal(d, ref), 'page content of a written object'
    rd = Calls()
    (helper.read_all_geos if what == 'geo' else helper.read_all_calibs)(rd)
    serve_all()
    assert len(rd.calls) == 1, 'read done callback not called exactly once'
    res = rd.calls[0][0]
    assert sorted(res.keys()) == sorted(sup), 'read_all returns exactly the base stations the device serves'
    for i in chosen:
        if i in sup:
            got, exp = (geo_floats(res[i]), geo_floats(objs[i])) if what == 'geo' else (calib_floats(res[i]), calib_floats(objs[i]))
            ref = struct.unpack('<%df' % len(exp), struct.pack('<%df' % len(exp), *exp))
            assert all_equal(got, ref), ('object read back differs from the one written', i)
            assert res[i].valid == objs[i].valid, 'valid flag read back differs from the one written'
            if not objs[i].valid:
                sym.goal('not-valid-object-written')
            if what != 'geo':
                assert res[i].uid == objs[i].uid
    # a second operation is accepted afterwards (no "not finished" record left)
    done2 = Calls()
    (helper.write_geos if what == 'geo' else helper.write_calibs)({}, done2)
    assert len(done2.calls) == 1 and done2.calls[0][0]
    sym.goal('subset-written' if chosen else 'empty-subset')
    if any(i not in sup for i in chosen):
        sym.goal('unsupported-in-subset')


def h_lh_config_writer(sym):
    """LighthouseConfigWriter.write_and_store_config on a device that already holds VALID geometry / calibration for some base
    stations: afterwards the device holds exactly the given configuration -- the given base stations with their content, every
    other base station of the system not valid ("all other base stations will be invalidated") -- all of them are persisted in
    one request, and the callback comes once, after the device confirmed the persist."""
    from cflib.localization.lighthouse_config_manager import LighthouseConfigWriter
    n = sym.B['n']
    what = sym.B['what']
    cand = list(range(n))
    given = [i for i in cand if sbool(sym, f'bs{i}_given')]
    before = [i for i in cand if sbool(sym, f'bs{i}_valid_before')]
    base = 0 if what == 'geo' else 0x1000
    h = Mem()
    m = LighthouseMemory(id=4, type=MemoryElement.TYPE_LH, size=0x2000, mem_handler=h)
    for i in before:        # what an earlier configuration left on the device
        old = struct.pack('<12f?', *([9.5 + i] * 12 + [True])) if what == 'geo' else struct.pack('<14fL?', *([7.25 + i] * 14 + [77, True]))
        h.preload(base + i * 0x100, list(old))

    class Loc:
        LH_PERSIST_DATA = 2

        def __init__(self):
            from cflib.utils.callbacks import Caller
            self.receivedLocationPacket = Caller()
            self.persist = []

        def send_lh_persist_data_packet(self, geos, calibs):
            self.persist.append((list(geos), list(calibs)))
    cf = _CfWithLh(m)
    cf.loc = Loc()
    objs = {}
    for k, i in enumerate(given):
        if what == 'geo':
            vals = [c + k for c in _CONSTS[:12]]
            if k == 0:
                vals[0] = f32(sym, 'x')
            objs[i] = mk_geo(vals)
        else:
            vals = [c + k for c in _CONSTS[:14]]
            if k == 0:
                vals[0] = f32(sym, 'x')
            objs[i] = mk_calib(vals)
            objs[i].uid = 1000 + i
        objs[i].valid = True
    w = LighthouseConfigWriter(cf, nr_of_base_stations=n)
    done = Calls()
    if what == 'geo':
        w.write_and_store_config(done, geos=dict(objs))
    else:
        w.write_and_store_config(done, calibs=dict(objs))
    k = 0
    while h.pending:
        k += 1
        assert k <= 3 * n + 4, 'writer keeps issuing requests'
        h.serve()
    assert done.calls == [], 'completion reported before the device confirmed that the data were persisted'
    assert cf.loc.persist == [(cand, []) if what == 'geo' else ([], cand)], 'every base station of the system is persisted, in one request'

    class P:
        type = Loc.LH_PERSIST_DATA
        data = True
    cf.loc.receivedLocationPacket.call(P())
    assert len(done.calls) == 1 and done.calls[0][0], 'completion callback: once, success'
    size = 49 if what == 'geo' else 61
    for i in cand:
        page = h.image[base + i * 0x100: base + i * 0x100 + size]
        if i in objs:
            ref = struct.pack('<12f?', *(geo_floats(objs[i]) + [True])) if what == 'geo' else \
                struct.pack('<14fL?', *(calib_floats(objs[i]) + [objs[i].uid, True]))
            assert all_equal(page, ref), ('the device does not hold the given data for base station', i)
        else:
            assert len(page) == size and page[size - 1] == 0, ('a base station that is not in the configuration is still valid on the device', i)
            if i in before:
                sym.goal('old-base-station-invalidated')
    sym.goal('configured' if given else 'all-invalidated')


# ================================================================ YAML files (lossless in-memory store instead of PyYAML)
import cflib.localization.lighthouse_config_manager as lcm      # noqa: E402
import cflib.localization.param_io as pio                       # noqa: E402
from cflib.crazyflie.param import PersistentParamState          # noqa: E402


def h_lh_file(sym):
    """LighthouseConfigFileManager.write -> documented file structure -> read gives back every valid base station.
    Per base station id (concrete ids from the bound): absent / present but not valid / valid, forked; all numbers
    symbolic doubles."""
    ids_g, ids_c = sym.B['geo_ids'], sym.B['calib_ids']
    geos, calibs, want_g, want_c = {}, {}, {}, {}
    for i in ids_g:
        st = sym.choice(f'geo{i}', 3)
        if st:
            g = mk_geo([sym.f64(f'g{i}_{k}', finite=True) for k in range(12)])
            g.valid = st == 2
            geos[i] = g
            if g.valid:
                want_g[i] = {'origin': list(g.origin), 'rotation': [list(r) for r in g.rotation_matrix]}
    for i in ids_c:
        st = sym.choice(f'calib{i}', 3)
        if st:
            c = mk_calib([sym.f64(f'c{i}_{k}', finite=True) for k in range(14)])
            c.uid = sym.int(f'uid{i}', 0, 2 ** 32 - 1)
            c.valid = st == 2
            calibs[i] = c
            if c.valid:
                want_c[i] = {'sweeps': [{f: getattr(sw, f) for f in SWEEP_FIELDS} for sw in c.sweeps], 'uid': c.uid}
    system_type = sym.int('system_type', 1, 2)
    store = YamlStore()
    undo = store.install(lcm)
    try:
        lcm.LighthouseConfigFileManager.write('sys.yaml', geos=geos, calibs=calibs, system_type=system_type)
        assert store.files['sys.yaml'] == {'type': 'lighthouse_system_configuration', 'version': '1',
                                           'systemType': system_type, 'geos': want_g, 'calibs': want_c}, 'file structure'
        r_geos, r_calibs, r_type = lcm.LighthouseConfigFileManager.read('sys.yaml')
    finally:
        undo()
    assert r_type == system_type
    assert sorted(r_geos) == sorted(want_g) and sorted(r_calibs) == sorted(want_c), 'base stations lost or invented'
    for i in want_g:
        assert isinstance(r_geos[i], LighthouseBsGeometry) and r_geos[i].valid
        assert geo_floats(r_geos[i]) == geo_floats(geos[i]), 'geometry changed through the file'
    for i in want_c:
        assert isinstance(r_calibs[i], LighthouseBsCalibration) and r_calibs[i].valid
        assert calib_floats(r_calibs[i]) == calib_floats(calibs[i]) and r_calibs[i].uid == calibs[i].uid
    if want_g and want_c:
        sym.goal('both')
    if len(want_g) < len(geos) or len(want_c) < len(calibs):
        sym.goal('invalid-skipped')
    if not want_g and not want_c:
        sym.goal('empty')


_TYPE_CASES = ['ok', 'missing', 'other', 'none']
_VERSION_CASES = ['ok', 'missing', '2', 1]


def _envelope(sym, ok_type):
    t, v = _TYPE_CASES[sym.choice('type_case', 4)], _VERSION_CASES[sym.choice('version_case', 4)]
    data = {}
    if t != 'missing':
        data['type'] = {'ok': ok_type, 'other': 'something_else', 'none': None}[t]
    if v != 'missing':
        data['version'] = '1' if v == 'ok' else v
    return data, t == 'ok' and v == 'ok'


def h_lh_file_envelope(sym):
    """A file with a missing / wrong type or version is refused with an exception; a file with the right envelope and
    no further sections reads as empty dictionaries and the default system type 2."""
    data, good = _envelope(sym, 'lighthouse_system_configuration')
    store = YamlStore()
    store.files['x.yaml'] = data
    undo = store.install(lcm)
    try:
        try:
            res = lcm.LighthouseConfigFileManager.read('x.yaml')
            raised = False
        except Exception:
            raised = True
    finally:
        undo()
    assert raised == (not good), 'wrong envelope accepted or right envelope refused'
    if good:
        assert res == ({}, {}, 2)
        sym.goal('accepted')
    else:
        sym.goal('refused')


_PARAM_NAMES = ['ring.effect', 'sound.freq', 'activeMarker.front', 'cppm.angPitch']


def h_param_file(sym):
    """ParamFileManager.write -> documented structure -> read gives back the same PersistentParamState per name."""
    params = {}
    for k in range(sym.B['n']):
        kind = sym.choice(f'kind{k}', 4)        # 0 absent, 1 not stored, 2 stored int, 3 stored float
        if kind == 0:
            continue
        if kind == 3:
            d, v = sym.f64(f'default{k}', finite=True), sym.f64(f'stored{k}', finite=True)
        else:
            d, v = sym.int(f'default{k}', -2 ** 31, 2 ** 32 - 1), sym.int(f'stored{k}', -2 ** 31, 2 ** 32 - 1)
        params[_PARAM_NAMES[k]] = PersistentParamState(kind != 1, d, v if kind != 1 else None)
    store = YamlStore()
    undo = store.install(pio)
    try:
        pio.ParamFileManager.write('p.yaml', params)
        assert store.files['p.yaml'] == {
            'type': 'persistent_param_state', 'version': '1',
            'params': {n: {'is_stored': p.is_stored, 'default_value': p.default_value, 'stored_value': p.stored_value}
                       for n, p in params.items()}}, 'file structure'
        back = pio.ParamFileManager.read('p.yaml')
    finally:
        undo()
    assert back == params and all(isinstance(p, PersistentParamState) for p in back.values()), 'parameters changed through the file'
    sym.goal('some' if params else 'none')


def h_param_file_envelope(sym):
    data, good = _envelope(sym, 'persistent_param_state')
    store = YamlStore()
    store.files['x.yaml'] = data
    undo = store.install(pio)
    try:
        try:
            res = pio.ParamFileManager.read('x.yaml')
            raised = False
        except Exception:
            raised = True
    finally:
        undo()
    assert raised == (not good), 'wrong envelope accepted or right envelope refused'
    if good:
        assert res == {}
        sym.goal('accepted')
    else:
        sym.goal('refused')


# ================================================================ write-only images: trajectories, LED timings
import math                                                                                  # noqa: E402
from cflib.crazyflie.mem.trajectory_memory import (Poly4D, CompressedStart, CompressedSegment,  # noqa: E402
                                                    TrajectoryMemory)
from cflib.crazyflie.mem.led_timings_driver_memory import LEDTimingsDriverMemory             # noqa: E402


def h_poly4d(sym):
    """Poly4D.pack = x[8] y[8] z[8] yaw[8] duration as 33 float32 (firmware struct poly4d); TrajectoryMemory.write_data
    writes the concatenation of the pieces at the start address and returns the byte count."""
    v = one_symbolic(sym, 33)
    p = Poly4D(v[32], Poly4D.Poly(v[0:8]), Poly4D.Poly(v[8:16]), Poly4D.Poly(v[16:24]), Poly4D.Poly(v[24:32]))
    ref = struct.pack('<33f', *v)
    img = p.pack()
    assert len(img) == 132 and all_equal(img, ref), 'Poly4D layout'
    q = Poly4D(1.5, Poly4D.Poly([1.0, 2.0, 3.0, 4.0, 5.0, 6.0, 7.0, 8.0]))      # y, z, yaw default to zeros
    qref = struct.pack('<33f', *([1.0, 2.0, 3.0, 4.0, 5.0, 6.0, 7.0, 8.0] + [0.0] * 24 + [1.5]))
    start = sym.int('start', 0, 4096)
    h = Mem()
    tm = TrajectoryMemory(id=2, type=MemoryElement.TYPE_TRAJ, size=4096 + 264, mem_handler=h)
    tm.trajectory = [p, q]
    done, fail = Calls(), Calls()
    n = tm.write_data(done, write_failed_cb=fail, start_addr=start)
    assert n == 264 and len(h.writes) == 1
    addr, data, flush = h.writes[0]
    assert addr == start and flush is True
    assert all_equal(data, list(ref) + list(qref)), 'trajectory image is not the concatenation of its pieces'
    tm.write_done(Other(9), start)
    assert not done.calls
    h.serve()
    assert len(done.calls) == 1 and not fail.calls
    sym.goal('written')


_YAWS = [(math.pi / 2, 900), (-math.pi / 4, -450), (0.1, 57), (math.pi, 1800), (-0.2, -114), (1.0, 572), (2.0, 1145)]
_LENS = (0, 1, 3, 7)
_DURATIONS = [(0.0, 0), (0.001, 1), (1.5, 1500), (65.535, 65535), (65.536, None)]


def h_compressed(sym):
    """Compressed trajectory: start = x y z in mm, yaw in 0.1 degree (int16 each); segment = type byte (2 bits per axis:
    0/1/3/7 control points <-> 0/1/2/3, x lowest), duration in ms (uint16), then the control points of x, y, z (mm) and
    yaw (0.1 deg) as int16, in that order.  Spatial values are symbolic whole metres, element lengths forked."""
    xs = [sym.int(f'm{i}', -32, 32) for i in range(4)]
    li = [sym.choice(f'len{a}', 4) for a in range(4)]
    yaw, yaw_ref = _YAWS[(li[0] + 3 * li[1] + li[3]) % len(_YAWS)]
    st = CompressedStart(xs[0], xs[1], xs[2], yaw)
    assert all_equal(st.pack(), struct.pack('<hhhh', 1000 * xs[0], 1000 * xs[1], 1000 * xs[2], yaw_ref)), 'compressed start layout'
    lens = [_LENS[i] for i in li]
    dur, ms = _DURATIONS[sym.choice('duration', len(_DURATIONS)) if sym.B.get('all_durations') else
                         (li[0] + 2 * li[1] + li[2] + li[3]) % len(_DURATIONS)]
    spatial, ref = [], []
    for a in range(3):
        el = [xs[a] if i == 0 else (a + 1) * 3 - i for i in range(lens[a])]
        spatial.append(el)
        ref += [1000 * e for e in el]
    yel = [_YAWS[i][0] for i in range(lens[3])]
    ref += [_YAWS[i][1] for i in range(lens[3])]
    seg = CompressedSegment(dur, spatial[0], spatial[1], spatial[2], yel)
    types = sum(_LENS.index(lens[a]) << (2 * a) for a in range(4))
    try:
        img = seg.pack()
    except struct.error:
        img = None
    if ms is None:
        assert img is None, 'duration beyond 65.535 s must be refused, not wrapped'
        sym.goal('refused')
        return
    assert img is not None
    assert all_equal(img, struct.pack('<BH' + 'h' * len(ref), types, ms, *ref)), 'compressed segment layout'
    sym.goal('segment')


def h_led_timings(sym):
    """LED timing sequence: per entry duration u8, RGB565 (high byte first; 5/6/5 bit channel = nearest value of the
    8 bit channel), leds (bits 0-3) | fade (bit 4) | rotate (bits 5-7); an all-zero entry terminates the sequence on the
    device, so such entries cannot be part of it."""
    n = sym.B['n']
    h = Mem()
    m = LEDTimingsDriverMemory(id=3, type=MemoryElement.TYPE_DRIVER_LEDTIMING, size=2000, mem_handler=h)
    want = []
    for k in range(n):
        t = sym.int(f't{k}', 0, 255)
        # one colour channel symbolic at a time (the three scalings in one query cost z3 ~10 s per path); 3 = black
        chan = sym.choice(f'chan{k}', 4)
        rgb = [0, 0, 0] if chan == 3 else [0x5A, 0xC3, 0x0F]
        if chan < 3:
            rgb[chan] = sym.int(f'c{k}', 0, 255)
        r, g, b = rgb
        leds, rot, fade = sym.int(f'leds{k}', 0, 15), sym.int(f'rot{k}', 0, 7), sbool(sym, f'fade{k}')
        m.add(t, {'r': r, 'g': g, 'b': b}, leds, fade, rot)
        want.append((t, (r * 31 + 127) // 255, (g * 63 + 127) // 255, (b * 31 + 127) // 255, leds + (16 if fade else 0) + 32 * rot))
    done = Calls()
    m.write_data(done)
    assert len(h.writes) == 1 and h.writes[0][0] == 0 and h.writes[0][2] is True
    data = h.writes[0][1]
    at = 0
    for t, r5, g6, b5, flags in want:
        if t == 0 and flags == 0 and r5 == 0 and g6 == 0 and b5 == 0:
            sym.goal('zero-entry-dropped')
            continue
        assert len(data) >= at + 8, 'entry missing'
        assert data[at] == t and data[at + 3] == flags, 'duration / flags byte'
        w = data[at + 1] * 256 + data[at + 2]
        assert w // 2048 == r5, 'red'
        assert (w // 32) % 64 == g6, 'green'
        assert w % 32 == b5, 'blue'
        at += 4
    assert len(data) == at + 4 and data[at:] == [0, 0, 0, 0], 'terminator'
    h.serve()
    assert len(done.calls) == 1
    if at == 4 * n:
        sym.goal('all-kept')


# ================================================================ deck memory info, loco anchors
from cflib.crazyflie.mem.deck_memory import DeckMemoryManager                 # noqa: E402
from cflib.crazyflie.mem.loco_memory import LocoMemory                        # noqa: E402
from cflib.crazyflie.mem.loco_memory_2 import LocoMemory2                     # noqa: E402

_BITS1 = [lambda d: d.is_valid, lambda d: d.is_started, lambda d: d.supports_read, lambda d: d.supports_write,
          lambda d: d.supports_fw_upgrade, lambda d: d.is_fw_upgrade_required, lambda d: d.is_bootloader_active]     # bit 0..6
_BITS2 = [lambda d: d.supports_reset_to_fw, lambda d: d.supports_reset_to_bootloader]                               # bit 0..1


def h_deck_info(sym):
    """Deck memory info section (version 3): one (quick) or two (thorough) of the 8 records fully symbolic."""
    ver = sym.int('version', 0, 255)
    supported = True if ver == 3 else False
    if not supported:            # decided first so that the record forks below are not multiplied by it
        slots = [5]
    else:
        slots = sorted(set(sym.choice(f'slot{j}', 8) for j in range(sym.B['records'])))
    img = [ver] + [0] * 256
    recs = {}
    for i in slots:
        # bits = 2 * (upper 7 bits, symbolic) + valid bit (forked: the name is only looked at for valid records)
        vbit = sym.choice(f'validbit{i}', 2)
        b1, b2 = 2 * sym.int(f'bits{i}', 0, 127) + vbit, sym.int(f'bits2_{i}', 0, 255)
        u = sym.bytes(f'u{i}_', 12)
        # name[18]: L non-zero ASCII characters, then (L < 18) a NUL followed by either NULs or non-zero garbage
        # (bytes.split on arbitrary bytes would enumerate every NUL pattern of the tail: 2^17 paths)
        lens = sym.B.get('namelens', tuple(range(19)))
        ln, garbage = (lens[sym.choice(f'namelen{i}', len(lens))], sym.B.get('garbage', True) and sbool(sym, f'garbage{i}')) \
            if vbit and supported else (0, False)
        name = [sym.int(f'name{i}_{k}', 1, 127) for k in range(ln)] + [0] * (18 - ln)
        for k in range(ln + 1, 18):
            if garbage:
                name[k] = sym.int(f'tail{i}_{k}', 1, 255)
        img[1 + 32 * i:1 + 32 * i + 32] = [b1, b2] + u + name
        recs[i] = (b1, b2, u, name, ln)
    h = Mem(image=img)
    mgr = DeckMemoryManager(id=7, type=MemoryElement.TYPE_DECK_MEMORY, size=0x2000, mem_handler=h)
    done, fail = Calls(), Calls()
    mgr.query_decks(done, fail)
    assert h.reads == [(0, 257)]
    h.serve(read_cb='_new_data')
    if not supported:
        assert len(fail.calls) == 1 and not done.calls, 'unsupported info version must be reported as failure'
        sym.goal('unsupported-version')
        return
    assert len(done.calls) == 1 and not fail.calls
    decks = done.calls[0][0]
    for i in range(8):
        if i not in recs:
            assert i not in decks
            continue
        b1, b2, u, name, ln = recs[i]
        if b1 % 2 == 0:
            assert i not in decks, 'record without the valid bit listed as a deck'
            sym.goal('not-valid')
            continue
        assert i in decks, 'valid record dropped'
        d = decks[i]
        for k, pred in enumerate(_BITS1):
            assert iff(pred(d), (b1 >> k) % 2 == 1), ('bit field 1, bit', k)
        for k, pred in enumerate(_BITS2):
            assert iff(pred(d), (b2 >> k) % 2 == 1), ('bit field 2, bit', k)
        assert (d.required_hash, d.required_length, d._base_address) == (le32(u[0:4]), le32(u[4:8]), le32(u[8:12]))
        assert d._command_base_address == 0x1000 + 0x20 * i
        want = name[:ln]
        assert len(d.name) == len(want) and [ord(ch) for ch in d.name] == want, 'deck name is not the bytes before the first NUL'
        sym.goal('valid')
        if len(want) == 18:
            sym.goal('name-18')


def _anchor(sym, tag, first):
    pos = [f32(sym, f'{tag}x') if first else _CONSTS[5], _CONSTS[7], _CONSTS[9]] if first else \
        [_CONSTS[11 + (len(tag) % 5)], _CONSTS[3], _CONSTS[2]]
    flag = sym.int(f'{tag}flag', 0, 255)
    return pos, flag, list(struct.pack('<fff', *pos)) + [flag]


def h_loco(sym):
    """LocoMemory: anchor count, then one 13 byte page per anchor at 0x1000 + 0x100*i (x y z float32, valid u8)."""
    n = sym.choice('n', sym.B['n'] + 1)
    h = Mem(size=1, fill=0)
    h.image[0] = n
    anchors = []
    for i in range(n):
        pos, flag, page = _anchor(sym, f'a{i}', i == 0)
        h.preload(0x1000 + 0x100 * i, page)
        anchors.append((pos, flag, page))
    m = LocoMemory(id=5, type=MemoryElement.TYPE_LOCO, size=0x2000, mem_handler=h)
    done = Calls()
    m.update(done)
    h.serve_all()
    assert h.reads == [(0, 1)] + [(0x1000 + 0x100 * i, 13) for i in range(n)], 'pages requested'
    assert len(done.calls) == 1 and m.valid and m.nr_of_anchors == n and len(m.anchor_data) == n
    for i, (pos, flag, page) in enumerate(anchors):
        a = m.anchor_data[i]
        assert all_equal(a.position, struct.unpack('<fff', bytes(page[0:12]))) and len(a.position) == 3
        assert a.is_valid == (flag != 0)
    sym.goal(f'{n}-anchors')


_IDSETS = [(), (0,), (255,), (7, 0), (1, 200), (255, 2, 3), (4, 200, 9)]


def h_loco2(sym):
    """LocoMemory2: id list (count, ids), active id list, one page per listed id at 0x2000 + 0x100*id."""
    ids = _IDSETS[sym.choice('ids', sym.B['sets'])]
    active = ids[:sym.choice('n_active', len(ids) + 1)]
    pad = sym.bytes('pad', 16)          # list entries beyond the count are stale device memory
    h = Mem(size=0x1011, fill=0)
    h.preload(0, [len(ids)] + list(ids) + pad[len(ids):])
    h.preload(0x1000, [len(active)] + list(active) + pad[len(active):])
    pages = {}
    for k, i in enumerate(ids):
        pos, flag, page = _anchor(sym, f'a{i}', k == 0)
        h.preload(0x2000 + 0x100 * i, page)
        pages[i] = (pos, flag, page)
    m = LocoMemory2(id=6, type=MemoryElement.TYPE_LOCO2, size=0x12000, mem_handler=h)
    d1, d2, d3 = Calls(), Calls(), Calls()
    m.update_id_list(d1)
    h.serve_all()
    m.update_active_id_list(d2)
    h.serve_all()
    assert h.reads == [(0, 17), (0x1000, 17)]
    assert len(d1.calls) == 1 and len(d2.calls) == 1 and m.ids_valid and m.active_ids_valid
    assert m.nr_of_anchors == len(ids) and list(m.anchor_ids) == list(ids) and list(m.active_anchor_ids) == list(active)
    m.update_data(d3)
    h.serve_all()
    if not ids:
        assert not d3.calls and h.reads == [(0, 17), (0x1000, 17)]      # nothing to fetch
        sym.goal('no-anchors')
        return
    assert h.reads[2:] == [(0x2000 + 0x100 * i, 13) for i in ids], 'pages requested'
    assert len(d3.calls) == 1 and m.data_valid and sorted(m.anchor_data) == sorted(ids)
    for i, (pos, flag, page) in pages.items():
        a = m.anchor_data[i]
        assert all_equal(a.position, struct.unpack('<fff', bytes(page[0:12]))) and a.is_valid == (flag != 0)
    sym.goal('anchors')


# ================================================================ validation of the CRC model used above
def h_crc_model(sym):
    """(a) the affine CRC-32 model of vf/env/c14_env.py equals CPython's binascii.crc32 on fixed vectors;
    (b) for every message of 1..2 (thorough: 3) bytes it equals the framework's bit-serial model (solver proof per
    output bit).  Longer messages rest on (a) and on CRC being affine over GF(2), which is how the model is built."""
    err = check_crc_model()
    assert err is None, err
    for n in sym.B['lengths']:
        res = prove_crc_models_equal(n)
        if res != 'unsat':
            assert res != 'sat', f'affine and bit-serial CRC models disagree for {n} bytes'
            raise Inconclusive(f'crc model equivalence for {n} bytes: {res}')


HARNESSES = [
    Harness('crc_model', h_crc_model, quick=dict(lengths=(1, 2)), thorough=dict(lengths=(1, 2, 3)), timeout=(250, 900)),
    Harness('eeprom_valid', h_eeprom_valid, goals=('valid-v0', 'valid-v1', 'invalid', 'unknown-version'), timeout=(200, 600)),
    Harness('eeprom_corrupt', h_eeprom_corrupt, goals=('corrupted', 'refreshed'), timeout=(200, 600)),
    Harness('ow_roundtrip', h_ow_roundtrip, quick=dict(n=2, maxlen=3), thorough=dict(n=2, maxlen=5), timeout=(250, 1500),
            goals=('0-elements', '1-elements', '2-elements', 'two-step-read')),
    Harness('ow_roundtrip[long]', h_ow_roundtrip, quick=dict(n=1, maxlen=16, lens=(5, 8, 16)),
            thorough=dict(n=1, maxlen=99, lens=(9, 16, 33, 72, 99)), timeout=(300, 1500), goals=('1-elements', 'two-step-read')),
    Harness('ow_valid', h_ow_valid, quick=dict(n=2, maxlen=2), thorough=dict(n=2, maxlen=3), timeout=(250, 1500),
            goals=('valid', 'invalid')),
    Harness('lh_geo', h_lh_geo, goals=('valid', 'not-valid'), timeout=(250, 900), smt_timeout=1.5),
    Harness('lh_calib', h_lh_calib, goals=('valid', 'not-valid'), timeout=(250, 900), smt_timeout=1.5),
    Harness('lh_flags', h_lh_flags, timeout=(250, 900)),
    Harness('lh_helper[geo]', h_lh_helper, quick=dict(what='geo', cand=(0, 1, 15)), thorough=dict(what='geo'), timeout=(400, 1200), smt_timeout=1.5,
            goals=('subset-written', 'empty-subset', 'unsupported-in-subset', 'not-valid-object-written'),
            note='LighthouseMemHelper: any subset of base stations 0, 1, 3, 15 (three of them in the quick tier), each valid or not valid, on a device serving the first 2, the first 4, all 16, or all but 1 and 2'),
    Harness('lh_helper[calib]', h_lh_helper, quick=dict(what='calib', cand=(1, 3, 15)), thorough=dict(what='calib'), timeout=(400, 1200), smt_timeout=1.5,
            goals=('subset-written', 'empty-subset', 'unsupported-in-subset', 'not-valid-object-written')),
    Harness('lh_config_writer[geo]', h_lh_config_writer, quick=dict(what='geo', n=2), thorough=dict(what='geo', n=3), timeout=(300, 900), smt_timeout=1.5,
            goals=('configured', 'all-invalidated', 'old-base-station-invalidated')),
    Harness('lh_config_writer[calib]', h_lh_config_writer, quick=dict(what='calib', n=2), thorough=dict(what='calib', n=3), timeout=(300, 900), smt_timeout=1.5,
            goals=('configured', 'all-invalidated', 'old-base-station-invalidated')),
    Harness('lh_file', h_lh_file, quick=dict(geo_ids=(0, 1, 15), calib_ids=(0, 15)),
            thorough=dict(geo_ids=(0, 1, 7, 15), calib_ids=(0, 8, 15)), goals=('both', 'invalid-skipped', 'empty'), timeout=(250, 1500)),
    Harness('lh_file_envelope', h_lh_file_envelope, goals=('accepted', 'refused')),
    Harness('param_file', h_param_file, quick=dict(n=3), thorough=dict(n=4), goals=('some', 'none'), timeout=(250, 900)),
    Harness('param_file_envelope', h_param_file_envelope, goals=('accepted', 'refused')),
    Harness('poly4d', h_poly4d, goals=('written',), timeout=(250, 900), smt_timeout=1.5),
    Harness('compressed', h_compressed, quick=dict(all_durations=False), thorough=dict(all_durations=True),
            goals=('segment', 'refused'), timeout=(250, 1500)),
    Harness('led_timings', h_led_timings, quick=dict(n=2), goals=('all-kept', 'zero-entry-dropped'), timeout=(250, 1500)),
    Harness('deck_info', h_deck_info, quick=dict(records=1), timeout=(300, 900),
            goals=('valid', 'not-valid', 'unsupported-version', 'name-18')),
    Harness('deck_info[2]', h_deck_info, quick=dict(records=2, namelens=(0, 5, 18), garbage=False), timeout=(300, 1500),
            goals=('valid', 'not-valid', 'name-18'), tiers=('thorough',)),
    Harness('loco', h_loco, quick=dict(n=2), thorough=dict(n=4), goals=('0-anchors', '2-anchors'), timeout=(250, 900), smt_timeout=1.5),
    Harness('loco2', h_loco2, quick=dict(sets=6), thorough=dict(sets=7), goals=('no-anchors', 'anchors'), timeout=(250, 900),
            smt_timeout=1.5, symbolic=False, note='anchor ids are forked over fixed sets (they become dict keys and page addresses)'),
    Harness('eeprom_roundtrip', h_eeprom_roundtrip, goals=('v0', 'v1'), timeout=(200, 600), smt_timeout=1.5),
]
