"""C12 Flashing writes exactly the image, nowhere else.

Harnesses
  pages[*]      real Bootloader._internal_flash against a recording Cloader stand-in and the abstract page model
                (vf/env/c12_env.py): image length, buffer pages, flash pages, start page, page override and the result of
                every flash write are solver variables; page size is chosen by the solver from a list.
  e2e[*]        real Bootloader._internal_flash + real Cloader.upload_buffer + real Cloader.write_flash against a link whose
                other end is the byte-level bootloader-target model: every packet is decoded from its wire bytes, every image
                byte is a solver variable, flash pages / start page / override are solver variables, flash-write
                transmissions are lost / executed-but-unanswered / answered negatively under solver control.
  div-lemma     IEEE-vs-real justification of the float model used by pages[*] (direct z3 query per page size).
  upload        real Cloader.upload_buffer: packet size and tiling of [address, address+len).
  retry-match   real Cloader.write_flash against one fully symbolic reply (header, length, all bytes).
  retry-count   real Cloader.write_flash against a scripted sequence of replies and stale packets.
  flash_release real Bootloader.start_bootloader + flash() with a release zip (firmwares with or without a bootloader+softdevice
                update) against a two-target craft model whose nRF51 start page moves when the new bootloader is installed.

Oracle side: protocol description in vf/env/c12_env.py. A flash page write is judged when the target executes it."""
import struct

from vf.harness import Harness
from vf.explore import Inconclusive
from vf.env.c12_env import Image, Geometry, PageModel, ByteModel, conc

import cflib.bootloader as BL
from cflib.bootloader import Bootloader, FlashArtifact
from cflib.bootloader import Target as ArtifactTarget
from cflib.bootloader.boottypes import Target as BootTarget, TargetTypes
from cflib.bootloader.cloader import Cloader
from cflib.crtp.crtpstack import CRTPPacket

FUNCTIONS = ['cflib.bootloader:Bootloader._internal_flash', 'cflib.bootloader:Bootloader.flash', 'cflib.bootloader:Bootloader.start_bootloader',
             'cflib.bootloader.cloader:Cloader._update_info', 'cflib.bootloader.cloader:Cloader.request_info_update', 'cflib.bootloader.cloader:Cloader.reset_to_bootloader', 'cflib.bootloader.cloader:Cloader.upload_buffer',
             'cflib.bootloader.cloader:Cloader.write_flash', 'cflib.bootloader.boottypes:TargetTypes.from_string',
             'cflib.bootloader.boottypes:TargetTypes.to_string', 'cflib.bootloader.boottypes:Target.__init__',
             'cflib.crtp.crtpstack:CRTPPacket']
STUBS = ['no link is opened: Bootloader(None)/Cloader(None) only store the URI; Cloader.link is a recording stub',
         'pages[*]: Bootloader._cload is a recording stand-in (upload_buffer/write_flash/targets/error_code) feeding the page model',
         'cflib.bootloader.sys.stdout and cflib.bootloader.print are silenced; progress_cb is a recording stub, '
         'terminate_flashing_cb returns False',
         'float model of pages[*]: real numbers for int((len-1)/page_size); harness div-lemma proves bit-precisely (z3 QF_FPBV) '
         'that IEEE double division + truncation gives the same integer for every length <= 2^25 and every page size used; '
         'e2e[*] runs the same expressions on CPython doubles with concrete lengths']
ASSUMPTIONS = ['bootloader protocol (load buffer 0x14, write flash 0x18, reply [target,0x18,done,error]) as described in '
               'vf/env/c12_env.py; RAM buffers keep their content between commands',
               'geometry fields are what the wire format can carry: page size, buffer pages, flash pages, start page are '
               'unsigned 16-bit; page_override is 0..65535 in pages[*] and -2..65535 in e2e[*] (a negative page cannot be put '
               'on the wire: struct.error before any flash write, accepted as refusal)',
               'an unanswered flash write may or may not have been executed by the target (both are explored)',
               'buffer-load packets are not lost (the radio link below the bootloader protocol is outside the claim)',
               'the bytes of the last flash page behind the end of the image are not constrained (page granularity of flash)']
OUTSIDE = ['zip/manifest variants other than the v1 manifest of flash_release (legacy s110 fallback, conflicting requirements), deck flashing, warm boot', 'radio link of the bootloader, loss of buffer-load packets',
           'Cloader.read_flash / _update_info (not part of the statement)', 'empty image (length 0)',
           'images of more pages than the bound of the harness (pages[*]: 6 pages quick, 9 / 12 / 31 pages thorough, with any number '
           'of buffer pages; e2e[*]: 2 buffer-fulls quick, 3 thorough)',
           'a positive flash-write reply that is delayed by more than one transmission (the reply carries no page number, so it '
           'could be taken for the answer to a later command: property of the protocol, not of this code)',
           'Cloader.write_flash reports failure when the positive reply answers the 6th (last) transmission, and raises IndexError '
           'on a matching reply shorter than 4 bytes: both abort the flashing, which the statement allows']
EXPLANATION = 'C12: Bootloader._internal_flash, Cloader.upload_buffer and Cloader.write_flash executed symbolically against a ' \
              'bootloader-target model that judges every flash page write when it is executed.'


# ------------------------------------------------------------------------------------------------ environment
class _Quiet:
    def write(self, *a):
        return 0

    def flush(self):
        pass


class _SysStub:
    stdout = _Quiet()


BL.sys = _SysStub          # _internal_flash writes progress dots to sys.stdout
BL.print = lambda *a, **k: None


def _is_control(e):
    """Exceptions that belong to the harness / the engine and must never be taken for a refusal by the code under test."""
    return isinstance(e, (AssertionError, Inconclusive)) or type(e).__module__.startswith('crosshair')


def _boot_target(tid, page_size, buffer_pages, flash_pages, start_page):
    t = BootTarget(tid)
    t.addr = tid                       # as Cloader._update_info does
    t.page_size, t.buffer_pages, t.flash_pages, t.start_page = page_size, buffer_pages, flash_pages, start_page
    return t


def _targets(nrf, P, Bp, FP, SP):
    """Both targets are known to the loader; the one that is NOT being flashed has an unrelated geometry."""
    me, other = (TargetTypes.NRF51, TargetTypes.STM32) if nrf else (TargetTypes.STM32, TargetTypes.NRF51)
    return me, {me: _boot_target(me, P, Bp, FP, SP), other: _boot_target(other, 7, 3, 11, 2)}


def _artifact(image, nrf, softdevice=False):
    return FlashArtifact(image, ArtifactTarget('cf2', 'nrf51' if nrf else 'stm32',
                                               'bootloader+softdevice' if softdevice else 'fw', [], []), None)


def _bootloader(with_progress=True):
    bl = Bootloader(None)              # stores the URI only
    log = []
    if with_progress:
        bl.progress_cb = lambda msg, pct: log.append(msg)
    bl.terminate_flashing_cb = lambda: False
    return bl


def _run_flash(bl, artifact, override):
    """-> True when _internal_flash raised (refusal/abort), False when it returned."""
    try:
        if override is None:
            bl._internal_flash(artifact)
        else:
            bl._internal_flash(artifact, 1, 1, override)
    except Exception as e:
        if _is_control(e):
            raise
        return True
    return False


# ------------------------------------------------------------------------------------------------ pages
OK, NOT_EXECUTED, REPLY_LOST = range(3)     # result of one Cloader.write_flash call as _internal_flash sees it


class _RecordingCload:
    """Stands where Bootloader._cload is: what _internal_flash asks for goes to the page model."""
    def __init__(self, targets, model, results):
        self.targets = targets
        self.error_code = 0
        self.model = model
        self.results = results
        self.n_writes = 0
        self.failed = False
        self.after_failure = 0

    def upload_buffer(self, target_id, page, address, buff):
        if self.failed:
            self.after_failure += 1
        self.model.load(target_id, page, address, buff)

    def write_flash(self, addr, page_buffer, target_page, page_count):
        if self.failed:
            self.after_failure += 1
        k = self.n_writes
        self.n_writes += 1
        if k >= len(self.results):
            raise Inconclusive('more flash writes than the harness bound')
        r = self.results[k]
        if r == OK:
            self.model.write(addr, page_buffer, target_page, page_count)
            return True
        self.failed = True
        self.error_code = -1
        if r == REPLY_LOST:                     # executed by the target, but write_flash never saw a positive answer
            self.model.write(addr, page_buffer, target_page, page_count)
        else:                                   # refused by the target or never received
            self.model.write_cmds += 1
        return False


def h_pages(sym):
    N = sym.B['max_pages']
    sizes = sym.B['page_sizes']
    P = sizes[sym.choice('page_size_sel', len(sizes))]
    Bp = sym.int('buffer_pages', 1, 65535)
    FP = sym.int('flash_pages', 0, 65535)
    SP = sym.int('start_page', 0, 65535)
    use_override = sym.B['override']
    OV = sym.int('page_override', 0, 65535)     # negative pages: e2e (the wire format decides there)
    L = sym.int('length', 1, N * P)
    nrf = sym.B['target'] == 'nrf51'
    faults = sym.B.get('faults', True)
    results = [sym.int(f'write_result{k}', 0, 2) if faults else OK for k in range(N)]
    sym.apply_known()

    me, targets = _targets(nrf, P, Bp, FP, SP)
    first = OV if use_override else SP
    geo = Geometry(me, P, Bp, FP, first, L, N)
    model = PageModel(geo, N)
    bl = _bootloader()
    bl._cload = rec = _RecordingCload(targets, model, results)
    raised = _run_flash(bl, _artifact(Image(L), nrf, softdevice=use_override), OV if use_override else None)

    assert rec.after_failure == 0, 'flashing went on after a failed flash write'
    if not geo.fits():
        assert raised, 'image that does not fit was not refused'
        assert model.write_cmds == 0, 'flash was written although the image does not fit'
        sym.goal('refused')
        return
    if rec.failed:
        assert raised, 'flashing reported success although a flash write failed'
        sym.goal('aborted')
        return
    assert not raised, 'image that fits was refused / flashing failed without a failing flash write'
    model.assert_complete()
    sym.goal('flashed')
    if len(model.flashed) > 1 and rec.n_writes > 1:
        sym.goal('several-writes')
    if L == len(model.flashed) * P:
        sym.goal('exact-multiple')


# ------------------------------------------------------------------------------------------------ e2e
class _TargetLink:
    """Link stub whose far end is the byte-level target model.  Decodes the wire bytes of every packet."""
    def __init__(self, sym, model, faults, budget, kinds):
        self.sym, self.model = sym, model
        self.faults, self.budget, self.kinds = faults, budget, kinds
        self.rx = []
        self.n_sent = 0
        self.write_tx = 0
        self.faults_used = 0
        self.cur = None              # wire bytes of the latest flash-write command
        self.acked = False           # a positive reply produced by executing `cur` has been delivered to the host
        self.delayed = []

    def close(self):
        pass

    def receive_packet(self, wait=0):
        if self.rx:
            return self.rx.pop(0)
        return None

    def unacknowledged(self):
        return self.cur is not None and not self.acked

    def send_packet(self, pk):
        """The host may send something other than the latest flash-write command only after a positive reply to that
        command has been delivered to it; what it has been delivered is decided before this packet is looked at."""
        self.n_sent += 1
        d = pk.data
        assert pk.header == 0xFF, 'bootloader packet with a header other than 0xFF'
        assert 2 <= len(d) <= 31, 'packet does not fit the 32-byte radio frame'
        may_go_on = not self.unacknowledged()
        if self.delayed:             # a delayed positive reply arrives now (after the decision to send this packet)
            self.rx.extend(self.delayed)
            self.delayed = []
            self.acked = True
        if d[1] == 0x14:
            assert may_go_on, 'flashing went on (buffer load) after a failed flash write'
            assert len(d) >= 6
            target, _, page, address = struct.unpack('<BBHH', d[0:6])
            self.model.load(target, page, address, list(d[6:]))
        elif d[1] == 0x18:
            assert len(d) == 8, 'malformed flash-write command'
            wire = list(d)
            if not may_go_on:
                assert wire == self.cur, 'flashing went on (different flash write) after a failed flash write'
            else:
                self.cur, self.acked = wire, False
            target, _, bufp, flashp, n = struct.unpack('<BBHHH', d[0:8])
            k = self.write_tx
            self.write_tx += 1
            f = 0
            if self.faults_used < self.budget and k < len(self.faults):
                f = conc(self.faults[k], 0, self.kinds - 1, 'fault kind')
            if f != 0:
                self.faults_used += 1
            if f == 0:                       # executed and answered
                self.model.write(target, bufp, flashp, n)
                self.rx.append(CRTPPacket(0xFF, [target, 0x18, 1, 0]))
                self.acked = True
            elif f == 1:                     # command lost
                pass
            elif f == 2:                     # executed, reply lost
                self.model.write(target, bufp, flashp, n)
            elif f == 3:                     # refused by the target
                self.model.write_cmds += 1
                self.rx.append(CRTPPacket(0xFF, [target, 0x18, 0, 5]))
            else:                            # executed, positive reply delayed until after the next transmission
                self.model.write(target, bufp, flashp, n)
                self.delayed.append(CRTPPacket(0xFF, [target, 0x18, 1, 0]))
        else:
            raise AssertionError('unexpected bootloader command')


def h_e2e(sym):
    sizes, bufs, fills = sym.B['page_sizes'], sym.B['buffer_pages'], sym.B['fills']
    P = sizes[sym.choice('page_size_sel', len(sizes))]
    Bp = bufs[sym.choice('buffer_pages_sel', len(bufs))]
    Lmax = P * Bp * fills
    lengths = sym.B.get('lengths')
    if lengths:                    # large geometry: lengths around the page/buffer borders only (see note of the harness)
        cand = sorted(set(x for x in lengths(P, Bp) if 1 <= x <= Lmax))
        L = cand[sym.choice('length_sel', len(cand))]
        nsym = sym.B['symbolic_bytes']
        image = [(i * 7 + 3) & 0xFF for i in range(L)]
        spots = sorted(set(x for x in (0, 24, 25, P - 1, P, L - 1, L - P, P * Bp - 1, P * Bp) if 0 <= x < L))[:nsym]
        vals = sym.bytes('img', nsym)
        for s, v in zip(spots, vals):
            image[s] = v
    else:
        L = conc(sym.int('length', 1, Lmax), 1, Lmax, 'length')
        image = sym.bytes('img', max(sizes) * max(bufs) * fills)[:L]
    FP = sym.int('flash_pages', 0, 65535)
    SP = sym.int('start_page', 0, 65535)
    use_override = sym.B['override']
    OV = sym.int('page_override', -2, 65535)
    nrf = sym.B['target'] == 'nrf51'
    with_progress = sym.B['progress_cb']
    T = sym.B['max_faulty_tx']
    faults = [sym.int(f'fault{k}', 0, sym.B['fault_kinds'] - 1) for k in range(T)]
    sym.apply_known()

    N = (Lmax + P - 1) // P
    me, targets = _targets(nrf, P, Bp, FP, SP)
    first = OV if use_override else SP
    geo = Geometry(me, P, Bp, FP, first, L, N)
    model = ByteModel(geo, image)
    bl = _bootloader(with_progress)
    bl._cload.targets = targets
    bl._cload.link = link = _TargetLink(sym, model, faults, sym.B['fault_budget'], sym.B['fault_kinds'])
    raised = _run_flash(bl, _artifact(image, nrf, softdevice=use_override), OV if use_override else None)

    if not geo.fits():
        assert raised, 'image that does not fit was not refused'
        assert link.write_tx == 0, 'flash write sent although the image does not fit'
        sym.goal('refused')
        return
    if raised:
        assert link.faults_used > 0, 'flashing failed although every flash write was executed and acknowledged'
        sym.goal('aborted')
        return
    assert not link.unacknowledged(), 'flashing reported success although the last flash write was not acknowledged'
    model.assert_complete()
    sym.goal('flashed')
    if link.faults_used > 0:
        sym.goal('flashed-after-retry')
    if L > P * Bp:
        sym.goal('several-buffer-fulls')


# ------------------------------------------------------------------------------------------------ Bootloader.flash (release zip)
class _Craft:
    """The two bootloader targets of a Crazyflie 2.x as the flashing host sees them (written from the bootloader protocol):
    get-info 0x10, load buffer 0x14, write flash 0x18, reset-init 0xFF, reset 0xF0.  A restart after a bootloader+softdevice
    image has been staged at the end of the nRF51 flash installs it: from then on the target reports the start page of the
    soft device the image provides."""
    def __init__(self, nrf_start, stm_geo, nrf_geo):
        self.geo = {TargetTypes.STM32: list(stm_geo), TargetTypes.NRF51: list(nrf_geo[:3]) + [nrf_start]}
        self.buf = {t: [0xEE] * (g[0] * g[1]) for t, g in self.geo.items()}
        self.flash = {t: {} for t in self.geo}
        self.writes = []            # (boot number, target, page)
        self.boots = 0
        self.rx = []
        self.staged_start = None    # start page the staged bootloader+softdevice will report once installed
        self.info_requests = []

    def handle(self, pk):
        d = list(pk.data)
        assert pk.header == 0xFF and 1 + len(d) <= 32, 'bootloader frame'
        t, cmd = d[0], d[1]
        if cmd == 0x10:
            ps, bp, fp, sp = self.geo[t]
            self.info_requests.append((self.boots, t))
            self.rx.append(CRTPPacket(0xFF, list(struct.pack('<BBHHHH', t, 0x10, ps, bp, fp, sp)) + list(range(12)) + [0x10]))
        elif cmd == 0x14:
            page, addr = struct.unpack('<HH', bytes(d[2:6]))
            off = page * self.geo[t][0] + addr
            assert off + len(d) - 6 <= len(self.buf[t]), 'buffer load outside the RAM buffers'
            self.buf[t][off:off + len(d) - 6] = d[6:]
        elif cmd == 0x18:
            bpage, fpage, n = struct.unpack('<HHH', bytes(d[2:8]))
            ps, bp, fp, sp = self.geo[t]
            assert bpage + n <= bp, 'flash write reads behind the RAM buffers'
            for k in range(n):
                assert fpage + k < fp, 'flash write beyond the flash size'
                self.flash[t][fpage + k] = list(self.buf[t][(bpage + k) * ps:(bpage + k + 1) * ps])
                self.writes.append((self.boots, t, fpage + k))
            self.rx.append(CRTPPacket(0xFF, [t, 0x18, 1, 0]))
        elif cmd == 0xFF:
            self.rx.append(CRTPPacket(0xFF, [t, 0xFF, 0x11, 0x22, 0x33, 0x44, 0, 0]))
        elif cmd == 0xF0:
            self.boots += 1
            del self.rx[:]
            if self.staged_start is not None and (self.geo[TargetTypes.NRF51][2] - 1) in self.flash[TargetTypes.NRF51]:
                self.geo[TargetTypes.NRF51][3] = self.staged_start
        # anything else (flash mapping request) stays unanswered


class _CraftLink:
    def __init__(self, craft, uri):
        self.craft, self.uri, self.closed = craft, uri, False

    def send_packet(self, pk):
        assert not self.closed, 'packet sent on a closed bootloader link'
        self.craft.handle(pk)

    def receive_packet(self, wait=0):
        return self.craft.rx.pop(0) if self.craft.rx else None

    def scan_selected(self, uris):
        return (uris[1],)

    def close(self):
        self.closed = True


class _Clock:
    def __init__(self):
        self.now = 1000.0

    def time(self):
        self.now += 0.01
        return self.now

    def sleep(self, d):
        self.now += d


_SD_PAGE = {'sd-s110': 88, 'sd-s130': 108}


def h_flash_release(sym):
    """Bootloader.start_bootloader + Bootloader.flash with a release zip (manifest v1): nRF51 and STM32 firmware, with or
    without a bootloader+softdevice update, on a craft running either soft device.  Whatever the library decides to flash
    ends up at the start page the target reports WHEN that image is flashed, and nowhere else; a combination the library
    refuses is refused before anything is written."""
    import io
    import json
    import os
    import tempfile
    import zipfile
    import contextlib
    import cflib.crtp
    import cflib.bootloader.cloader as CL
    SDS = ['sd-s110', 'sd-s130']
    sd_before = SDS[sym.choice('sd_before', 2)]
    zip_has_sd = True if sym.bool('zip_has_bootloader_softdevice') else False
    sd_provided = SDS[sym.choice('sd_provided', 2)] if zip_has_sd else None
    fw_requires = SDS[sym.choice('fw_requires', 2)]
    NP, SP_ = 64, 128                 # small pages; the page NUMBERS are the real ones
    nrf_lens = [1, NP, 2 * NP + 17]
    stm_lens = [SP_ * 3 + 40, SP_ * 7]           # more than one buffer-full (3 buffer pages)
    nrf_fw = [(i * 7 + 3) % 251 + 1 for i in range(nrf_lens[sym.choice('nrf_len', len(nrf_lens))])]
    stm_fw = [(i * 5 + 11) % 251 + 1 for i in range(stm_lens[sym.choice('stm_len', len(stm_lens))])]
    sd_img = [(i * 3 + 1) % 251 + 1 for i in range(8 * NP)]
    sym.apply_known()
    NRF, STM = TargetTypes.NRF51, TargetTypes.STM32
    craft = _Craft(_SD_PAGE[sd_before], (SP_, 3, 64, 4), (NP, 1, 232))
    if zip_has_sd:
        craft.staged_start = _SD_PAGE[sd_provided]

    def meta(target, typ, **kw):
        m = {'platform': 'cf2', 'target': target, 'type': typ, 'release': '2025.02', 'repository': 'x'}
        m.update(kw)
        return m
    files = {'cf2_nrf.bin': (bytes(nrf_fw), meta('nrf51', 'fw', requires=[fw_requires])),
             'cf2_stm.bin': (bytes(stm_fw), meta('stm32', 'fw'))}
    if zip_has_sd:
        files = dict([('sd_bl.bin', (bytes(sd_img), meta('nrf51', 'bootloader+softdevice', provides=[sd_provided], release='1.1')))] +
                     list(files.items()))
    tmp = tempfile.mkdtemp(prefix='vf-c12-')
    zpath = os.path.join(tmp, 'release.zip')
    with zipfile.ZipFile(zpath, 'w') as zf:
        for name, (content, m) in files.items():
            zf.writestr(name, content)
        zf.writestr('manifest.json', json.dumps({'version': 1, 'subversion': 1, 'release': 'r', 'files': {n: m for n, (_, m) in files.items()}}))
    saved = (cflib.crtp.get_link_driver, BL.time, CL.time)
    clock = _Clock()
    cflib.crtp.get_link_driver = lambda uri, *a, **k: _CraftLink(craft, uri)
    BL.time = clock
    CL.time = clock
    raised = None
    try:
        bl = Bootloader('radio://0/80/2M/E7E7E7E7E7')
        with contextlib.redirect_stdout(io.StringIO()):
            assert bl.start_bootloader(warm_boot=False), 'bootloader not found'
            try:
                bl.flash(zpath, [])
            except Exception as e:
                if _is_control(e):
                    raise
                raised = e
    finally:
        cflib.crtp.get_link_driver, BL.time, CL.time = saved
        os.remove(zpath)
        os.rmdir(tmp)

    satisfiable = fw_requires == sd_before or sd_provided == fw_requires
    if raised is not None:
        assert not satisfiable, f'flashing a consistent release failed: {type(raised).__name__}: {raised}'
        assert craft.writes == [], 'a release that is refused was partly written'
        sym.goal('refused')
        return
    assert satisfiable, 'firmware flashed although the soft device it requires is neither present nor provided'
    nrf_start = craft.geo[NRF][3]            # what the target reports now
    if craft.boots:
        sym.goal('restarted-into-new-bootloader')
        if nrf_start != _SD_PAGE[sd_before]:
            sym.goal('start-page-moved')
    last_boot = craft.boots

    def pages(img, ps, first):
        return {first + k: img[k * ps:(k + 1) * ps] for k in range((len(img) + ps - 1) // ps)}
    exp_nrf, exp_stm = pages(nrf_fw, NP, nrf_start), pages(stm_fw, SP_, 4)
    for t, exp, name in ((NRF, exp_nrf, 'nRF51'), (STM, exp_stm, 'STM32')):
        for pg, chunk in exp.items():
            got = craft.flash[t].get(pg)
            assert got is not None and got[:len(chunk)] == chunk, \
                f'{name} firmware is not at the start page the target reports ({nrf_start if t == NRF else 4}): page {pg}'
        stray = sorted(set(p_ for (b, tt, p_) in craft.writes if tt == t and b == last_boot and p_ not in exp))
        if t == NRF and last_boot == 0 and zip_has_sd:
            stray = []      # no restart happened: judged below
        assert not stray, f'{name}: pages outside the image were written after the last restart: {stray}'
    if craft.boots:
        # before the restart: only the staged bootloader+softdevice (end of flash) and the erased first firmware page
        staged = set(range(232 - len(sd_img) // NP, 232))
        early = set(p_ for (b, tt, p_) in craft.writes if tt == NRF and b < last_boot)
        assert early <= staged | {_SD_PAGE[sd_before]}, f'pages written before the restart: {sorted(early - staged)}'
        assert all(craft.flash[NRF][p_] == sd_img[(p_ - min(staged)) * NP:(p_ - min(staged) + 1) * NP] for p_ in staged), \
            'bootloader+softdevice image not staged at the end of the flash'
    sym.goal('flashed')


# ------------------------------------------------------------------------------------------------ upload_buffer
class _RecLink:
    def __init__(self):
        self.sent = []

    def send_packet(self, pk):
        self.sent.append(pk)

    def receive_packet(self, wait=0):
        return None


def h_upload(sym):
    nmax = sym.B['max_len']
    n = conc(sym.int('len', 0, nmax), 0, nmax, 'len')
    if sym.B.get('ff_slots'):
        # content classes instead of symbolic bytes: each 25-byte slot is all 0xFF (erased-flash padding) or a pattern, chosen
        # by the solver; every byte must still be loaded (the target's RAM buffer keeps whatever an earlier load left there)
        sel = [True if sym.bool(f'slot{k}_is_ff') else False for k in range((nmax + 24) // 25)]
        buff = [0xFF if sel[i // 25] else (i * 7 + 3) % 251 for i in range(n)]
        if any(sel[k] and (k + 1) * 25 <= n for k in range(len(sel))):
            sym.goal('ff-slot')                 # a full 25-byte packet of 0xFF
    else:
        buff = sym.bytes('b', nmax)[:n]
    target = sym.int('target', 0, 255)
    page = sym.int('page', 0, 65535)
    address = sym.int('address', 0, 65535)
    sym.assume(address + n <= 65535)            # a buffer page is at most 65535 bytes (u16 page size)
    sym.apply_known()
    cl = Cloader(None)
    cl.link = link = _RecLink()
    cl.upload_buffer(target, page, address, buff)

    covered = [0] * n
    done = 0
    for pk in link.sent:
        d = pk.data
        assert pk.header == 0xFF, 'bootloader packet with a header other than 0xFF'
        assert 6 <= len(d) <= 31, 'buffer-load packet does not fit the 32-byte radio frame'
        t, cmd, pg, ad = struct.unpack('<BBHH', d[0:6])
        assert t == target and cmd == 0x14 and pg == page, 'buffer-load header'
        k = len(d) - 6
        off = ad - address
        if off == done:
            off = done
        else:
            off = conc(off, 0, n, 'offset of a buffer-load packet')
        assert off + k <= n, 'buffer-load packet reaches beyond the data'
        assert list(d[6:]) == buff[off:off + k], 'buffer-load packet carries bytes that do not belong at its address'
        for i in range(off, off + k):
            covered[i] += 1
        done = off + k
    assert covered == [1] * n, 'a byte is loaded twice or not at all'
    if len(link.sent) > 1:
        sym.goal('split')
    if n > 0 and n % 25 == 0:
        sym.goal('exact-multiple-of-25')


# ------------------------------------------------------------------------------------------------ write_flash
class _ScriptLink:
    """receive_packet(0) drains what is already queued; a blocking receive_packet returns the scripted answer to the
    transmission that preceded it.  One scripted answer per transmission: asking for more fails the harness."""
    def __init__(self, stale, script):
        self.sent = []
        self.queue = list(stale)
        self.script = script
        self.n_recv = 0

    def send_packet(self, pk):
        self.sent.append(pk)

    def receive_packet(self, wait=0):
        if self.queue:
            return self.queue.pop(0)
        if not wait:
            return None
        k = self.n_recv
        self.n_recv += 1
        assert k < len(self.script), 'more flash-write transmissions than the bound'
        return self.script[k]


def _call_write_flash(cl, addr, pb, tp, cnt):
    try:
        return 'true' if cl.write_flash(addr, pb, tp, cnt) else 'false'
    except Exception as e:
        if _is_control(e):
            raise
        return 'raised'


def _check_transmissions(link, addr, pb, tp, cnt, max_tx):
    assert 1 <= len(link.sent) <= max_tx, 'number of flash-write transmissions'
    want = list(struct.pack('<BBHHH', addr, 0x18, pb, tp, cnt))
    for pk in link.sent:
        assert pk.header == 0xFF and list(pk.data) == want, 'flash-write command bytes'


def h_retry_match(sym):
    max_tx = sym.B['max_tx']
    addr = sym.int('addr', 0, 255)
    pb, tp, cnt = sym.int('page_buffer', 0, 65535), sym.int('target_page', 0, 65535), sym.int('count', 0, 65535)
    present = True if sym.bool('answered') else False
    n = sym.choice('reply_len', 6)
    hdr = sym.int('reply_header', 0, 255)
    data = sym.bytes('r', 5)[:n]
    sym.apply_known()
    reply = CRTPPacket(hdr, list(data)) if present else None      # as the link drivers build received packets
    cl = Cloader(None)
    cl.link = link = _ScriptLink([], [reply] + [None] * (max_tx - 1))
    res = _call_write_flash(cl, addr, pb, tp, cnt)
    _check_transmissions(link, addr, pb, tp, cnt, max_tx)

    matching = bool(present and (hdr | 0x0C) == 0xFF and n >= 2 and data[0] == addr and data[1] == 0x18)
    success = bool(matching and n >= 3 and data[2] == 1)
    if res == 'true':
        assert success, 'flash write reported as done without a done==1 reply to this command'
        assert len(link.sent) == 1
        sym.goal('success')
    if success and n >= 4:
        assert res == 'true', 'well-formed positive reply not accepted'
    if not matching:            # (an exception on a stray packet also aborts the flashing: allowed)
        assert res != 'true'
        if res == 'false':
            assert cl.error_code == -1, 'unanswered flash write must fail with error_code -1'
            sym.goal('exhausted')
        if not present:
            assert res == 'false' and len(link.sent) >= 2, 'unanswered flash write was not retried'
    if matching and not success:
        sym.goal('negative')


def h_retry_count(sym):
    max_tx = sym.B['max_tx']
    nfull = sym.B.get('symbolic_wrong', 0)      # in the first nfull slots a non-matching packet has symbolic header/target/command
    addr = sym.int('addr', 0, 255)
    other = (addr + 1) % 256
    pb, tp, cnt = 0, sym.int('target_page', 0, 65535), sym.int('count', 1, 10)

    def wrong(tag, i):
        if tag == 'w' and i < nfull:
            h, a, c = sym.int(f'{tag}_hdr{i}', 0, 255), sym.int(f'{tag}_addr{i}', 0, 255), sym.int(f'{tag}_cmd{i}', 0, 255)
            sym.assume((h | 0x0C) != 0xFF or a != addr or c != 0x18)
            return CRTPPacket(h, [a, c, 1, 0])
        return [CRTPPacket(0xFF, [addr, 0x14, 1, 0]), CRTPPacket(0xFF, [other, 0x18, 1, 0]), CRTPPacket(0xEF, [addr, 0x18, 1, 0]),
                CRTPPacket(0xFF, [addr])][i % 4]

    NONE, WRONG, NEG, POS = range(4)
    kinds = []
    script = []
    for i in range(max_tx):
        k = conc(sym.int(f'reply{i}', 0, 3), 0, 3, 'reply kind')
        kinds.append(k)
        script.append(None if k == NONE else wrong('w', i) if k == WRONG else
                      CRTPPacket(0xFF, [addr, 0x18, 0, 9]) if k == NEG else CRTPPacket(0xFF, [addr, 0x18, 1, 0]))
        if k >= NEG:
            break                       # later slots can only matter to code that goes on after a reply; see below
    while len(script) < max_tx:         # ... and then they are unanswered
        kinds.append(NONE)
        script.append(None)
    ns = conc(sym.int('n_stale', 0, 2), 0, 2, 'stale packets')
    stale = [[CRTPPacket(0xFF, [addr, 0x18, 1, 0])], [wrong('s', 1), CRTPPacket(0xFF, [addr, 0x18, 1, 0])]][ns - 1] if ns else []
    sym.apply_known()
    cl = Cloader(None)
    cl.link = link = _ScriptLink(stale, script)
    res = _call_write_flash(cl, addr, pb, tp, cnt)
    _check_transmissions(link, addr, pb, tp, cnt, max_tx)

    ntx = len(link.sent)
    if res == 'true':
        assert kinds[ntx - 1] == POS and link.n_recv == ntx, \
            'flash write reported as done although the answer to its last transmission was not a positive reply'
        sym.goal('success')
        if ntx > 1:
            sym.goal('success-after-retry')
    if all(k in (NONE, WRONG) for k in kinds):          # (an exception on a stray packet also aborts the flashing: allowed)
        assert res != 'true'
        if res == 'false':
            assert cl.error_code == -1, 'unanswered flash write must fail with error_code -1'
            sym.goal('exhausted')
        if all(k == NONE for k in kinds):
            assert res == 'false' and ntx >= 2, 'unanswered flash write was not retried'
    first = next((i for i, k in enumerate(kinds) if k >= NEG), None)
    if first is not None and kinds[first] == POS and (first == 0 or (first == 1 and kinds[0] == NONE)):
        assert res == 'true', 'positive reply to the first transmission, or to the first retransmission, not accepted'
    if first is not None and kinds[first] == NEG and res == 'false':
        sym.goal('negative')
    if ns:
        sym.goal('stale-flushed')


# ------------------------------------------------------------------------------------------------ float model lemma
def h_div_lemma(sym):
    """pages[*] run `int((len(image) - 1) / page_size)` of _internal_flash on real numbers.  This lemma closes the gap to
    CPython: for every length up to 2^bits and every page size used by pages[*], IEEE-754 double division (RNE) followed
    by truncation gives the same integer.  One bit-precise z3 query (QF_FPBV) per page size; a model is handed to the
    explorer as the counterexample and replayed on CPython."""
    sizes, bits = sym.B['page_sizes'], sym.B['bits']
    P = sizes[sym.choice('page_size_sel', len(sizes))]
    L = sym.int('length', 1, 1 << bits)
    if not sym.symbolic:
        assert int((L - 1) / P) == (L - 1) // P, 'IEEE division differs from the real-number model'
        return
    import z3
    from crosshair.tracers import NoTracing
    with NoTracing():
        f64 = z3.Float64()
        bv = z3.BitVec('length_bv', 32)
        s = z3.Solver()
        s.set('timeout', 600 * 1000)
        s.add(z3.UGE(bv, 1), z3.ULE(bv, 1 << bits))
        quot = z3.fpDiv(z3.RNE(), z3.fpSignedToFP(z3.RNE(), bv - 1, f64), z3.FPVal(float(P), f64))
        s.add(z3.fpToSBV(z3.RTZ(), quot, z3.BitVecSort(32)) != z3.UDiv(bv - 1, z3.BitVecVal(P, 32)))
        r = s.check()
        if r == z3.sat:
            sym.space.add(L.var == s.model()[bv].as_long())
        elif r != z3.unsat:
            raise Inconclusive('division lemma undecided for page size %d' % P)
    assert r != z3.sat, 'IEEE division differs from the real-number model'
    sym.goal('proved')


def _border_lengths(P, Bp):
    out = []
    for base in (0, P, P * Bp, 2 * P * Bp):
        out += [base - 1, base, base + 1, base + 24, base + 25, base + 26]
    return out


_SMALL = [1, 2, 3, 4]
_PAGES_GOALS = ('refused', 'aborted', 'flashed', 'several-writes', 'exact-multiple')
_COMBOS = [('stm32', False), ('nrf51', False), ('nrf51', True)]
HARNESSES = [
    Harness(f'pages[small,{t}{",override" if o else ""}]', h_pages,
            quick=dict(max_pages=6, page_sizes=_SMALL, target=t, override=o),
            thorough=dict(max_pages=9, page_sizes=_SMALL + [5, 6, 7, 8], target=t, override=o),
            float_model='real', timeout=(280, 1700), goals=_PAGES_GOALS) for t, o in _COMBOS
] + [
    Harness(f'pages[1024,{t}{",override" if o else ""}]', h_pages,
            quick=dict(max_pages=6, page_sizes=[1024], target=t, override=o),
            thorough=dict(max_pages=12, page_sizes=[1024], target=t, override=o),
            float_model='real', timeout=(280, 1700), goals=_PAGES_GOALS) for t, o in _COMBOS
] + [
    Harness('pages[1024,deep]', h_pages, tiers=('thorough',),
            quick=dict(max_pages=31, page_sizes=[1024], target='stm32', override=False, faults=False),
            float_model='real', timeout=(1700, 1700), goals=('refused', 'flashed', 'several-writes', 'exact-multiple'),
            note='three STM32 buffer-fulls (10 pages of 1024 bytes) plus one page, every flash write succeeds'),

] + [
    Harness(f'e2e[small,{t}{",override" if o else ""}]', h_e2e,
            quick=dict(page_sizes=[1, 2, 3], buffer_pages=[1, 2, 3], fills=2, fault_budget=1, fault_kinds=4, max_faulty_tx=6,
                       target=t, override=o, progress_cb=p),
            thorough=dict(page_sizes=[1, 2, 3, 4], buffer_pages=[1, 2, 3], fills=3, fault_budget=1, fault_kinds=5, max_faulty_tx=8,
                          target=t, override=o, progress_cb=p),
            timeout=(280, 1700), goals=('refused', 'aborted', 'flashed', 'flashed-after-retry', 'several-buffer-fulls'))
    for t, o, p in [('stm32', False, False), ('nrf51', False, True), ('nrf51', True, True)]
] + [
    Harness('e2e[two-faults]', h_e2e, tiers=('thorough',),
            quick=dict(page_sizes=[1, 2], buffer_pages=[1, 2], fills=3, fault_budget=2, fault_kinds=5, max_faulty_tx=8,
                       target='nrf51', override=False, progress_cb=False),
            timeout=(1700, 1700), goals=('refused', 'aborted', 'flashed', 'flashed-after-retry', 'several-buffer-fulls'),
            note='two faulty flash-write transmissions per flashing, including a positive reply delayed by one transmission'),
    Harness('e2e[split-pages]', h_e2e,
            quick=dict(page_sizes=[26], buffer_pages=[2], fills=2, fault_budget=0, fault_kinds=4, max_faulty_tx=0,
                       target='stm32', override=False, progress_cb=True),
            thorough=dict(page_sizes=[26, 51], buffer_pages=[2], fills=2, fault_budget=0, fault_kinds=4, max_faulty_tx=0,
                          target='stm32', override=False, progress_cb=True),
            timeout=(280, 1700), goals=('refused', 'flashed', 'several-buffer-fulls'),
            note='pages larger than one buffer-load packet (25 bytes): upload_buffer splits inside _internal_flash'),
    Harness('div-lemma', h_div_lemma, quick=dict(page_sizes=_SMALL + [1024], bits=25),
            thorough=dict(page_sizes=_SMALL + [5, 6, 7, 8, 1024], bits=25), timeout=(600, 1700), per_path=700.0, goals=('proved',),
            note='justifies float_model=real of pages[*]: IEEE double division + truncation == floor division for all lengths '
                 '<= 2^25 and the page sizes used there'),
    Harness('flash_release', h_flash_release, symbolic=False, timeout=(600, 1500),
            goals=('flashed', 'refused', 'restarted-into-new-bootloader', 'start-page-moved'),
            note='Bootloader.start_bootloader + flash() with a release zip against a two-target craft model: soft device before, '
                 'bootloader+softdevice update present or not, soft device provided/required, image lengths are solver-chosen'),
    Harness('upload', h_upload, quick=dict(max_len=80), thorough=dict(max_len=130), timeout=(280, 900),
            goals=('split', 'exact-multiple-of-25')),
    Harness('upload[0xFF slots]', h_upload, quick=dict(max_len=80, ff_slots=True), thorough=dict(max_len=130, ff_slots=True), timeout=(600, 1700),
            goals=('split', 'ff-slot'), symbolic=False, note='content per 25-byte slot all 0xFF or a pattern (solver-chosen, concrete bytes)'),
    Harness('retry-match', h_retry_match, quick=dict(max_tx=6), timeout=(200, 600), goals=('success', 'exhausted', 'negative')),
    Harness('retry-count', h_retry_count, quick=dict(max_tx=6), thorough=dict(max_tx=6, symbolic_wrong=3), timeout=(280, 1700),
            goals=('success', 'success-after-retry', 'exhausted', 'negative', 'stale-flushed')),
    Harness('e2e[1024]', h_e2e, tiers=('thorough',),
            quick=dict(page_sizes=[1024], buffer_pages=[1, 10], fills=2, fault_budget=0, fault_kinds=4, max_faulty_tx=0,
                       lengths=_border_lengths, symbolic_bytes=8, target='stm32', override=False, progress_cb=False),
            timeout=(600, 1700), goals=('refused', 'flashed', 'several-buffer-fulls'),
            note='nRF51/STM32 geometry (1024-byte pages, 1 / 10 buffer pages): lengths are taken from a list of values around '
                 'page, buffer and 25-byte packet borders (the solver forks over the list), 8 image bytes at borders are '
                 'solver variables; all lengths of this geometry are covered by pages[1024]'),
]
