"""C16 System alignment is rigid and exact; scaling is uniform — RESTRICTED to everything around the optimiser.

The least-squares search (_find_transformation, compiled scipy) is replaced by a stub returning an ARBITRARY rigid
transformation (9 symbolic reals with R^T R = I, 3 symbolic reals); the rest of the real aligner/scaler code runs on numpy
object arrays of symbolic reals and the claims are NRA obligations (vf.props.c15 chain technique)."""
import numpy as np

from vf.harness import Harness
from vf.props.c15 import rot, vec, anymat, chain, gram, PROVE, snapshot, unchanged
from cflib.localization.lighthouse_types import Pose
from cflib.localization.lighthouse_system_aligner import LighthouseSystemAligner
from cflib.localization.lighthouse_system_scaler import LighthouseSystemScaler
from cflib.localization.lighthouse_bs_vector import LighthouseBsVector

FUNCTIONS = ['cflib.localization.lighthouse_system_aligner:LighthouseSystemAligner.align',
             'cflib.localization.lighthouse_system_aligner:LighthouseSystemAligner._de_flip_transformation',
             'cflib.localization.lighthouse_system_scaler:LighthouseSystemScaler._scale_system',
             'cflib.localization.lighthouse_system_scaler:LighthouseSystemScaler.scale_fixed_point',
             'cflib.localization.lighthouse_system_scaler:LighthouseSystemScaler.calc_intersection_point',
             'cflib.localization.lighthouse_types:Pose.rotate_translate_pose', 'cflib.localization.lighthouse_types:Pose.scale']
STUBS = ['LighthouseSystemAligner._find_transformation -> returns the harness\'s symbolic rigid transformation (the optimiser is not encodable)',
         'np.linalg.norm on object arrays -> fresh r >= 0 with r*r == sum of squares (inside the scaler harness only)']
ASSUMPTIONS = ['decided over the real numbers; the pi-flips are scipy\'s concrete float matrices (sin(pi) residue 1.2e-16), hence the 1e-9 slack in the '
               'de-flip postconditions', 'coordinates bounded by 10 m in the de-flip harness']
OUTSIDE = ['that the optimiser converges from zero within ten evaluations for misalignments up to 30 degrees (first half of the second clause of the '
           'statement): numerical optimisation in compiled scipy, not encodable', 'scale_diagonals\' mean over float32 sensor vectors']
EXPLANATION = 'C16 (restricted): one transformation applied to all base stations, rigidity, de-flip postconditions, uniform scaling, inputs unmodified.'


def rigid(sym, name):
    return Pose(rot(sym, name + 'r'), vec(sym, name + 't', 5))


def affine(sym, name):
    """An arbitrary affine map (no orthonormality assumed): the claims checked on it are polynomial identities that hold for
    every matrix, and branch feasibility stays cheap (satisfiability under R^T R = I is very expensive for nlsat)."""
    return Pose(anymat(sym, name + 'r'), vec(sym, name + 't', 5))


def with_stub(T, fn):
    orig = LighthouseSystemAligner.__dict__['_find_transformation']
    LighthouseSystemAligner._find_transformation = classmethod(lambda cls, origin, x_axis, xy_plane: T)
    try:
        return fn()
    finally:
        LighthouseSystemAligner._find_transformation = orig


def h_align_apply(sym):
    """align() applies ONE transformation to every base station: result[id] == T_ret o pose[id] with the T_ret it returns;
    T_ret == flips o raw; on the no-flip path distances between base stations are preserved exactly."""
    sym.B.update(PROVE)
    T = affine(sym, 'T')
    bs = {3: Pose(anymat(sym, 'a'), vec(sym, 'at', 5)), 9: Pose(anymat(sym, 'b'), vec(sym, 'bt', 5))}
    x_axis = [vec(sym, 'x', 5)]
    snap = snapshot(T, bs[3], bs[9])
    result, ret = with_stub(T, lambda: LighthouseSystemAligner.align([0.0, 0.0, 0.0], x_axis, [[1.0, 1.0, 0.0]], bs))
    assert set(result.keys()) == {3, 9}
    unchanged(snap, T, bs[3], bs[9])
    for k in (3, 9):
        exp_t = [sum(ret.rot_matrix[i][j] * bs[k].translation[j] for j in range(3)) + ret.translation[i] for i in range(3)]
        for i in range(3):
            sym.prove(sym.close(result[k].translation[i], exp_t[i]), f'bs {k} translation {i} == T_ret applied')
            for j in range(3):
                sym.prove(sym.close(result[k].rot_matrix[i][j], sum(ret.rot_matrix[i][m] * bs[k].rot_matrix[m][j] for m in range(3))),
                          f'bs {k} rotation == T_ret applied')
    sym.goal('flipped' if ret is not T else 'no-flip')


def h_rigid(sym):
    """What align() does to each base station (T.rotate_translate_pose) is rigid when T is: distances between base stations and
    their relative orientation are preserved."""
    sym.B.update(PROVE)
    T = rigid(sym, 'T')
    A, B = Pose(anymat(sym, 'a'), vec(sym, 'at', 5)), Pose(anymat(sym, 'b'), vec(sym, 'bt', 5))
    snap = snapshot(T, A, B)
    A2, B2 = T.rotate_translate_pose(A), T.rotate_translate_pose(B)
    M = gram([list(r) for r in T.rot_matrix])
    part = sym.B['part']
    if part == 'distance':
        d = [A.translation[i] - B.translation[i] for i in range(3)]
        lhs = sum((A2.translation[i] - B2.translation[i]) * (A2.translation[i] - B2.translation[i]) for i in range(3))
        chain(sym, [lhs, sum(d[i] * M[i][j] * d[j] for i in range(3) for j in range(3)), sum(d[i] * d[i] for i in range(3))],
              'distance between base stations preserved')
    else:
        # relative orientation A2^T B2 == A^T B (row i)
        i = int(part)
        for j in range(3):
            lhs = sum(A2.rot_matrix[k][i] * B2.rot_matrix[k][j] for k in range(3))
            mid = sum(A.rot_matrix[l][i] * M[l][m] * B.rot_matrix[m][j] for l in range(3) for m in range(3))
            chain(sym, [lhs, mid, sum(A.rot_matrix[k][i] * B.rot_matrix[k][j] for k in range(3))], f'relative orientation [{i}][{j}]')
    unchanged(snap, T, A, B)
    sym.goal('rigid')


def h_deflip(sym):
    """_de_flip_transformation decision logic with raw = identity (so the two tested coordinates ARE the symbolic inputs):
    afterwards the x-axis mean maps to X >= -eps, the first base station to Z >= -eps, and the flips are proper rotations."""
    raw = Pose()
    xs = [vec(sym, 'x0', 10), vec(sym, 'x1', 10)]
    bs_t = vec(sym, 'b', 10)
    bs = {4: Pose(np.identity(3), bs_t), 7: Pose(np.identity(3), [1.0, 2.0, 3.0])}
    T = LighthouseSystemAligner._de_flip_transformation(raw, xs, bs)
    mean = [(xs[0][i] + xs[1][i]) / 2 for i in range(3)]
    X = T.rotate_translate(mean)[0]
    Z = T.rotate_translate(bs_t)[2]
    eps = 1e-9
    assert X >= -eps, 'x-axis samples end up on the negative X axis'
    assert Z >= -eps, 'first base station ends up below the floor'
    R = np.array(T.rot_matrix, dtype=float)
    assert np.allclose(R.T @ R, np.identity(3), atol=1e-12) and abs(np.linalg.det(R) - 1.0) < 1e-12, 'flip is not a proper rotation'
    n = int(T is not raw)
    sym.goal('flip' if n else 'keep')


def h_deflip_compose(sym):
    """With a symbolic raw transformation: the returned transformation is (concrete flips) o raw, entry by entry."""
    sym.B.update(PROVE)
    raw = affine(sym, 'T')
    xs = [[1.0, 0.5, 0.25]]
    bs = {4: Pose(np.identity(3), [0.5, 0.25, 2.0])}
    T = LighthouseSystemAligner._de_flip_transformation(raw, xs, bs)
    fx = raw.rotate_translate(np.array(xs[0]))[0] < 0.0
    fz = raw.rotate_translate(np.array([0.5, 0.25, 2.0]))[2] < 0.0
    # expected: the concrete flip matrices applied one after the other, in exact arithmetic (as the code does)
    flips = []
    if fx:
        flips.append(Pose.from_rot_vec(R_vec=(0.0, 0.0, np.pi)).rot_matrix)
    if fz:
        flips.append(Pose.from_rot_vec(R_vec=(np.pi, 0.0, 0.0)).rot_matrix)
    et = list(raw.translation)
    eR = [list(r) for r in raw.rot_matrix]
    for F in flips:
        et = [sum(float(F[i][j]) * et[j] for j in range(3)) for i in range(3)]
        eR = [[sum(float(F[i][m]) * eR[m][j] for m in range(3)) for j in range(3)] for i in range(3)]
    for i in range(3):
        sym.prove(sym.close(T.translation[i], et[i]), 'translation of flips o raw')
        for j in range(3):
            sym.prove(sym.close(T.rot_matrix[i][j], eR[i][j]), 'rotation of flips o raw')
    sym.goal('flips=%d%d' % (int(bool(fx)), int(bool(fz))))


def h_scale_system(sym):
    """_scale_system: every translation multiplied by the one returned factor, rotations identical, inputs unmodified."""
    s = sym.real('s', -50, 50)
    bs = {1: Pose(anymat(sym, 'a'), vec(sym, 'at')), 2: Pose(anymat(sym, 'b'), vec(sym, 'bt'))}
    cfs = [Pose(anymat(sym, 'c'), vec(sym, 'ct'))]
    if sym.B.get('shared'):
        # the same Pose object in several slots (a stationary Crazyflie, one base station under two ids)
        cfs = [cfs[0], cfs[0], bs[1]]
        bs[5] = bs[2]
    snap = snapshot(bs[1], bs[2], cfs[0])
    keys, lst = list(bs.keys()), list(cfs)
    b2, c2, f = LighthouseSystemScaler._scale_system(bs, cfs, s)
    assert f is s or sym.close(f, s)
    assert list(b2.keys()) == keys and len(c2) == len(lst)
    pairs = [(bs[k], b2[k]) for k in keys] + list(zip(lst, c2))
    for src, dst in pairs:
        assert dst is not src
        for i in range(3):
            assert sym.close(dst.translation[i], src.translation[i] * s), 'translation not multiplied by the factor'
            for j in range(3):
                assert dst.rot_matrix[i][j] is src.rot_matrix[i][j], 'rotation changed by scaling'
    unchanged(snap, bs[1], bs[2], cfs[0])
    assert list(bs.keys()) == keys and cfs == lst
    sym.goal('scaled')


def _sym_norm(sym):
    """np.linalg.norm for object arrays of symbolic reals: fresh r >= 0 with r*r == sum of squares."""
    orig = np.linalg.norm

    def norm(x, *a, **k):
        arr = np.asarray(x)
        if arr.dtype != object or not sym.symbolic:
            return orig(np.asarray(x, dtype=float), *a, **k)
        ss = sum(v * v for v in arr.ravel())
        r = sym.real('norm%d' % len(norm.made), 0, 1000)
        norm.made.append(r)
        sym.constrain_eq(r * r, ss)
        return r
    norm.made = []
    return orig, norm


def h_scale_fixed_point(sym):
    """scale_fixed_point: factor * |actual| == |expected| and the factor is applied uniformly."""
    sym.B.update(PROVE)
    expected = vec(sym, 'e', 5)
    actual = Pose(np.identity(3), vec(sym, 'a', 5))
    bs = {1: Pose(np.identity(3), vec(sym, 'b', 5))}
    orig, norm = _sym_norm(sym)
    np.linalg.norm = norm
    try:
        sym.constrain(sum(v * v for v in actual.translation) >= 0.01)
        b2, c2, f = LighthouseSystemScaler.scale_fixed_point(bs, [], expected, actual)
    finally:
        np.linalg.norm = orig
    if sym.symbolic:
        ne, na = norm.made[0], norm.made[1]
        sym.prove(sym.close(f * na, ne), 'factor * |actual| == |expected|')
    else:
        ne = float(np.linalg.norm(np.array(expected, dtype=float)))
        na = float(np.linalg.norm(np.array(actual.translation, dtype=float)))
        assert abs(f * na - ne) <= 1e-6 * (1 + ne)
    for i in range(3):
        assert sym.close(b2[1].translation[i], bs[1].translation[i] * f)
    sym.goal('scaled')


def h_intersection(sym):
    """calc_intersection_point: the point lies on the deck plane (and, by construction, on the ray)."""
    sym.B.update(PROVE)
    v = LighthouseBsVector(0.1, -0.2)
    # arbitrary matrices: the incidence identities do not depend on orthonormality
    bs_pose = Pose(anymat(sym, 'b'), vec(sym, 'bt', 5))
    cf_pose = Pose(anymat(sym, 'c'), vec(sym, 'ct', 5))
    cart = [float(x) for x in v.cart]
    normal = [cf_pose.rot_matrix[i][2] for i in range(3)]
    line = [sum(bs_pose.rot_matrix[i][j] * cart[j] for j in range(3)) for i in range(3)]
    denom = sum(line[i] * normal[i] for i in range(3))
    sym.constrain(denom >= 0.01)
    p = LighthouseSystemScaler.calc_intersection_point(v, bs_pose, cf_pose)
    num = sum((cf_pose.translation[i] - bs_pose.translation[i]) * normal[i] for i in range(3))
    # on the ray: p == base + line * (num / denom), component-wise
    for i in range(3):
        sym.prove(sym.close(p[i], bs_pose.translation[i] + line[i] * (num / denom)), f'point {i} on the ray')
    # on the plane: (p - plane_base) . normal == 0  <=  chain through the ray form
    onplane = sum((p[i] - cf_pose.translation[i]) * normal[i] for i in range(3))
    mid = sum((bs_pose.translation[i] - cf_pose.translation[i]) * normal[i] for i in range(3)) + (num / denom) * denom
    chain(sym, [onplane, mid, 0.0], 'intersection point lies in the deck plane')
    sym.goal('intersect')


HARNESSES = [
    Harness('align_apply', h_align_apply, float_model='real', goals=('no-flip', 'flipped'), timeout=(600, 1800), per_path=900),
    Harness('rigid[distance]', h_rigid, quick=dict(part='distance'), float_model='real', goals=('rigid',), timeout=(300, 900), per_path=600),
    Harness('rigid[orientation0]', h_rigid, quick=dict(part='0'), float_model='real', goals=('rigid',), timeout=(300, 900), per_path=600),
    Harness('deflip', h_deflip, float_model='real', goals=('flip', 'keep'), timeout=(300, 900), per_path=300),
    Harness('deflip_compose', h_deflip_compose, float_model='real', goals=('flips=00',), timeout=(600, 1800), per_path=900),
    Harness('scale_system', h_scale_system, float_model='real', goals=('scaled',), timeout=(120, 300)),
    Harness('scale_system[shared poses]', h_scale_system, quick=dict(shared=True), float_model='real', goals=('scaled',), timeout=(120, 300)),
    Harness('scale_fixed_point', h_scale_fixed_point, float_model='real', goals=('scaled',), timeout=(300, 900), per_path=600),
    Harness('intersection', h_intersection, float_model='real', goals=('intersect',), timeout=(600, 1800), per_path=900),
]
