"""C02 Connection lifecycle is well-formed and never hangs under any link fault — SEQUENTIALISED histories only.

A real Crazyflie (PlatformService, Log, Memory, Param, TocFetcher, LinkStatistics/Latency, Caller, optionally
SyncCrazyflie) is connected to a device model through a fake driver selected by the real get_link_driver.  All thread
bodies (dispatcher, parameter updater, extended-type fetcher, latency ping) are stepped by one scheduler; the nominal
schedule is deterministic and the solver chooses WHERE one (quick) or two (thorough) deviations are inserted and of which
kind: link error from the driver task, link error raised inside link.send_packet (while _send_lock is held, from whichever
task sends next), close_link, duplicated / held-back reply, the ping task running first.  Everything the solver chooses is
a position or a kind, so the harnesses are labelled symbolic=False: the solver enumerates the deviation space exhaustively,
one value at a time, and the real code runs under it."""
from vf.harness import Harness
from vf.explore import Yield
from vf.env import c02_env as E
from vf.env import c02t_env as ET
from vf.env.c02_env import S, Plan, Device, FakeDriver, Hang, Deadlock, TaskDied
from vf.env.c03_env import Entry

import cflib.crtp
from cflib.crazyflie import Crazyflie
from cflib.crazyflie.syncCrazyflie import SyncCrazyflie


FUNCTIONS = ['cflib.crazyflie:Crazyflie.open_link', 'cflib.crazyflie:Crazyflie.close_link', 'cflib.crazyflie:Crazyflie._link_error_cb',
             'cflib.crazyflie:Crazyflie.send_packet', 'cflib.crazyflie:Crazyflie._check_for_initial_packet_cb',
             'cflib.crazyflie:_IncomingPacketHandler.run', 'cflib.crazyflie.platformservice:PlatformService',
             'cflib.crazyflie.log:Log.refresh_toc', 'cflib.crazyflie.log:Log._new_packet_cb', 'cflib.crazyflie.toc:TocFetcher',
             'cflib.crazyflie.mem:Memory.refresh', 'cflib.crazyflie.mem:Memory._disconnected', 'cflib.crazyflie.param:Param',
             'cflib.crazyflie.param:_ParamUpdater', 'cflib.crazyflie.param:_ExtendedTypeFetcher',
             'cflib.crazyflie.link_statistics:LinkStatistics', 'cflib.crazyflie.link_statistics:Latency',
             'cflib.crazyflie.syncCrazyflie:SyncCrazyflie', 'cflib.utils.callbacks:Caller', 'cflib.crtp:get_link_driver']
STUBS = ['threads are tasks stepped at blocking calls (receive_packet, Queue.get, Lock.acquire on a held lock, time.sleep); Thread.join runs '
         'the joined body to its end, raises RuntimeError for joining oneself (as CPython) and reports a wait-for cycle',
         'Lock -> lock with holder; Queue -> transactional queue; Event (syncCrazyflie) -> event whose wait() runs the other tasks',
         'FakeDriver in cflib.crtp.CLASSES; device model of the connection sequence written from the CRTP protocol; TocCache without directories',
         'threads[...] harnesses (second engine, vf/env/c02t_env.py): every cflib thread is a real OS thread, only the baton holder runs; '
         'blocking primitives hand the baton to the harness and the task continues from that point with its stack (locals kept, no '
         're-execution); same deviations, same oracle']
ASSUMPTIONS = ['context switches only at blocking calls; preemption between two bytecodes of a step is outside',
               'link does not need resending (retry timers are C10)', 'tables: 1 log + 1..3 parameter entries (also an extended/persistent one)']
OUTSIDE = ['free-running OS-thread interleavings and wall-clock bounds ("bounded time" is checked as: finitely many scheduler steps to quiescence)',
           'more than two deviations per history; more than three open_link attempts per object; radio/USB driver threads']
EXPLANATION = 'C02 (restricted): callback grammar per attempt, no leaked lock / dead task / hang, reconnect works, for every position x kind of one or two deviations.'

KINDS = ['none', 'error-from-driver', 'error-in-send', 'close_link', 'duplicate-reply', 'hold-reply', 'ping-first', 'value-updated']
NAMES = ('connection_requested', 'link_established', 'connected', 'fully_connected', 'disconnected', 'connection_lost',
         'connection_failed')


class World:
    DRIVER = FakeDriver

    def _install(self):
        E.install()        # idempotent; never at import time (the runner process imports this module too)
        E.reset()

    def shutdown(self):
        pass

    def __init__(self, sym, extended=False, version=10):
        self._install()
        params = [Entry(0x08, b'p', b'a')]
        if sym.B.get('params', 1) > 1:
            # several values to fetch: reads queue up behind the outstanding one
            params += [Entry(0x08, b'p', bytes([ord('c') + i])) for i in range(sym.B['params'] - 1)]
        if extended:
            params.append(Entry(0x18, b'p', b'b', persistent=True))
        self.plan = Plan(Device(version, params=params, ow_mem=sym.B.get('ow_mem', False)))
        FakeDriver.plan = self.plan
        cflib.crtp.CLASSES[:] = [self.DRIVER]
        self.cf = Crazyflie()
        self.ev = []
        self.premature = []          # what was missing at the moment connected / fully_connected was signalled
        for n in NAMES:
            getattr(self.cf, n).add_callback(lambda *a, n=n: self._record(n))
        self.pings = 0
        self.died = []
        self.steps = 0

    def _record(self, n):
        """Event log plus, at the moment of signalling, the state the statement promises: tables complete at connected, a value
        for every parameter of the device at fully_connected (compared with the device tables of the oracle model)."""
        self.ev.append(n)
        cf, dev = self.cf, self.plan.device
        if n in ('connected', 'fully_connected'):
            for toc, table, what in ((cf.log.toc, dev.log.table, 'log'), (cf.param.toc, dev.par.table, 'param')):
                for e in table:
                    g, m = bytes(e.group).decode('latin-1'), bytes(e.name).decode('latin-1')
                    if toc is None or toc.get_element_by_complete_name(f'{g}.{m}') is None:
                        self.premature.append(f'{n} signalled while {what} entry {g}.{m} is not in the table')
        if n == 'fully_connected':
            for e in dev.par.table:
                g, m = bytes(e.group).decode('latin-1'), bytes(e.name).decode('latin-1')
                if m not in cf.param.values.get(g, {}):
                    self.premature.append(f'fully_connected signalled while parameter {g}.{m} has no value')

    # ---- tasks
    def threads(self):
        out = {'incoming': self.cf.incoming, 'updater': self.cf.param.param_updater}
        for t in S.started:
            n = E.task_name(t)
            if n == '_ExtendedTypeFetcher' and not getattr(t, '_vf_dead', False):
                out['fetcher'] = t
            if n == 'ping' and not getattr(t, '_vf_dead', False):
                out['ping'] = t
        return out

    def runnable(self):
        th = self.threads()
        r = []
        link = self.cf.link
        if link is not None and link.rxq:
            r.append('incoming')
        pu = th['updater']
        if pu.request_queue.pending() and not pu.wait_lock.held:
            r.append('updater')
        f = th.get('fetcher')
        if f is not None and f.request_queue.pending() and not f._lock.held:
            r.append('fetcher')
        if 'ping' in th and self.pings < 1 and link is not None and not self.cf._send_lock.held:
            r.append('ping')
        return r

    def step(self, name):
        th = self.threads()
        t = th[name]
        self.steps += 1
        S.stack.append({'updater': '_ParamUpdater', 'incoming': '_IncomingPacketHandler', 'fetcher': '_ExtendedTypeFetcher'}.get(name, name))
        try:
            if name == 'incoming':
                self.cf.link.budget = 1
            if name == 'ping':
                self.pings += 1
            E.run_body(t)
            if name in ('ping', 'fetcher'):
                t._vf_dead = True          # helper thread ended by itself (stop event set / fetch abandoned)
            else:
                self.died.append(f'{name} returned')     # the dispatcher and the parameter updater live as long as the object
        except Yield:
            pass
        except (Hang, Deadlock):
            raise
        except Exception as e:          # an exception escaping a thread body kills the thread
            self.died.append(f'{name} died: {type(e).__name__}: {e}')
            t._vf_dead = True
        finally:
            S.stack.pop()

    def user(self, fn):
        """A call made by the application thread: must return or raise, never block for ever."""
        try:
            return fn()
        except Yield:
            raise Hang('application call blocks for ever on a lock that is never released')

    def settle(self, limit=400):
        n = 0
        while True:
            r = self.runnable()
            if not r:
                return
            n += 1
            assert n < limit, 'no quiescence within the step bound (livelock)'
            self.step(r[0])


class WorldT(World):
    """The same world on baton-scheduled real threads (vf/env/c02t_env.py): a task keeps its stack across blocking calls."""
    DRIVER = ET.DriverT
    ROLE = {'_IncomingPacketHandler': 'incoming', '_ParamUpdater': 'updater', '_ExtendedTypeFetcher': 'fetcher', 'ping': 'ping'}

    def _install(self):
        ET.install()
        ET.reset(self)

    def shutdown(self):
        ET.shutdown()

    def threads(self):
        out = {}
        for t in ET.T.tasks:
            if t.state != 'done' and t.name in self.ROLE:
                out[self.ROLE[t.name]] = t
        return out

    def runnable(self):
        th = self.threads()
        link = self.cf.link
        r = []
        for role in ('incoming', 'updater', 'fetcher', 'ping'):
            t = th.get(role)
            if t is None:
                continue
            if role == 'incoming' and (t.state == 'new' or t.what in ('receive_packet', 'sleep')):
                ok = t.state == 'new' or (link is not None and bool(link.rxq))
            elif role == 'ping' and (t.state == 'new' or t.what == 'sleep'):
                stopping = self.cf.link_statistics.latency._stop_event.is_set()
                ok = stopping or (self.pings < 1 and link is not None)
            else:
                ok = t.state == 'new' or (t.state == 'waiting' and t.cond())
            if ok:
                r.append(role)
        return r

    def step(self, name):
        t = self.threads()[name]
        self.steps += 1
        if name == 'incoming' and self.cf.link is not None:
            self.cf.link.budget = 1
        if name == 'ping' and not self.cf.link_statistics.latency._stop_event.is_set():
            self.pings += 1
        ET.resume(t)
        if t.state == 'done':
            if t.error is not None:
                self.died.append(f'{name} died: {type(t.error).__name__}: {t.error}')
            elif name in ('incoming', 'updater'):
                self.died.append(f'{name} returned')     # the dispatcher and the parameter updater live as long as the object

    def user(self, fn):
        return fn()


def check_word(ev):
    """Split the callback sequence into attempts and check each against the grammar of the statement."""
    attempts, cur_ = [], None
    for e in ev:
        if e == 'connection_requested':
            cur_ = []
            attempts.append(cur_)
        else:
            assert cur_ is not None, f'{e} before any connection_requested'
            cur_.append(e)
    for a in attempts:
        setup = [e for e in a if e in ('link_established', 'connected', 'fully_connected')]
        assert setup == ['link_established', 'connected', 'fully_connected'][:len(setup)], f'setup callbacks out of order: {a}'
        if 'connection_failed' in a:
            assert a.count('connection_failed') == 1 and 'link_established' not in a and 'connection_lost' not in a, \
                f'connection_failed mixed with an established link: {a}'
        if 'disconnected' in a:
            first = a.index('disconnected')
            assert not [e for e in a[first:] if e in ('link_established', 'connected', 'fully_connected')], \
                f'setup callback delivered after disconnected: {a}'
        if 'connection_lost' in a:
            i = a.index('connection_lost')
            assert a.count('connection_lost') == 1 and i > 0 and a[i - 1] == 'disconnected', \
                f'connection_lost not directly preceded by exactly one disconnected: {a}'
    return attempts


def final_checks(sym, w):
    cf = w.cf
    assert not w.died, f'thread died: {w.died}'
    assert not w.plan.violations, w.plan.violations
    _name_locks(cf)
    leaked = [l for l in S.locks if l.held]
    assert not leaked, f'lock left held: {[(l.name, l.holder) for l in leaked]}'
    if isinstance(w, WorldT):
        stuck = [(t.name, t.what) for t in ET.T.tasks if t.state == 'waiting' and not t.cond() and
                 (t.what.startswith('join') or t.what.startswith('acquire') or t.what == 'Event.wait')]
        assert not stuck, f'thread blocked for ever at quiescence: {stuck}'


def _name_locks(cf):
    for owner, attr in ((cf, '_send_lock'), (cf.param.param_updater, 'wait_lock'), (cf.mem, '_read_requests_lock'),
                        (cf.mem, '_write_requests_lock')):
        l = getattr(owner, attr, None)
        if l is not None and hasattr(l, 'name'):
            l.name = attr


def h_lifecycle(sym):
    """One history: open_link, nominal schedule with deviations at solver-chosen positions, then close/reopen epilogue."""
    w = (WorldT if sym.B.get('threads') else World)(sym, extended=sym.B.get('extended', False), version=sym.B.get('version', 10))
    try:
        _lifecycle(sym, w)
    finally:
        w.shutdown()


def _lifecycle(sym, w):
    D = sym.B['deviations']
    cf = w.cf
    devs = []
    for i in range(D):
        kinds = sym.B.get(f'kinds{i}', sym.B['kinds'])
        k = kinds[sym.choice(f'kind{i}', len(kinds))]
        pos = sym.int(f'pos{i}', 0, sym.B['max_pos'])
        devs.append([k, pos, False])
    errors_injected = 0
    closes = 0
    # an application observer that subscribes LATE (at a solver-chosen step) must see every event from then on
    obs_at = sym.int('observer_at', 0, sym.B['max_pos']) if sym.B.get('observer') else None
    late, mark = [], [None]
    w.user(lambda: cf.open_link('fake://0'))
    n = 0
    while True:
        if obs_at is not None and mark[0] is None and obs_at == n:
            mark[0] = len(w.ev)
            for nm in NAMES:
                getattr(cf, nm).add_callback(lambda *a, nm=nm: late.append(nm))
        for d in devs:
            if d[2] or d[0] == 'none':
                continue
            if d[1] == n:
                d[2] = True
                k = d[0]
                if k == 'error-from-driver':
                    if cf.link is not None:
                        S.stack.append('driver')
                        try:
                            cf.link.err('link error from the driver thread')
                        finally:
                            S.stack.pop()
                        errors_injected += 1
                        sym.goal('error-from-driver')
                elif k == 'error-in-send':
                    w.plan.fault_in_send = w.plan.sends + 1
                elif k == 'close_link':
                    w.user(cf.close_link)
                    closes += 1
                    sym.goal('closed-mid-sequence')
                elif k == 'duplicate-reply':
                    w.plan.dup_next = True
                elif k == 'hold-reply':
                    w.plan.hold_next = True
                elif k == 'value-updated':
                    # the firmware announces a changed value of parameter 0 on its own (MISC_VALUE_UPDATED, protocol >= 4)
                    if cf.link is not None and w.plan.device.version >= 4:
                        from vf.env.c02_env import packet
                        cf.link.rxq.append(packet(2, 3, [1, 0, 0, w.plan.device.values.get(0, 7)]))
                        sym.goal('value-updated-notification')
                elif k == 'ping-first':
                    if 'ping' in w.runnable():
                        w.step('ping')
                        sym.goal('ping-ran-early')
        r = w.runnable()
        if not r:
            if w.plan.held:        # a reply held back while nothing else happens is delivered now (delay, not loss)
                if cf.link is not None:
                    cf.link.rxq.extend(w.plan.held)
                del w.plan.held[:]
                w.plan.hold_next = False
                if w.runnable():
                    continue
            break
        n += 1
        assert n < 300, 'no quiescence within the step bound (livelock)'
        w.step(r[0])
    if w.plan.fault_task is not None:
        sym.goal('error-in-send:' + ('ping' if w.plan.fault_task == 'ping' else 'other'))
    attempts = check_word(w.ev)
    assert not w.premature, w.premature
    a = attempts[0]
    faulted = errors_injected > 0 or w.plan.fault_task is not None
    if not faulted and closes == 0:
        assert a == ['link_established', 'connected', 'fully_connected'], f'undisturbed connection did not complete: {a}'
        assert cf.is_connected()
        # tables complete when connected was signalled (checked at the end: they do not change afterwards)
        assert cf.log.toc.get_element_by_complete_name('g.x') is not None and cf.param.toc.get_element_by_complete_name('p.a') is not None
        assert cf.param.values['p']['a'] == '7'
        sym.goal('fully-connected')
    if faulted:
        if 'link_established' in a and closes == 0:
            assert a.count('disconnected') == 1 and a.count('connection_lost') == 1, f'link failure after the first packet: {a}'
        sym.goal('faulted')
    if 'connected' in a:
        # connected only once both tables are complete, fully_connected only once every parameter has a value: the device
        # tables are concrete, so completeness at signalling time is checked through the order of the recorded requests
        gen = 2 if w.plan.device.version >= 4 else 1
        reqs = w.plan.device.par.requests
        assert ('item', gen, len(w.plan.device.par.table) - 1) in reqs and ('item', gen, 0) in w.plan.device.log.requests
    final_checks(sym, w)
    # ---- epilogue: every close produces exactly one disconnected; the same object connects again
    w.plan.fault_in_send = None        # a deviation positioned after quiescence never happened
    w.plan.dup_next = w.plan.hold_next = False
    before = len(w.ev)
    w.user(cf.close_link)
    assert w.ev[before:].count('disconnected') == 1, f'close_link did not produce exactly one disconnected: {w.ev[before:]}'
    w.settle()
    w.pings = 0
    w.user(lambda: cf.open_link('fake://0'))
    w.settle()
    last = check_word(w.ev)[-1]
    assert last == ['link_established', 'connected', 'fully_connected'], f'the same object could not connect again: {last}'
    assert cf.param.values['p']['a'] == '7'
    final_checks(sym, w)
    if mark[0] is not None:
        assert late == w.ev[mark[0]:], f'an observer registered at step {obs_at} missed or reordered events: {late} vs {w.ev[mark[0]:]}'
        sym.goal('late-observer')
    sym.goal('reconnected')


def h_open_fail(sym):
    """No usable driver / driver raising: connection_requested then exactly one connection_failed, nothing escapes,
    and the object connects afterwards."""
    w = World(sym)
    cf = w.cf
    mode = sym.choice('mode', 4)
    if mode == 0:
        uri = 'nodriver://0'
    elif mode == 1:
        uri = 'fake://0'
        w.plan.connect_raises = True
    elif mode == 3:
        uri = 'fake://0'
        w.plan.error_in_connect = True       # the link fails before any packet arrives, reported while connect() is running
    else:
        uri = 'fake://0'
        cflib.crtp.CLASSES[:] = []
    w.user(lambda: cf.open_link(uri))
    w.settle()
    assert w.ev == ['connection_requested', 'connection_failed'], w.ev
    if mode != 3:
        assert cf.link is None
    else:
        sym.goal('error-during-connect')
    w.plan.connect_raises = False
    cflib.crtp.CLASSES[:] = [FakeDriver]
    w.user(lambda: cf.open_link('fake://0'))
    w.settle()
    assert check_word(w.ev)[-1] == ['link_established', 'connected', 'fully_connected']
    final_checks(sym, w)
    sym.goal('failed-then-connected')


def h_sync(sym):
    """SyncCrazyflie.open_link / close_link return or raise under one deviation; Event.wait with nothing able to set the
    event is a hang."""
    w = World(sym)
    cf = w.cf
    kinds = sym.B['kinds']
    k = kinds[sym.choice('kind', len(kinds))]
    pos = sym.int('pos', 0, sym.B['max_pos'])
    scf = SyncCrazyflie('fake://0', cf=cf)
    state = {'n': 0, 'done': False}

    def runner(event):
        while not event.is_set():
            if not state['done'] and state['n'] == pos:
                state['done'] = True
                if k == 'error-from-driver' and cf.link is not None:
                    S.stack.append('driver')
                    try:
                        cf.link.err('link error from the driver thread')
                    finally:
                        S.stack.pop()
                    sym.goal('error-during-open')
                elif k == 'error-in-send':
                    w.plan.fault_in_send = w.plan.sends + 1
            r = w.runnable()
            if not r:
                return
            state['n'] += 1
            assert state['n'] < 300
            w.step(r[0])
    E.FakeEvent.runner = runner
    try:
        raised = None
        with_stmt = True if sym.bool('with_statement') else False      # `with SyncCrazyflie(...)` = __enter__ / __exit__
        try:
            w.user(scf.__enter__ if with_stmt else scf.open_link)
        except (Hang, Deadlock):
            raise
        except Exception as e:
            raised = e
        if raised is None:
            assert scf.is_link_open()
            sym.goal('opened')
            w.settle()
            w.user((lambda: scf.__exit__(None, None, None)) if with_stmt else scf.close_link)
            assert not scf.is_link_open()
        else:
            assert not scf.is_link_open()
            sym.goal('open-raised')
    finally:
        E.FakeEvent.runner = None
    check_word(w.ev)
    w.settle()
    final_checks(sym, w)


ALL = ['error-from-driver', 'error-in-send', 'close_link', 'duplicate-reply', 'hold-reply', 'ping-first']
_G1 = ('fully-connected', 'faulted', 'reconnected', 'error-from-driver', 'closed-mid-sequence', 'error-in-send:ping', 'error-in-send:other')
HARNESSES = [
    Harness('lifecycle[1,v2]', h_lifecycle, quick=dict(deviations=1, kinds=['none'] + ALL, max_pos=24), timeout=(600, 1800),
            symbolic=False, goals=_G1, note='solver enumerates (kind, position) of one deviation; everything else is concrete'),
    Harness('lifecycle[1,v2,extended]', h_lifecycle, quick=dict(deviations=1, kinds=ALL, max_pos=28, extended=True), timeout=(600, 1800),
            symbolic=False, goals=('faulted', 'reconnected'), note='parameter table with an extended (persistent) entry: extended-type fetcher task'),
    Harness('lifecycle[1,v2,3 params]', h_lifecycle, quick=dict(deviations=1, kinds=ALL, max_pos=30, params=3), timeout=(600, 1800),
            symbolic=False, goals=('faulted', 'closed-mid-sequence', 'reconnected'),
            note='three parameter values to fetch: reads queue up behind the outstanding one when the link goes down'),
    Harness('threads[1,v2,3 params]', h_lifecycle, quick=dict(deviations=1, kinds=['none'] + ALL, max_pos=40, params=3, threads=True), timeout=(900, 2400),
            symbolic=False, goals=_G1,
            note='baton-scheduled real threads (a task keeps its stack across blocking calls): one deviation, three parameter values'),
    Harness('threads[1,v2,1-wire memory]', h_lifecycle, quick=dict(deviations=1, kinds=['none'] + ALL, max_pos=40, params=1, ow_mem=True, threads=True),
            timeout=(900, 2400), symbolic=False, goals=_G1,
            note='baton-scheduled real threads; the device has a 1-wire deck memory, whose content is read before connected'),
    Harness('lifecycle[1,v2,1-wire memory]', h_lifecycle, quick=dict(deviations=1, kinds=['none'] + ALL, max_pos=30, ow_mem=True),
            timeout=(600, 1800), symbolic=False, goals=_G1, note='the device has a 1-wire deck memory, whose content is read before connected'),
    Harness('threads[1,v2,extended]', h_lifecycle, quick=dict(deviations=1, kinds=ALL, max_pos=44, params=2, extended=True, threads=True),
            timeout=(900, 2400), symbolic=False, goals=('faulted', 'closed-mid-sequence', 'reconnected'),
            note='baton-scheduled real threads; parameter table with an extended (persistent) entry: extended-type fetcher thread'),
    Harness('threads[1,v1]', h_lifecycle, quick=dict(deviations=1, kinds=ALL, max_pos=40, params=2, version=3, threads=True),
            timeout=(900, 2400), symbolic=False, goals=('faulted', 'reconnected'), note='baton-scheduled real threads; legacy protocol generation'),
    Harness('lifecycle[1,value-updated]', h_lifecycle, quick=dict(deviations=1, kinds=['value-updated'], max_pos=30, params=3),
            thorough=dict(deviations=2, kinds0=['value-updated'], kinds=['value-updated', 'duplicate-reply', 'hold-reply'], max_pos=30, params=3),
            timeout=(600, 1800), symbolic=False, goals=('value-updated-notification', 'fully-connected', 'reconnected'),
            note='the firmware announces a changed parameter value on its own at a solver-chosen step of the connection sequence'),
    Harness('threads[1,value-updated]', h_lifecycle, quick=dict(deviations=1, kinds=['value-updated'], max_pos=40, params=3, threads=True),
            timeout=(900, 2400), symbolic=False, goals=('value-updated-notification', 'fully-connected', 'reconnected'),
            note='baton-scheduled real threads; unsolicited value notification at a solver-chosen step'),
    Harness('lifecycle[1,observer]', h_lifecycle, quick=dict(deviations=1, kinds=['none', 'error-from-driver', 'error-in-send', 'close_link'], max_pos=16, observer=True),
            timeout=(900, 2400), symbolic=False, goals=('late-observer', 'reconnected'),
            note='as lifecycle[1,v2] plus an application observer subscribing at a solver-chosen step'),
    Harness('lifecycle[1,v1]', h_lifecycle, quick=dict(deviations=1, kinds=['none'] + ALL, max_pos=24, version=3), timeout=(600, 1800),
            symbolic=False, goals=('fully-connected', 'faulted', 'reconnected'), note='legacy protocol generation'),
] + [Harness(f'lifecycle[2,{k}]', h_lifecycle, quick=dict(deviations=2, kinds0=[k], kinds=ALL, max_pos=20),
             thorough=dict(deviations=2, kinds0=[k], kinds=ALL, max_pos=26, extended=True), timeout=(900, 3600), symbolic=False,
             goals=('reconnected',), tiers=('quick', 'thorough') if k in ('error-from-driver', 'error-in-send', 'close_link', 'ping-first') else ('thorough',),
             note='two deviations; the first kind is fixed per harness instance') for k in ALL
] + [Harness(f'threads[2,{k}]', h_lifecycle, quick=dict(deviations=2, kinds0=[k], kinds=ALL, max_pos=26, params=2, threads=True),
             thorough=dict(deviations=2, kinds0=[k], kinds=ALL, max_pos=34, params=3, extended=True, threads=True), timeout=(900, 3600),
             symbolic=False, goals=('reconnected',),
             tiers=('quick', 'thorough') if k in ('error-from-driver', 'error-in-send', 'close_link', 'duplicate-reply') else ('thorough',),
             note='baton-scheduled real threads; two deviations, the first kind fixed per harness instance') for k in ALL] + [
    Harness('open_fail', h_open_fail, symbolic=False, goals=('failed-then-connected', 'error-during-connect'), timeout=(120, 300)),
    Harness('sync', h_sync, quick=dict(kinds=['none', 'error-from-driver', 'error-in-send'], max_pos=24), symbolic=False,
            goals=('opened', 'open-raised', 'error-during-open'), timeout=(600, 1800)),
]
