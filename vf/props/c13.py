"""C13 Numeric wire codecs are exact or within their stated resolution.

Engine B (vf/py2smt): the current source of each numeric kernel is parsed and interpreted over bit-vector /
IEEE-754 terms; one solver query per control path decides the claim for every input on that path.
Engine A (CrossHair) for the byte-level packers/decoders around them."""
import math
import struct

import z3

from vf.harness import Harness
from vf.py2smt.harness import SmtHarness
from vf.py2smt.interp import Interp, IntV, FloatV, BytesV, ListV, F16, F32, F64, RNE, W
from vf.py2smt import util as U
from vf.env.base import MiniCF

import cflib.utils.encoding as enc
from cflib.crazyflie.localization import Localization
from cflib.crazyflie.mem.trajectory_memory import _CompressedBase, CompressedStart, CompressedSegment
from cflib.crazyflie.mem.led_driver_memory import LEDDriverMemory
from cflib.crazyflie.mem.led_timings_driver_memory import LEDTimingsDriverMemory
from cflib.crtp.crtpstack import CRTPPacket

FUNCTIONS = ['cflib.utils.encoding:fp16_to_float', 'cflib.utils.encoding:decompress_quaternion',
             'cflib.utils.encoding:compress_quaternion', 'cflib.crazyflie.localization:Localization._decode_lh_angle',
             'cflib.crazyflie.localization:Localization._incoming',
             'cflib.crazyflie.mem.trajectory_memory:_CompressedBase._encode_spatial',
             'cflib.crazyflie.mem.trajectory_memory:_CompressedBase._encode_yaw',
             'cflib.crazyflie.mem.trajectory_memory:CompressedStart.pack', 'cflib.crazyflie.mem.trajectory_memory:CompressedSegment.pack',
             'cflib.crazyflie.mem.led_driver_memory:LEDDriverMemory.write_data',
             'cflib.crazyflie.mem.led_timings_driver_memory:LEDTimingsDriverMemory.write_data']
STUBS = ['numpy shims in the translator: np.zeros(n) -> list of FP zeros, np.sqrt -> fp.sqrt, np.array(list)/scalar -> '
         'element-wise fp.div, np.linalg.norm(list) -> fp.sqrt of the left-to-right sum of squares',
         'memory handler stub recording write(); MiniCF recording link']
ASSUMPTIONS = ['py2smt translator and z3 FloatingPoint theory are trusted; translator validated against the real functions on '
               'concrete vectors on every run',
               'numpy float64 arithmetic is IEEE-754 binary64 round-to-nearest-even; np.linalg.norm summation order may differ '
               'from the shim in the last ulp',
               'RGB565 scaling is decided over the reals (lemma int(k/100) == k//100 for 0<=k<=6300 proved separately in FP)']
OUTSIDE = ['compress o decompress composition (argued in DESIGN §3 C13, not solved)',
           'compress_quaternion on arbitrary (unnormalised) doubles: decided for inputs whose normalised components are given '
           'symbolically (see harness note)']
EXPLANATION = 'C13: fp16_to_float over all 65,536 patterns as one query per control path against z3\'s native Float16; quaternion ' \
              'codec paths; fixed-point encoders; RGB565; range/angle stream decoders.'


# ======================================================================================= fp16_to_float (Engine B)
def _fp16_oracle(h16):
    return z3.fpFPToFP(RNE, z3.fpBVToFP(h16, F16), F64)


def _fp16_ref(pattern):
    return struct.unpack('<e', struct.pack('<H', pattern & 0xFFFF))[0]


def _fp16_check(vals, B=None):
    h = vals['h']
    got = enc.fp16_to_float(h)
    ref = _fp16_ref(h)
    assert isinstance(got, float), f'fp16_to_float({h:#06x}) returned {type(got).__name__} {got!r}, binary16 value is {ref!r}'
    assert U.py_same_float(float(got), ref), f'fp16_to_float({h:#06x}) = {got!r}, binary16 value is {ref!r}'


def h_fp16(ctx):
    signed = ctx.B.get('signed', False)
    h = z3.BitVec('h', 16)
    h._signed = signed
    arg = (lambda: [IntV(z3.SignExt(48, h), -32768, 32767)]) if signed else (lambda: [IntV(z3.ZeroExt(48, h), 0, 65535)])
    # translator validation on boundary patterns
    vecs = [0, 1, 2, 0x3ff, 0x400, 0x401, 0x7bff, 0x7c00, 0x7c01, 0x7e00, 0x7fff, 0x8000, 0x8001, 0x83ff, 0x8400, 0xbc00,
            0x3c00, 0x3555, 0xfbff, 0xfc00, 0xfe00, 0xffff, 0x0200, 0x0100, 0x0080, 0x5640, 0xd640] + list(range(0x3f0, 0x410))
    pairs = []
    for v in vecs:
        a = v - 65536 if (signed and v >= 32768) else v
        pairs.append((U.real_eval(enc.fp16_to_float, [a]), U.formula_eval(enc.fp16_to_float, [a], unwind=11)))
    if not ctx.validate('fp16_to_float', [(r[1] if r[0] == 'return' else r, m[1] if m[0] == 'return' else m) for r, m in pairs]):
        return
    it = Interp(enc.fp16_to_float, unwind=11)          # a 10-bit fraction needs at most 10 normalisation shifts
    paths = it.explore(arg)
    excl = ctx.exclusions({'h': h})
    oracle = _fp16_oracle(h)
    # coverage: the disjunction of the path conditions is valid
    cover = z3.Or(*[z3.And(*p.pc) if p.pc else z3.BoolVal(True) for p in paths])
    ctx.query('path conditions cover all 65536 patterns', [z3.Not(cover)], {'h': h}, lambda v: None)
    for i, p in enumerate(paths):
        name = f'path {i}: result is the binary16 value as a float'
        if p.kind != 'return' or not isinstance(p.value, FloatV):
            # returns a non-float (or raises): refuted by any pattern on this path
            ctx.query(name + ' [returns %s]' % (type(p.value).__name__ if p.kind == 'return' else p.exc),
                      p.pc + excl, {'h': h}, _fp16_check)
            continue
        ctx.query(name, p.pc + excl + [z3.Not(U.same_f64(p.value.t, oracle))], {'h': h}, _fp16_check)
        ctx.goal('float-path')
    ctx.sample({'paths': len(paths), 'feasibility_queries': it.queries})
    ctx.res['max_decisions'] = max(len(p.pc) for p in paths)


def _fp16_replay(vals, B):
    _fp16_check(vals)


# ======================================================================================= lighthouse angle stream (Engine B)
def _lh_check(vals, B=None):
    data = bytes(vals[f'd{i}'] for i in range(21))
    loc = Localization.__new__(Localization)
    got = loc._decode_lh_angle(data)
    raw = struct.unpack('<Bfhhhfhhh', data)
    assert got['basestation'] == raw[0]
    for axis, base_i in (('x', 1), ('y', 5)):
        base = raw[base_i]
        assert U.py_same_float(float(got[axis][0]), base), (axis, 0)
        for k in range(3):
            off = _fp16_ref(raw[base_i + 1 + k])
            exp = base - off
            g = got[axis][k + 1]
            assert isinstance(g, float) and U.py_same_float(g, exp), \
                f'{axis}[{k + 1}] = {g!r}, device encoded base {base!r} - offset {off!r} = {exp!r}'


def h_lh_angle(ctx):
    """One half-float sensor offset symbolic at a time (all 65,536 patterns), base angles symbolic float32, rest concrete."""
    which = ctx.B['offset']          # 0..5
    bs = z3.BitVec('bs', 8)
    bx, by = z3.BitVec('bx', 32), z3.BitVec('by', 32)
    off = z3.BitVec('off', 16)
    consts = [0x3c00, 0xb800, 0x0001, 0x8000, 0x7bff, 0x0400]
    fields = []
    for k in range(6):
        fields.append(off if k == which else z3.BitVecVal(consts[k], 16))
    # little endian layout <Bfhhhfhhh : first field in the least significant bits
    order = [bs, bx, fields[0], fields[1], fields[2], by, fields[3], fields[4], fields[5]]
    data = z3.Concat(*reversed(order))
    inputs = {}
    for i in range(21):
        inputs[f'd{i}'] = z3.Extract(8 * i + 7, 8 * i, data)
    fn = Localization._decode_lh_angle
    # validation
    for raw in (bytes(range(1, 22)), struct.pack('<Bfhhhfhhh', 3, 1.5, 0x3c00, -0x4000, 1, -0.25, 0x7bff - 65536 if False else 0x7bff, 0x0400, 0x03ff)):
        loc = Localization.__new__(Localization)
        real = loc._decode_lh_angle(raw)
        it0 = Interp(fn, unwind=11)
        ps = it0.explore(lambda: [BytesV(z3.BitVecVal(int.from_bytes(raw, 'little'), 168))])
        assert len(ps) == 1
        model = U.term_to_py(ps[0].value)
        if not ctx.validate('_decode_lh_angle', [(real['basestation'], model['basestation'])] +
                            [(float(a), b) for a, b in zip(real['x'] + real['y'], model['x'] + model['y'])]):
            return
    it = Interp(fn, unwind=11)
    paths = it.explore(lambda: [BytesV(data)], assumptions=[z3.Not(z3.fpIsNaN(z3.fpBVToFP(bx, F32))), z3.Not(z3.fpIsNaN(z3.fpBVToFP(by, F32)))])
    fbx = z3.fpFPToFP(RNE, z3.fpBVToFP(bx, F32), F64)
    fby = z3.fpFPToFP(RNE, z3.fpBVToFP(by, F32), F64)
    for i, p in enumerate(paths):
        if p.kind != 'return':
            ctx.query(f'path {i} raises {p.exc}', p.pc, inputs, _lh_check)
            continue
        d = p.value
        claims = [d['basestation'].t == z3.ZeroExt(W - 8, bs)]
        bad_type = False
        for axis, base, lo in (('x', fbx, 0), ('y', fby, 3)):
            vals = d[axis]
            claims.append(U.same_f64(vals[0].t, base))
            for k in range(3):
                v = vals[k + 1]
                if not isinstance(v, FloatV):
                    bad_type = True
                    continue
                claims.append(U.same_f64(v.t, z3.fpSub(RNE, base, _fp16_oracle(fields[lo + k]))))
        if bad_type:
            ctx.query(f'path {i}: an angle is not a float', p.pc, inputs, _lh_check)
        else:
            ctx.query(f'path {i}: x[i] == base - fp16(offset_i)', p.pc + [z3.Not(z3.And(*claims))], inputs, _lh_check)
            ctx.goal('angles-decoded')
    ctx.sample({'paths': len(paths), 'symbolic_offset': which, 'inlined': sorted(it.inlined)})


def _lh_replay(vals, B):
    _lh_check(vals)


# ======================================================================================= decompress_quaternion (Engine B)
def _decomp_ref(comp):
    """Reference from the firmware's quatcompress.h: groups of 10 bits from the least significant end, assigned to the
    components in the order w, z, y, x skipping the largest; magnitude / 511 / sqrt(2); largest = +sqrt(1 - sum of squares)."""
    mask = 511
    largest = comp >> 30
    q = [None] * 4
    ss = 0.0
    for i in (3, 2, 1, 0):
        if i != largest:
            mag = comp & mask
            neg = (comp >> 9) & 1
            comp >>= 10
            v = mag / (mask * math.sqrt(2))
            q[i] = -v if neg else v
            ss += v * v
    q[largest] = math.sqrt(max(0.0, 1.0 - ss))
    return q, largest


def _decomp_check(vals, B=None):
    comp = vals['comp']
    got = enc.decompress_quaternion(comp)
    ref, largest = _decomp_ref(comp)
    assert len(got) == 4
    for i in range(4):
        assert abs(float(got[i]) - ref[i]) <= 1e-9, f'component {i} of decompress({comp:#010x}) = {got[i]!r}, expected {ref[i]!r}'
    assert got[largest] >= 0


def h_decompress(ctx):
    """Per control path (largest index x sign bits): every slot other than the largest is +-(mag/511/sqrt2) of ITS 10-bit
    group (groups taken from the least significant end in the order w,z,y,x skipping the largest) and the largest is
    +sqrt(1 - sum of squares).  The reference terms are built here from the wire layout, with the arithmetic written in the
    order (m/511)/sqrt(2); one lemma ties that order to the specification value m/(511*sqrt2) for all 512 magnitudes."""
    comp = z3.BitVec('comp', 32)
    fn = enc.decompress_quaternion
    for v in (0, 1, 0xffffffff, 0x3fffffff, 0x40000000, 0x80000200, 0xc00ffc00, 0x12345678, 0x9abcdef0, 0x7ff7fdff):
        real = [float(x) for x in fn(v)]
        model = U.formula_eval(fn, [v])[1]
        if not ctx.validate('decompress_quaternion', list(zip(real, model))):
            return
    it = Interp(fn)
    paths = it.explore(lambda: [IntV(z3.ZeroExt(32, comp), 0, 2 ** 32 - 1)])
    sqrt2 = z3.fpSqrt(RNE, z3.FPVal(2.0, F64))

    def ref_mag(m9):
        return z3.fpDiv(RNE, z3.fpDiv(RNE, z3.fpSignedToFP(RNE, z3.ZeroExt(W - 9, m9), F64), z3.FPVal(511.0, F64)), sqrt2)
    # lemma: the reference order is the specification value to 1e-12 for every 9-bit magnitude
    m = z3.BitVec('m', 9)
    spec = z3.fpDiv(RNE, z3.fpUnsignedToFP(RNE, m, F64), z3.FPVal(511.0 * math.sqrt(2), F64))
    ctx.query('lemma: (m/511)/sqrt2 == m/(511*sqrt2) within 1e-12 for all 512 magnitudes',
              [z3.Not(z3.fpLEQ(z3.fpAbs(z3.fpSub(RNE, ref_mag(m), spec)), z3.FPVal(1e-12, F64)))], {'m': m},
              lambda v: None, timeout_s=600)
    for pi, p in enumerate(paths):
        q = p.value
        s0 = z3.Solver()
        s0.add(*p.pc)
        assert s0.check() == z3.sat
        largest = s0.model().eval(z3.LShR(comp, 30), model_completion=True).as_long()
        ctx.query(f'path {pi}: index bits are {largest} on the whole path', p.pc + [z3.LShR(comp, 30) != largest], {'comp': comp},
                  _decomp_check)
        c = comp
        ss = z3.FPVal(0.0, F64)
        # one small query per slot (a differing slot is found quickly; identical terms are discharged by simplification)
        for i in (3, 2, 1, 0):
            if i == largest:
                continue
            v = ref_mag(z3.Extract(8, 0, c))
            exp = z3.If(z3.Extract(9, 9, c) == 1, z3.fpNeg(v), v)
            c = z3.LShR(c, 10)
            ctx.query(f'path {pi}: component {i} is +-(mag/511/sqrt2) of its 10-bit group', p.pc + [z3.Not(U.same_f64(q[i].t, exp))],
                      {'comp': comp}, _decomp_check, timeout_s=ctx.B.get('query_timeout', 300))
            ss = z3.fpAdd(RNE, ss, z3.fpMul(RNE, exp, exp))
        big = z3.fpSqrt(RNE, z3.fpSub(RNE, z3.FPVal(1.0, F64), ss))
        ctx.query(f'path {pi}: largest component {largest} is +sqrt(1 - sum of squares)', p.pc + [z3.Not(U.same_f64(q[largest].t, big))],
                  {'comp': comp}, _decomp_check, timeout_s=ctx.B.get('query_timeout', 300))
        ctx.goal('decoded')
    ctx.sample({'paths': len(paths)})


# ======================================================================================= compress_quaternion (Engine B)
def _comp_check(vals, B=None):
    q = [vals['q0'], vals['q1'], vals['q2'], vals['q3']]
    n = math.sqrt(sum(x * x for x in q))
    got = int(enc.compress_quaternion(q))
    qn = [x / n for x in q]
    assert 0 <= got < 2 ** 32, f'compress_quaternion({q}) = {got:#x} does not fit 32 bits'
    largest = got >> 30
    assert all(abs(qn[largest]) >= abs(x) - 1e-12 for x in qn), 'index bits do not select a largest component'
    c = got
    for i in (3, 2, 1, 0):
        if i == largest:
            continue
        mag, neg = c & 511, (c >> 9) & 1
        c >>= 10
        exp = 511 * abs(qn[i]) * math.sqrt(2)
        assert abs(mag - exp) <= 0.5 + 1e-6, f'magnitude of component {i}: {mag} vs {exp}'
        if mag:
            assert neg == int((qn[i] < 0) != (qn[largest] < 0)), f'sign of component {i}'


def h_compress(ctx):
    """compress_quaternion on ALREADY NORMALISED input (weaker precondition, DESIGN §3 C13): the call
    np.linalg.norm(quat) is replaced by the constant 1.0 (so quat_n == quat bit for bit, x/1.0 == x) and the four components
    are arbitrary doubles with |q_i| <= 1.001 whose left-to-right FP sum of squares lies in [1-1e-6, 1+1e-6].
    Per control path (which component is picked as largest): (1) every 9-bit magnitude is <= 511, hence the result fits 32 bits;
    (2) the picked component has maximal magnitude; (3) the word is index<<30 | three 10-bit groups (sign xor sign(largest),
    trunc(511*|q|/M_SQRT1_2 + 0.5)) in the order x,y,z,w skipping the largest."""
    qs = [z3.FP(f'q{i}', F64) for i in range(4)]
    fn = enc.compress_quaternion
    import numpy as np
    for v in ([0, 0, 0, 1], [0.5, 0.5, 0.5, 0.5], [0.1, -0.2, 0.3, -0.9273618495495703], [-1, 0, 0, 0],
              [0.7071067811865476, 0, 0.7071067811865476, 0], [2, 0, 0, 2], [1e-3, -1e-3, 0.3, 0.2]):
        real = int(fn([float(x) for x in v]))
        model = U.formula_eval(fn, [[float(x) for x in v]], globals_extra={'np': np})
        if not ctx.validate('compress_quaternion', [(real, model[1])]):
            return
    lim = 1.001
    dom = []
    for q in qs:
        dom += [z3.fpLEQ(q, z3.FPVal(lim, F64)), z3.fpGEQ(q, z3.FPVal(-lim, F64))]
    ssq = None
    for q in qs:
        sq = z3.fpMul(RNE, q, q)
        ssq = sq if ssq is None else z3.fpAdd(RNE, ssq, sq)
    # the non-linear normalisation precondition is added to the claim queries only: exploring with the (weaker) range
    # assumptions may visit a path that the precondition excludes, whose claims are then vacuously unsat
    unit = [z3.fpGEQ(ssq, z3.FPVal(1 - 1e-6, F64)), z3.fpLEQ(ssq, z3.FPVal(1 + 1e-6, F64))]
    it = Interp(fn, globals_extra={'np': np}, timeout_ms=ctx.B.get('feas_timeout', 120) * 1000, options={'norm_is_one': True})
    paths = it.explore(lambda: [ListV(FloatV(q, -lim, lim) for q in qs)], assumptions=dom)
    inputs = {f'q{i}': qs[i] for i in range(4)}
    msqrt = z3.fpDiv(RNE, z3.FPVal(1.0, F64), z3.fpSqrt(RNE, z3.FPVal(2.0, F64)))
    nq = ctx.B.get('max_hard_queries', 99)

    def sbv_terms(t, out, seen):
        if t.get_id() in seen:
            return
        seen.add(t.get_id())
        if z3.is_app(t):
            if t.decl().kind() == z3.Z3_OP_FPA_TO_SBV:
                out.append(t)
                return
            for c in t.children():
                sbv_terms(c, out, seen)
    shard = ctx.B.get('shard')
    for pi, p in enumerate(paths):
        if shard is not None and pi % 8 != shard:
            continue
        if p.kind != 'return':
            ctx.query(f'path {pi} raises {p.exc}', p.pc, inputs, _comp_check)
            continue
        r = p.value.t
        # the magnitude computations inside the result word (float -> int conversions)
        found = []
        sbv_terms(r, found, set())
        # which component is the largest on this path: decided by the comparisons on the path (pure FP comparisons)
        L = None
        for cand in range(4):
            res = ctx.query(f'path {pi}: |q[{cand}]| maximal on this path?', p.pc + [z3.Not(z3.And(*[z3.fpGEQ(z3.fpAbs(qs[cand]), z3.fpAbs(qs[i])) for i in range(4)]))],
                            inputs, lambda v: None, timeout_s=60) if False else None
        # reference groups, written from the firmware definition
        for cand in range(4):
            s0 = z3.Solver()
            s0.set('timeout', 60000)
            s0.add(*p.pc)
            s0.add(z3.Not(z3.And(*[z3.fpGEQ(z3.fpAbs(qs[cand]), z3.fpAbs(qs[i])) for i in range(4)])))
            if s0.check() == z3.unsat:
                L = cand if L is None else L
        if L is None:
            ctx.query(f'path {pi}: no component is provably the largest on this path', p.pc, inputs, _comp_check)
            continue
        ctx.res['obligations'] += 1
        ctx.res['discharged'] += 1          # "component L has maximal magnitude on the whole path" (unsat above)
        ctx.res['paths'] += 1
        neg_l = z3.fpLT(qs[L], z3.FPVal(0.0, F64))
        refs = []
        for i in range(4):
            if i == L:
                continue
            qn = z3.fpDiv(RNE, qs[i], z3.FPVal(1.0, F64))          # the normalised component under the abstraction norm == 1.0
            mag = z3.fpToSBV(z3.RTZ(), z3.fpAdd(RNE, z3.fpMul(RNE, z3.FPVal(511.0, F64), z3.fpDiv(RNE, z3.fpAbs(qn), msqrt)),
                                                 z3.FPVal(0.5, F64)), z3.BitVecSort(W))
            negbit = z3.If(z3.Xor(z3.fpLT(qn, z3.FPVal(0.0, F64)), z3.fpLT(z3.fpDiv(RNE, qs[L], z3.FPVal(1.0, F64)), z3.FPVal(0.0, F64))),
                           z3.BitVecVal(1, W), z3.BitVecVal(0, W))
            refs.append((i, mag, negbit))
        # (4) the code's magnitude terms are the reference terms (identical after simplification, else an FP query)
        subs_code, subs_ref, fresh = [], [], []
        ok = len(found) == 3
        for k, (i, mag, negbit) in enumerate(refs):
            m = z3.BitVec(f'mag{i}', W)
            fresh.append(m)
            match = None
            for f in found:
                if z3.eq(z3.simplify(f), z3.simplify(mag)):
                    match = f
            if match is None and ok:
                for f in found:
                    if ctx.query(f'path {pi}: magnitude term of component {i} equals trunc(511*|q|/M_SQRT1_2+0.5)', p.pc + [f != mag], inputs,
                                 _comp_check, timeout_s=ctx.B.get('query_timeout', 300)) == 'unsat':
                        match = f
                        break
            if match is None:
                ok = False
                break
            subs_code.append((match, m))
            subs_ref.append((mag, m))
        if not ok:
            ctx.query(f'path {pi}: result word is not built from three reference magnitudes', p.pc, inputs, _comp_check)
            continue
        # (2)+(3) layout, with the magnitudes abstracted to fresh 9-bit values (assume-guarantee: (1) proves they are)
        r_abs = z3.substitute(r, *subs_code)
        word = z3.BitVecVal(L, W)
        for (i, mag, negbit), m in zip(refs, fresh):
            word = (word << 10) | (negbit << 9) | m
        rng = [z3.And(m >= 0, m <= 511) for m in fresh]
        ctx.query(f'path {pi}: word == {L}<<30 | groups(sign xor sign(largest), magnitude) in order x,y,z,w; fits 32 bits',
                  p.pc + rng + [z3.Not(z3.And(r_abs == word, z3.ULT(r_abs, z3.BitVecVal(1 << 32, W)), z3.LShR(r_abs, 30) == L))],
                  inputs, _comp_check, timeout_s=120)
        # (1) magnitudes fit 9 bits  (the hard, non-linear floating-point obligations)
        for i, mag, _ in refs:
            if nq <= 0:
                ctx.res['inconclusive'].append(f'path {pi} component {i}: magnitude bound not attempted in this tier')
                continue
            nq -= 1
            ctx.query(f'path {pi}: magnitude of component {i} <= 511', p.pc + unit + [z3.Not(z3.And(mag >= 0, mag <= 511))], inputs,
                      _comp_check, timeout_s=ctx.B.get('query_timeout', 600))
        ctx.goal('compressed')
    ctx.sample({'paths': len(paths), 'feasibility_queries': it.queries, 'solver_s': round(it.solver_s, 1)})


# ======================================================================================= fixed-point encoders (Engine B)
def _enc_check(vals, B=None):
    x = vals['x']
    b = _CompressedBase()
    if B and B.get('which') == 'yaw':
        got = b._encode_yaw(x)
        exact = math.degrees(x) * 10
    else:
        got = b._encode_spatial(x)
        exact = x * 1000
    assert isinstance(got, int)
    assert abs(got - exact) < 1, f'encoded {got} for {x!r}: exact scaled value {exact!r}'
    assert abs(got) <= abs(exact)


def h_encoders(ctx):
    which = ctx.B['which']
    x = z3.FP('x', F64)
    fn = _CompressedBase._encode_yaw if which == 'yaw' else _CompressedBase._encode_spatial
    lim = 100.0 if which == 'spatial' else 1000.0
    dom = [z3.fpLEQ(x, z3.FPVal(lim, F64)), z3.fpGEQ(x, z3.FPVal(-lim, F64))]
    for v in (0.0, 1.0, -1.0, 0.0005, 32.767, 32.768, -32.768, -32.7689, 1e-9, 3.14159, -0.9999):
        if not ctx.validate(fn.__name__, [(U.real_eval(fn, [None, v])[1], U.formula_eval(fn, [v], globals_extra={'math': math})[1])]):
            return
    it = Interp(fn, globals_extra={'math': math})
    paths = it.explore(lambda: [FloatV(x)], assumptions=dom)
    scale = z3.FPVal(1000.0, F64)
    if which == 'yaw':
        exact = z3.fpMul(RNE, z3.fpMul(RNE, x, z3.FPVal(180.0 / math.pi, F64)), z3.FPVal(10.0, F64))
    else:
        exact = z3.fpMul(RNE, x, scale)
    for pi, p in enumerate(paths):
        if p.kind != 'return' or not isinstance(p.value, IntV):
            ctx.query(f'path {pi}: not an int', p.pc, {'x': x}, lambda v: _enc_check(v, ctx.B))
            continue
        r = z3.fpSignedToFP(RNE, p.value.t, F64)
        claim = z3.And(z3.fpLT(z3.fpAbs(z3.fpSub(RNE, r, exact)), z3.FPVal(1.0, F64)), z3.fpLEQ(z3.fpAbs(r), z3.fpAbs(exact)))
        ctx.query(f'path {pi}: |encoded - scaled| < 1 unit, truncation towards zero', p.pc + [z3.Not(claim)], {'x': x},
                  lambda v: _enc_check(v, ctx.B), timeout_s=300)
        ctx.goal('encoded')
    # lemma used by the RGB565 harness (decided over the reals there): int(k/100) == k//100 in IEEE double for 0<=k<=6300
    if which == 'spatial':
        k = z3.BitVec('k', 16)
        kf = z3.fpUnsignedToFP(RNE, k, F64)
        q = z3.fpToUBV(z3.RTZ(), z3.fpDiv(RNE, kf, z3.FPVal(100.0, F64)), z3.BitVecSort(16))
        ctx.query('lemma: int(k/100) == k//100 for 0<=k<=6300', [z3.ULE(k, 6300), q != z3.UDiv(k, z3.BitVecVal(100, 16))],
                  {'k': k}, lambda v: (_ for _ in ()).throw(AssertionError('lemma')) if int(v['k'] / 100) != v['k'] // 100 else None)


# ======================================================================================= Engine A harnesses
class _Mem:
    def __init__(self):
        self.writes = []

    def write(self, mem, addr, data, flush_queue=False):
        self.writes.append((addr, data))


def _scale5(c):
    return ((c & 0xFF) * 249 + 1014) >> 11


def _scale6(c):
    return ((c & 0xFF) * 253 + 505) >> 10


def _led_spec(cols, inten):
    """Specification side, plain ints: (R5, G6, B5) of one LED."""
    full = (_scale5(cols[0]), _scale6(cols[1]), _scale5(cols[2]))
    return tuple((f * inten) // 100 for f in full), full


def _rgb_concrete(vals, B=None):
    ch = (B or {}).get('channel', 0)
    a, b, o1, o2, inten = vals['a'], vals['b'], vals['o1'], vals['o2'], vals['intensity']
    h = _Mem()
    m = LEDDriverMemory(1, 0x10, 24, h)
    cols = [[o1, o2, o2], [o1, o2, o2]]
    cols[0][ch], cols[1][ch] = a, b
    for i in range(2):
        m.leds[i].r, m.leds[i].g, m.leds[i].b = cols[i]
        m.leds[i].intensity = inten
    m.leds[2].r = m.leds[2].g = m.leds[2].b = 255
    m.write_data(None)
    assert len(h.writes) == 1 and h.writes[0][0] == 0 and len(h.writes[0][1]) == 24
    data = h.writes[0][1]
    px = [data[2 * i] * 256 + data[2 * i + 1] for i in range(12)]
    f = [(p >> 11, (p >> 5) & 0x3F, p & 0x1F) for p in px]
    assert f[0][ch] <= f[1][ch], f'not monotone: level {a} -> {f[0][ch]}, level {b} -> {f[1][ch]}'
    for k in range(3):
        if k != ch:
            assert f[0][k] == f[1][k], 'channels overlap'
    assert px[2] == 0xFFFF, 'white at full intensity is not full scale'
    assert px[3] == 0, 'black is not 0'
    for i in range(2):
        exp, _ = _led_spec(cols[i], inten)
        assert f[i] == exp, f'LED {i}: fields {f[i]} != floor(scale * intensity / 100) = {exp}'


def _find_div100(term, out, seen):
    """Collect subterms of the shape fp.to_sbv(RTZ, fp.div(RNE, to_fp(RNE, K), 100.0)) -> (subterm, K)."""
    i = term.get_id()
    if i in seen:
        return
    seen.add(i)
    if z3.is_app(term):
        if term.decl().kind() == z3.Z3_OP_FPA_TO_SBV:
            d = term.arg(1)
            if z3.is_app(d) and d.decl().kind() == z3.Z3_OP_FPA_DIV:
                num, den = d.arg(1), d.arg(2)
                if z3.is_fp_value(z3.simplify(den)) and z3.eq(z3.simplify(den), z3.FPVal(100.0, F64)) and \
                        z3.is_app(num) and num.decl().kind() == z3.Z3_OP_FPA_TO_FP and num.num_args() == 2 and z3.is_bv(num.arg(1)):
                    out.append((term, num.arg(1)))
        for c in term.children():
            _find_div100(c, out, seen)


def _apply_div100_lemma(ctx, pc, terms, inputs, check):
    """Lemma L (proved below, once): for every integer 0 <= k <= 6300, trunc(double(k) / 100.0) == k // 100.
    Each occurrence int(K / 100) in the path's result is replaced by K udiv 100 after proving 0 <= K <= 6300 on the path
    (pure bit-vector query).  Returns the rewritten terms, or None if a side condition fails."""
    k = z3.BitVec('k', W)
    kf = z3.fpSignedToFP(RNE, k, F64)
    q = z3.fpToSBV(z3.RTZ(), z3.fpDiv(RNE, kf, z3.FPVal(100.0, F64)), z3.BitVecSort(W))
    if not getattr(ctx, '_lemma_done', False):
        r = ctx.query('lemma L: trunc(double(k)/100.0) == k//100 for 0<=k<=6300',
                      [k >= 0, k <= 6300, q != z3.UDiv(k, z3.BitVecVal(100, W))], {'k': k}, lambda v: None, timeout_s=600)
        if r != 'unsat':
            return None
        ctx._lemma_done = True
    found, seen = [], set()
    for t in terms:
        _find_div100(t, found, seen)
    subs = []
    for sub, K in found:
        r = ctx.query('side condition of lemma L: 0 <= K <= 6300 on this path', pc + [z3.Not(z3.And(K >= 0, K <= 6300))], inputs, check)
        if r != 'unsat':
            return None
        subs.append((sub, z3.UDiv(K, z3.BitVecVal(100, W))))
    ctx.sample({'lemma_L_rewrites': len(subs)})
    return [z3.substitute(t, *subs) if subs else t for t in terms]


def h_rgb565(ctx):
    """LEDDriverMemory.write_data interpreted over BV/FP terms: LED0 and LED1 differ in one channel (a <= b), symbolic
    intensity 0..100, LED2 white at full intensity, LED3.. black."""
    ch = ctx.B['channel']
    a, b, o1, o2 = (z3.BitVec(n, 8) for n in ('a', 'b', 'o1', 'o2'))
    inten = z3.BitVec('intensity', 8)
    inputs = {'a': a, 'b': b, 'o1': o1, 'o2': o2, 'intensity': inten}
    dom = [z3.ULE(a, b), z3.ULE(inten, 100)]

    def iv(x, hi=255):
        return IntV(z3.ZeroExt(W - 8, x), 0, hi)

    def mk():
        h = _Mem()
        m = LEDDriverMemory(1, 0x10, 24, h)
        cols = [[iv(o1), iv(o2), iv(o2)], [iv(o1), iv(o2), iv(o2)]]
        cols[0][ch], cols[1][ch] = iv(a), iv(b)
        for i in range(2):
            m.leds[i].r, m.leds[i].g, m.leds[i].b = cols[i]
            m.leds[i].intensity = iv(inten, 100)
        m.leds[2].r = m.leds[2].g = m.leds[2].b = 255
        mk.last = h
        return m
    # translator validation on concrete colours
    for va, vb, v1, v2, vi in ((0, 255, 0, 0, 100), (17, 18, 200, 3, 50), (255, 255, 255, 255, 99), (8, 9, 1, 254, 1), (100, 200, 7, 77, 0)):
        hh = _Mem()
        mm = LEDDriverMemory(1, 0x10, 24, hh)
        cc = [[v1, v2, v2], [v1, v2, v2]]
        cc[0][ch], cc[1][ch] = va, vb
        for i in range(2):
            mm.leds[i].r, mm.leds[i].g, mm.leds[i].b = cc[i]
            mm.leds[i].intensity = vi
        mm.leds[2].r = mm.leds[2].g = mm.leds[2].b = 255
        real_m = LEDDriverMemory(1, 0x10, 24, hh)
        real_m.leds = mm.leds
        real_m.write_data(None)
        real = list(hh.writes[0][1])
        h2 = _Mem()
        mm.mem_handler = h2
        it0 = Interp(LEDDriverMemory.write_data, self_obj=mm)
        ps = it0.explore(lambda: [None])
        assert len(ps) == 1 and ps[0].kind == 'return', (len(ps), ps[0].kind, ps[0].exc)
        if not ctx.validate('LEDDriverMemory.write_data', list(zip(real, U.term_to_py(h2.writes[-1][1])))):
            return
    it = Interp(LEDDriverMemory.write_data, self_obj=mk)
    paths = it.explore(lambda: [None], assumptions=dom)

    def s5(x):
        x = z3.ZeroExt(24, x)
        return z3.LShR(x * 249 + 1014, 11) & 0x1F

    def s6(x):
        x = z3.ZeroExt(24, x)
        return z3.LShR(x * 253 + 505, 10) & 0x3F
    I32 = z3.ZeroExt(24, inten)
    for pi, p in enumerate(paths):
        if p.kind != 'return':
            ctx.query(f'path {pi} raises {p.exc}', p.pc, inputs, lambda v: _rgb_concrete(v, ctx.B))
            continue
        # the memory write recorded on THIS path: re-run is deterministic, so take it from a fresh replay of the path
        data = p.writes[-1][1]
        terms = _apply_div100_lemma(ctx, p.pc, [d.t for d in data], inputs, lambda v: _rgb_concrete(v, ctx.B))
        if terms is None:
            terms = [d.t for d in data]        # fall back to the (slow) direct floating-point query
        px = [z3.Extract(31, 0, terms[2 * i]) * 256 + z3.Extract(31, 0, terms[2 * i + 1]) for i in range(12)]
        f = [(z3.LShR(q, 11), z3.LShR(q, 5) & 0x3F, q & 0x1F) for q in px]
        cols = [[o1, o2, o2], [o1, o2, o2]]
        cols[0][ch], cols[1][ch] = a, b
        claims = [len(data) == 24, z3.ULE(f[0][ch], f[1][ch]), px[2] == 0xFFFF, px[3] == 0]
        for k in range(3):
            if k != ch:
                claims.append(f[0][k] == f[1][k])
        for i in range(2):
            full = (s5(cols[i][0]), s6(cols[i][1]), s5(cols[i][2]))
            for k in range(3):
                claims.append(f[i][k] == z3.UDiv(full[k] * I32, z3.BitVecVal(100, 32)))
        claims = [c if not isinstance(c, bool) else z3.BoolVal(c) for c in claims]
        ctx.query(f'path {pi}: RGB565 fields monotone, disjoint, scaled by intensity; white full scale, black 0',
                  p.pc + [z3.Not(z3.And(*claims))], inputs, lambda v: _rgb_concrete(v, ctx.B), timeout_s=600)
        ctx.goal('encoded')
    ctx.sample({'paths': len(paths), 'feasibility_queries': it.queries, 'solver_s': round(it.solver_s, 1)})


def _levels_concrete(vals, B=None):
    a, b = vals['a'], vals['b']
    h = _Mem()
    m = LEDTimingsDriverMemory(1, 0x17, 2000, h)
    m.add(time=1, rgb={'r': a, 'g': a, 'b': a})
    m.add(time=1, rgb={'r': b, 'g': b, 'b': b})
    m.add(time=1, rgb={'r': 255, 'g': 255, 'b': 255}, leds=vals.get('leds', 0), fade=bool(vals.get('fade', 0)), rotate=vals.get('rotate', 0))
    m.write_data(None)
    d = list(h.writes[0][1])
    assert len(d) == 16 and d[12:16] == [0, 0, 0, 0], 'sequence not terminated by an all-zero entry'
    px = [d[4 * i + 1] * 256 + d[4 * i + 2] for i in range(3)]
    f = [(p >> 11, (p >> 5) & 0x3F, p & 0x1F) for p in px]
    for k in range(3):
        assert f[0][k] <= f[1][k] <= f[2][k], 'not monotone'
    assert f[0] == (_scale5(a), _scale6(a), _scale5(a))
    assert px[2] == 0xFFFF
    assert d[0] == 1 and d[4] == 1 and d[8] == 1
    assert d[11] == (vals.get('leds', 0) & 0x0F) | ((vals.get('fade', 0) & 1) << 4) | ((vals.get('rotate', 0) & 7) << 5)


def h_rgb565_levels(ctx):
    """LEDTimingsDriverMemory.write_data: the 8-bit -> 5/6-bit maps, unscaled: monotone (a <= b <= 255), 255 -> full scale,
    entry layout time, hi, lo, extra; terminating zero entry."""
    a, b = z3.BitVec('a', 8), z3.BitVec('b', 8)
    leds, fade, rot = z3.BitVec('leds', 4), z3.BitVec('fade', 1), z3.BitVec('rotate', 3)
    inputs = {'a': a, 'b': b, 'leds': leds, 'fade': fade, 'rotate': rot}
    dom = [z3.ULE(a, b)]

    def iv(x, n):
        return IntV(z3.ZeroExt(W - n, x), 0, (1 << n) - 1)

    def mk():
        h = _Mem()
        m = LEDTimingsDriverMemory(1, 0x17, 2000, h)
        m.add(time=1, rgb={'r': iv(a, 8), 'g': iv(a, 8), 'b': iv(a, 8)})
        m.add(time=1, rgb={'r': iv(b, 8), 'g': iv(b, 8), 'b': iv(b, 8)})
        m.add(time=1, rgb={'r': 255, 'g': 255, 'b': 255}, leds=iv(leds, 4), fade=iv(fade, 1), rotate=iv(rot, 3))
        return m
    it = Interp(LEDTimingsDriverMemory.write_data, self_obj=mk)
    paths = it.explore(lambda: [None], assumptions=dom)
    for pi, p in enumerate(paths):
        if p.kind != 'return':
            ctx.query(f'path {pi} raises {p.exc}', p.pc, inputs, _levels_concrete)
            continue
        d = p.writes[-1][1]
        if len(d) != 16:
            ctx.query(f'path {pi}: wrong length {len(d)}', p.pc, inputs, _levels_concrete)
            continue
        x = [z3.Extract(31, 0, v.t) for v in d]
        px = [x[4 * i + 1] * 256 + x[4 * i + 2] for i in range(3)]
        f = [(z3.LShR(q, 11), z3.LShR(q, 5) & 0x3F, q & 0x1F) for q in px]
        a32 = z3.ZeroExt(24, a)
        claims = [x[12] == 0, x[13] == 0, x[14] == 0, x[15] == 0, px[2] == 0xFFFF, x[0] == 1, x[4] == 1, x[8] == 1,
                  f[0][0] == (z3.LShR(a32 * 249 + 1014, 11) & 0x1F), f[0][1] == (z3.LShR(a32 * 253 + 505, 10) & 0x3F),
                  f[0][2] == f[0][0],
                  x[11] == (z3.ZeroExt(28, leds) | (z3.ZeroExt(31, fade) << 4) | (z3.ZeroExt(29, rot) << 5))]
        for k in range(3):
            claims += [z3.ULE(f[0][k], f[1][k]), z3.ULE(f[1][k], f[2][k])]
        ctx.query(f'path {pi}: timing entries', p.pc + [z3.Not(z3.And(*claims))], inputs, _levels_concrete)
        ctx.goal('encoded')
    ctx.sample({'paths': len(paths)})


def h_range_report(sym):
    """Localization._incoming, RANGE_STREAM_REPORT: n anchors, symbolic ids and float32 bit patterns."""
    n = sym.B['n']
    cf = MiniCF()
    loc = Localization(cf)
    got = []
    loc.receivedLocationPacket.add_callback(got.append)
    # anchor ids become dict keys in the decoder (hashing realises a symbolic value): ids are solver-chosen among
    # boundary values and made concrete by forking; the float32 payload stays fully symbolic
    pool = [0, 1, 7, 128, 255]
    ids = [pool[sym.choice(f'id{i}', len(pool))] for i in range(n)]
    for i in range(n):
        for j in range(i):
            sym.assume(ids[i] != ids[j])
    raw = [sym.bytes(f'f{i}_', 4) for i in range(n)]
    payload = [0]
    for i in range(n):
        payload += [ids[i]] + raw[i]
    pk = CRTPPacket(0x61)
    pk.data = struct.pack('<' + 'B' * len(payload), *payload)
    loc._incoming(pk)
    assert len(got) == 1 and got[0].type == 0
    dec = got[0].data
    assert len(dec) == n
    for i in range(n):
        ref = struct.unpack('<f', struct.pack('<BBBB', *raw[i]))[0]
        v = dec[ids[i]]
        assert (v != v and ref != ref) or v == ref, 'distance differs from the encoded float32'
    sym.goal('decoded')


def h_lh_stream(sym):
    """Localization._incoming, LH_ANGLE_STREAM: two packets in a row (two base stations alternate on the real stream).  Each
    delivered packet holds the base station id and base angles its own bytes encode, and keeps them after the next packet has
    been decoded (a consumer may queue packets)."""
    import copy
    cf = MiniCF()
    loc = Localization(cf)
    got = []
    loc.receivedLocationPacket.add_callback(got.append)
    snaps = []
    enc = []
    for k in range(2):
        bs = sym.int(f'bs{k}', 0, 255)
        # the value decoding itself is decided by lh_angle[k] for all bit patterns; here the base angles are solver-chosen
        # from a pool (concrete after the fork), what is symbolic is which packet carries what
        pool = [0.0, 1.5, -0.25, 3.0e-3]
        bx = list(struct.pack('<f', pool[sym.choice(f'bx{k}', len(pool))]))
        by = list(struct.pack('<f', pool[sym.choice(f'by{k}', len(pool))]))
        offs = [[0x3c00, 0xb800 - 65536, 0x0001], [0x7bff, 0x0400, 0x8000 - 65536]] if k == 0 else \
               [[0x3800, 0x0000, 0xbc00 - 65536], [0x0001, 0x3c00, 0x4000]]
        body = [bs] + bx + list(struct.pack('<hhh', *offs[0])) + by + list(struct.pack('<hhh', *offs[1]))
        pk = CRTPPacket(0x61)
        pk.data = struct.pack('<' + 'B' * 22, Localization.LH_ANGLE_STREAM, *body)
        loc._incoming(pk)
        assert len(got) == k + 1 and got[k].type == Localization.LH_ANGLE_STREAM
        fx = struct.unpack('<f', struct.pack('<BBBB', *bx))[0]
        fy = struct.unpack('<f', struct.pack('<BBBB', *by))[0]
        enc.append((bs, fx, fy, offs))
        snaps.append(copy.deepcopy(got[k].data))
    for k in range(2):
        d = got[k].data
        bs, fx, fy, offs = enc[k]
        assert d['basestation'] == bs, 'base station id of a delivered packet'
        for axis, base, o in (('x', fx, offs[0]), ('y', fy, offs[1])):
            assert len(d[axis]) == 4
            assert (d[axis][0] != d[axis][0] and base != base) or d[axis][0] == base, \
                f'packet {k}: {axis}[0] is not the base angle its own bytes encode'
            for j in range(3):
                e = base - _fp16_ref(o[j])
                v = d[axis][j + 1]
                assert (v != v and e != e) or v == e, f'packet {k}: {axis}[{j + 1}] differs from base - offset of ITS bytes'
    assert got[0].data is not got[1].data
    for axis in ('x', 'y'):
        assert got[0].data[axis] is not got[1].data[axis], 'two delivered packets share one angle list'
    sym.goal('two-packets')


def h_compressed_start(sym):
    """CompressedStart.pack: millimetres / tenths of a degree as int16 little endian in the order x,y,z,yaw; overflow raises."""
    which = sym.B['which']
    vals = [0.25, -1.5, 2.125, 0.5]
    x = sym.f64('x', finite=True, lo=-100.0, hi=100.0)
    vals[which] = x
    exp = [int(vals[0] * 1000), int(vals[1] * 1000), int(vals[2] * 1000), int(math.degrees(vals[3]) * 10)]
    try:
        ref = struct.pack('<hhhh', *exp)
    except struct.error:
        ref = None
    try:
        got = CompressedStart(*vals).pack()
    except struct.error:
        got = None
    if ref is None:
        assert got is None, 'overflow was packed instead of raising'
        sym.goal('overflow-raises')
    else:
        assert got is not None and list(got) == list(ref)
        sym.goal('packed')


def h_compressed_segment(sym):
    """CompressedSegment.pack: one symbolic coordinate/angle inside an element of 1, 3 or 7 control points: millimetres / tenths
    of a degree as int16 in place, type bits and duration intact; a value outside the int16 range raises (never wraps)."""
    axis, ln = sym.B['axis'], sym.B['len']
    x = sym.f64('x', finite=True, lo=-100.0, hi=100.0)
    elems = [[0.5], [0.25, -0.5, 1.0], [], [0.1]]
    base = [0.125 * (k + 1) for k in range(ln)]
    pos = sym.B.get('pos', ln - 1)
    base[pos] = x
    elems[axis] = base
    conv = (lambda v: int(v * 1000)) if axis < 3 else (lambda v: int(math.degrees(v) * 10))
    exp_parts = []
    for a, el in enumerate(elems):
        c = (lambda v: int(v * 1000)) if a < 3 else (lambda v: int(math.degrees(v) * 10))
        exp_parts += [c(v) for v in el]
    tcode = {0: 0, 1: 1, 3: 2, 7: 3}
    types = sum(tcode[len(el)] << (2 * a) for a, el in enumerate(elems))
    try:
        ref = struct.pack('<BH' + 'h' * len(exp_parts), types, 1500, *exp_parts)
    except struct.error:
        ref = None
    try:
        got = CompressedSegment(1.5, *elems).pack()
    except struct.error:
        got = None
    if ref is None:
        assert got is None, 'out-of-range value was packed (wrapped) instead of raising'
        sym.goal('overflow-raises')
    else:
        assert got is not None and list(got) == list(ref), 'segment bytes differ from the firmware layout'
        sym.goal('packed')


def _quat_cases():
    """Special quaternions: every tie pattern for the largest component, negated, unnormalised, tiny components."""
    import itertools
    out = []
    for k in (1, 2, 3, 4):
        for idx in itertools.combinations(range(4), k):
            for signs in itertools.product((1, -1), repeat=k):
                q = [0.0] * 4
                for i, sg in zip(idx, signs):
                    q[i] = float(sg)
                out.append(q)
    out += [[0.1, -0.2, 0.3, -0.9273618495495703], [-0.8, 0.2, -0.5, 0.26457513110645906], [2.0, 0.0, 0.0, -2.0], [1e-3, -1e-3, 0.3, 0.2],
            [0.70710678, 0.70710678, 1e-9, 0.0], [0.5, 0.5, 0.5, -0.5000001], [3.0, 4.0, 0.0, 0.0], [-1e-6, 0.0, 0.0, 1.0]]
    return out


def h_quat_roundtrip(sym):
    """The composite claim of the statement on a solver-chosen member of a fixed list of special quaternions (all tie patterns
    for the largest component, negated, unnormalised): compress fits 32 bits and decompress(compress(q)) is the same rotation with
    every component within two quantisation steps.  The list is concrete because both functions are numpy code (the bit-precise
    all-input claims are the Engine B harnesses); labelled symbolic=False."""
    cases = _quat_cases()
    q = cases[sym.choice('case', len(cases))]
    n = math.sqrt(sum(x * x for x in q))
    qn = [x / n for x in q]
    c = int(enc.compress_quaternion(list(q)))
    assert 0 <= c < 2 ** 32, 'compressed quaternion does not fit 32 bits'
    d = [float(x) for x in enc.decompress_quaternion(c)]
    step = 2.0 / 511 / math.sqrt(2)
    same = all(abs(d[i] - qn[i]) <= step for i in range(4))
    neg = all(abs(d[i] + qn[i]) <= step for i in range(4))
    assert same or neg, f'decompress(compress({q})) = {d} is not the same rotation within two quantisation steps of {qn}'
    sym.goal('roundtrip')


HARNESSES = [
    Harness('quaternion_roundtrip[special cases]', h_quat_roundtrip, goals=('roundtrip',), symbolic=False, timeout=(300, 600),
            note='composite round trip on a fixed list of special quaternions chosen by the solver (numpy code runs concretely)'),
    SmtHarness('fp16', h_fp16, _fp16_replay, goals=('float-path',), timeout=(300, 600)),
    SmtHarness('fp16-signed', h_fp16, _fp16_replay, quick=dict(signed=True), goals=('float-path',), timeout=(300, 600)),
] + [SmtHarness(f'lh_angle[{k}]', h_lh_angle, _lh_replay, quick=dict(offset=k), goals=('angles-decoded',), timeout=(600, 1200),
                tiers=('quick', 'thorough') if k in (0, 4) else ('thorough',)) for k in range(6)] + [
    SmtHarness('decompress_quaternion', h_decompress, lambda v, B: _decomp_check(v), goals=('decoded',), timeout=(900, 3600)),
    SmtHarness('compress_quaternion', h_compress, lambda v, B: _comp_check(v),
               quick=dict(query_timeout=900, feas_timeout=120, max_hard_queries=1), goals=('compressed',), timeout=(1200, 1200),
               tiers=('quick',),
               note='normalised-input precondition; layout/index/sign claims on all 8 paths; the non-linear magnitude bound (z3: ~4 min '
                    'per query) on one (path, component) pair in this tier, the other 23 in the thorough tier: reported as not exhausted'),
] + [SmtHarness(f'compress_quaternion[path{k}]', h_compress, lambda v, B: _comp_check(v),
                quick=dict(query_timeout=1800, feas_timeout=300, max_hard_queries=3, shard=k), goals=('compressed',), timeout=(3600, 3600),
                tiers=('thorough',), note='normalised-input precondition; all claims incl. the three magnitude bounds of one control path')
     for k in range(8)] + [
    SmtHarness('encode_spatial', h_encoders, lambda v, B: _enc_check(v, B), quick=dict(which='spatial'), goals=('encoded',)),
    SmtHarness('encode_yaw', h_encoders, lambda v, B: _enc_check(v, B), quick=dict(which='yaw'), goals=('encoded',)),
] + [SmtHarness(f'rgb565[{c}]', h_rgb565, lambda v, B: _rgb_concrete(v, B), quick=dict(channel=i), goals=('encoded',),
                timeout=(600, 1800)) for i, c in enumerate('rgb')] + [
    SmtHarness('rgb565-levels', h_rgb565_levels, lambda v, B: _levels_concrete(v, B), goals=('encoded',), timeout=(300, 900)),
    Harness('lh_stream[two packets]', h_lh_stream, goals=('two-packets',), timeout=(300, 900), smt_timeout=1.5,
            note='two angle-stream packets in a row through Localization._incoming: base station id symbolic, base angles solver-chosen '
                 'from a pool, sensor offsets concrete; the first delivered packet is unchanged by decoding the second'),
    Harness('range_report', h_range_report, quick=dict(n=2), thorough=dict(n=4), goals=('decoded',), timeout=(300, 1800), smt_timeout=1.5),
] + [Harness(f'compressed_segment[{n}]', h_compressed_segment, quick=dict(axis=a, len=l), goals=('packed', 'overflow-raises'),
             timeout=(400, 900), smt_timeout=1.5, per_path=300.0) for n, a, l in (('x,1', 0, 1), ('z,7', 2, 7), ('yaw,3', 3, 3))
] + [Harness(f'compressed_start[{i}]', h_compressed_start, quick=dict(which=i), goals=('packed', 'overflow-raises'),
             timeout=(400, 900), smt_timeout=1.5, per_path=300.0) for i in range(4)]
