"""Obligation portfolio: z3 (in-process) first, then cvc5 (python wheel). 'unknown'/(error is inconclusive."""
import time

import z3


def _cvc5(smt2, timeout_s):
    try:
        import cvc5
    except ImportError:
        return 'unknown'
    try:
        slv = cvc5.Solver()
        slv.setOption('tlimit-per', str(int(timeout_s * 1000)))
        slv.setOption('produce-models', 'false')
        ip = cvc5.InputParser(slv)
        ip.setStringInput(cvc5.InputLanguage.SMT_LIB_2_6, smt2, 'q')
        sm = ip.getSymbolManager()
        out = []
        while True:
            cmd = ip.nextCommand()
            if cmd.isNull():
                break
            r = cmd.invoke(slv, sm)
            if r.strip():
                out.append(r.strip())
        txt = '\n'.join(out)
        if '(error' in txt:
            return 'unknown'
        for tok in ('unsat', 'sat'):
            if tok in txt.split():
                return tok
        return 'unknown'
    except Exception:
        return 'unknown'


def check_unsat(assertions, timeout_s=60, use_cvc5=True):
    """-> ('unsat'|'sat'|'unknown', backend)"""
    s = z3.Solver()
    s.set('timeout', int(timeout_s * 1000))
    s.add(*assertions)
    r = str(s.check())
    if r in ('sat', 'unsat'):
        return r, 'z3-' + z3.get_version_string()
    if use_cvc5:
        smt2 = s.to_smt2()
        r = _cvc5(smt2, timeout_s)
        if r in ('sat', 'unsat'):
            return r, 'cvc5-wheel'
    return 'unknown', 'none'
