"""Obligation portfolio: z3 (fresh solver, default tactics) first, then cvc5 (python wheel).
'unknown' / '(error' is inconclusive.

Cone-of-influence slicing: a query is `path_condition AND extra`; the path condition is known satisfiable
(CrossHair only extends feasible paths), so assertions that share no free variable (transitively) with `extra`
can be dropped without changing the answer.  This keeps floating-point questions in the pure QF_FP fragment,
where z3 bit-blasts instead of using the much slower general SMT core."""
import z3


def _vars(e, cache):
    k = e.get_id()
    if k in cache:
        return cache[k]
    out = set()
    stack = [e]
    seen = set()
    while stack:
        t = stack.pop()
        i = t.get_id()
        if i in seen:
            continue
        seen.add(i)
        if z3.is_const(t) and t.decl().kind() == z3.Z3_OP_UNINTERPRETED:
            out.add(t.decl().name())
        elif z3.is_app(t):
            stack.extend(t.children())
        elif z3.is_quantifier(t):
            stack.append(t.body())
    cache[k] = out
    return out


def slice_cone(assertions, extra):
    cache = {}
    need = set()
    for e in extra:
        need |= _vars(e, cache)
    if not need:
        return list(assertions)
    rest = [(a, _vars(a, cache)) for a in assertions]
    keep = []
    changed = True
    while changed:
        changed = False
        nxt = []
        for a, vs in rest:
            if vs & need:
                keep.append(a)
                need |= vs
                changed = True
            else:
                nxt.append((a, vs))
        rest = nxt
    return keep


def _atoms(e, exclude, cache):
    """Relevance atoms of a term: applications of uninterpreted functions (as text) and uninterpreted constants other than
    the excluded ones (the harness inputs, which nearly every assertion mentions)."""
    k = e.get_id()
    if k in cache:
        return cache[k]
    out = set()
    stack = [e]
    seen = set()
    while stack:
        t = stack.pop()
        i = t.get_id()
        if i in seen:
            continue
        seen.add(i)
        if z3.is_app(t) and t.decl().kind() == z3.Z3_OP_UNINTERPRETED:
            if t.num_args() == 0:
                if t.decl().name() not in exclude:
                    out.add(t.decl().name())
            else:
                out.add(t.sexpr())
                stack.extend(t.children())
        elif z3.is_app(t):
            stack.extend(t.children())
    cache[k] = out
    return out


def relevance_subsets(assertions, goal, exclude, hops=(1, 2)):
    """Growing subsets of `assertions` by relevance to `goal` (sharing an atom, transitively `hops` times).  Assertions that
    only mention excluded constants (input ranges) are always kept.  Proving unsat from a SUBSET of the assumptions is sound;
    a `sat` answer from a subset means nothing and the caller moves on to the next, finally to the full set."""
    cache = {}
    info = [(a, _atoms(a, exclude, cache)) for a in assertions]
    base = [a for a, at in info if not at]
    out = []
    atoms = set()
    for g in goal:
        atoms |= _atoms(g, exclude, cache)
    picked = set()
    for hop in range(1, max(hops) + 1):
        new = [(i, at) for i, (a, at) in enumerate(info) if i not in picked and at and (at & atoms)]
        for i, at in new:
            picked.add(i)
        for i, at in new:
            atoms |= at
        if hop in hops:
            out.append(base + [info[i][0] for i in sorted(picked)])
    return out


def _cvc5(smt2, timeout_s):
    try:
        import cvc5
    except ImportError:
        return 'unknown'
    try:
        slv = cvc5.Solver()
        slv.setOption('tlimit-per', str(int(timeout_s * 1000)))
        ip = cvc5.InputParser(slv)
        ip.setStringInput(cvc5.InputLanguage.SMT_LIB_2_6, '(set-logic ALL)\n' + smt2, 'q')
        sm = ip.getSymbolManager()
        out = []
        while True:
            cmd = ip.nextCommand()
            if cmd.isNull():
                break
            r = cmd.invoke(slv, sm)
            if r.strip():
                out.append(r.strip())
        txt = '\n'.join(out)
        if '(error' in txt:
            return 'unknown'
        for tok in ('unsat', 'sat'):
            if tok in txt.split():
                return tok
        return 'unknown'
    except Exception:
        return 'unknown'


def check_unsat(assertions, timeout_s=60, use_cvc5=True, extra=(), order='z3', z3_timeout_s=None):
    """Satisfiability of assertions + extra -> ('unsat'|'sat'|'unknown', backend).
    With `extra` given, `assertions` must be known satisfiable (it is sliced to the cone of influence of `extra`).
    order='cvc5': ask cvc5 first (non-linear real arithmetic), z3 second."""
    if extra:
        assertions = slice_cone(assertions, extra)
    s = z3.Solver()
    s.set('timeout', int((z3_timeout_s or timeout_s) * 1000))
    s.add(*assertions)
    s.add(*extra)

    def ask_z3():
        r = str(s.check())
        return (r, 'z3-' + z3.get_version_string()) if r in ('sat', 'unsat') else None

    def ask_cvc5():
        if not use_cvc5:
            return None
        r = _cvc5(s.to_smt2(), timeout_s)
        return (r, 'cvc5-wheel-1.4') if r in ('sat', 'unsat') else None
    for ask in ((ask_cvc5, ask_z3) if order == 'cvc5' else (ask_z3, ask_cvc5)):
        r = ask()
        if r:
            return r
    return 'unknown', 'none'
