"""Property check runner.
  python -m vf.run <PID> <quick|thorough> [--only <harness-substring>] [--jobs N]
  python -m vf.run <PID> --replay <file>
Exit codes: 0 held / only known findings; 1 VIOLATION (reproduced, unlisted); 3 harness error / inconclusive."""
import argparse
import concurrent.futures as cf
import json
import os
import subprocess
import sys
import time

ROOT = os.path.dirname(os.path.dirname(os.path.abspath(__file__)))
PY = sys.executable
SELF = ['h_bits', 'h_struct', 'h_crc', 'h_math']


def run_job(pid, hname, tier, wall_limit):
    t0 = time.time()
    env = dict(os.environ)
    env['PYTHONPATH'] = ROOT + os.pathsep + os.environ.get('VERIF_REPO', '/repo')
    env.setdefault('PYTHONHASHSEED', '0')
    for attempt in (1, 2):
        try:
            p = subprocess.run([PY, '-m', 'vf.worker', pid, hname, tier], cwd=ROOT, env=env, capture_output=True,
                               text=True, timeout=wall_limit)
        except subprocess.TimeoutExpired:
            return {'harness': hname, 'verdict': 'INCONCLUSIVE', 'error': f'worker exceeded wall limit {wall_limit}s',
                    'paths': 0, 'total_wall_s': round(time.time() - t0, 1)}
        lines = [ln for ln in p.stdout.strip().splitlines() if ln.startswith('{')]
        if p.returncode == 0 and lines:
            if attempt == 1 and pid != '_selfcheck':
                r = json.loads(lines[-1])
                undecided = [m for m in r.get('inconclusive', []) if 'undecided by all back ends' in m or 'UnknownSatisfiability' in m]
                if r.get('verdict') == 'INCONCLUSIVE' and undecided and not r.get('failures') and not r.get('nonrepro'):
                    # a solver gave up within its time limit (loaded host): once more with three times the solver timeouts.
                    # Only an undecided obligation is retried; a refutation or a non-reproducing counterexample is final.
                    env['VERIF_PROVE_SCALE'] = '3'
                    wall_limit = wall_limit * 2
                    continue
            break
        # a worker that died without a verdict (infrastructure failure, not a verdict) is started once more; a second
        # failure is reported as a harness error
    if p.returncode != 0 or not lines:
        return {'harness': hname, 'verdict': 'INCONCLUSIVE', 'paths': 0,
                'error': f'worker exit {p.returncode}: ' + (p.stderr or p.stdout)[-1500:],
                'total_wall_s': round(time.time() - t0, 1)}
    return json.loads(lines[-1])


def replay(pid, path):
    sys.path.insert(0, os.environ.get('VERIF_REPO', '/repo'))
    import logging
    logging.disable(logging.CRITICAL)
    from vf.env.base import patch_threads
    patch_threads()
    from vf.harness import load
    from vf.explore import run_concrete, unjson
    doc = json.load(open(path))
    mod = load(doc['property'])
    h = next(x for x in mod.HARNESSES if x.name == doc['harness'])
    if getattr(h, 'kind', '') == 'smt':
        try:
            h.replay(unjson(doc['inputs']), h.bounds[doc.get('tier', 'quick')])
            outcome, info = 'pass', {}
        except AssertionError as e:
            outcome, info = 'fail', {'type': 'AssertionError', 'msg': str(e)[:300]}
    else:
        outcome, info = run_concrete(h.body(doc.get('tier', 'quick')), unjson(doc['inputs']))
    print(f'replay {doc["property"]}/{doc["harness"]}: {outcome} {json.dumps(info)}')
    if outcome == 'fail':
        print(f'VIOLATION property={doc["property"]} replay={path}')
        return 1
    return 0 if outcome == 'pass' else 3


def main():
    ap = argparse.ArgumentParser()
    ap.add_argument('pid')
    ap.add_argument('tier', nargs='?', default=os.environ.get('VERIF_TIER', 'quick'))
    ap.add_argument('--replay')
    ap.add_argument('--only')
    ap.add_argument('--jobs', type=int, default=int(os.environ.get('VERIF_JOBS', '0')) or (os.cpu_count() or 4))
    ap.add_argument('--no-selfcheck', action='store_true')
    a = ap.parse_args()
    pid = a.pid.upper()
    if a.replay:
        return replay(pid, a.replay)
    tier = a.tier
    t0 = time.time()
    from vf.harness import load, src_hash
    mod = load(pid)
    hs = [h for h in mod.HARNESSES if tier in h.tiers and (not a.only or a.only in h.name)]
    jobs = [(pid, h.name, tier, h.timeout[tier] * 2 + 300) for h in hs]
    if not a.no_selfcheck and not a.only:
        jobs += [('_selfcheck', n, tier, 1200) for n in getattr(mod, 'SELFCHECK', SELF)]
    results = []
    with cf.ThreadPoolExecutor(max_workers=a.jobs) as ex:
        futs = {ex.submit(run_job, *j): j for j in jobs}
        for f in cf.as_completed(futs):
            r = f.result()
            results.append(r)
            print(f"  [{r.get('verdict')}] {r['harness']} paths={r.get('paths')} cpu={r.get('cpu_s')}s "
                  f"wall={r.get('total_wall_s')}s" + (f" ERROR {r['error'][-400:]}" if r.get('error') else ''), flush=True)
    results.sort(key=lambda r: r['harness'])
    strict = os.environ.get('VERIF_STRICT') == '1'
    violations, harness_errors, partial, known_lines = [], [], [], []
    for r in results:
        name = r['harness']
        if name.startswith('_selfcheck'):
            if r['verdict'] != 'HOLDS':
                harness_errors.append(f'{name}: plugin validation {r["verdict"]} {r.get("detail")}')
            continue
        if r['verdict'] == 'REFUTED':
            for f, rp in zip(r['failures'], r.get('replays', [])):
                violations.append((name, rp, f))
        elif r['verdict'] == 'INCONCLUSIVE':
            if r.get('error') or r.get('nonrepro'):
                harness_errors.append(f'{name}: {r.get("error") or "non-reproducing counterexample " + json.dumps(r["nonrepro"][0])[:600]}')
            else:
                partial.append(f'{name}: {r.get("unknown")} unknown/timeout paths {r.get("inconclusive", [])[:2]}')
        elif r['verdict'] == 'PARTIAL':
            partial.append(f'{name}: budget ended after {r["paths"]} paths')
        for tw, st in (r.get('twins') or {}).items():
            if st != 'witnessed':
                if r['verdict'] in ('HOLDS',):
                    harness_errors.append(f'{name}: reachability twin/goal {tw!r} not witnessed (vacuous?)')
                else:
                    partial.append(f'{name}: goal {tw!r} not witnessed within budget')
        for k in r.get('known', []):
            if k['witnessed']:
                known_lines.append(f'KNOWN-FINDING: property={pid} {k["what"]} [harness {name}; witness {json.dumps(k["witness"])[:300]}]')
            else:
                print(f'NOTE: listed finding no longer reproduces ({k["verdict"]}): {k["what"]} [harness {name}]')
    # ---- evidence
    props = [r for r in results if not r['harness'].startswith('_selfcheck')]
    samples = []
    for r in props:
        for g, v in (r.get('goals') or {}).items():
            samples.append({'harness': r['harness'], 'goal': g, 'inputs': v})
        for s in (r.get('samples') or [])[:2]:
            samples.append({'harness': r['harness'], 'inputs': s})
        for f in r.get('failures', []):
            samples.append({'harness': r['harness'], 'counterexample': f['readable'], 'failure': f['concrete_failure']})
    exhaustive = bool(props) and all(r['verdict'] == 'HOLDS' for r in props)
    ev = {
        'property_id': pid, 'tier': tier, 'seed': int(os.environ.get('VERIF_SEED', '0') or 0), 'level': 'other',
        'coverage': {
            'explanation': 'bounded symbolic execution of the real cflib functions (CrossHair 0.0.110 as a library with our '
                           'explorer and plugins; py2smt for numeric kernels) with z3/cvc5 deciding every path and obligation; '
                           'verdict HOLDS only when the decision tree of a harness was exhausted. ' + getattr(mod, 'EXPLANATION', ''),
            'functions_encoded': src_hash(getattr(mod, 'FUNCTIONS', [])),
            'bounds': {r['harness']: r.get('bounds') for r in props},
            'outside_claim': getattr(mod, 'OUTSIDE', []),
            'stubs': getattr(mod, 'STUBS', []),
            'harnesses': [{k: r.get(k) for k in ('harness', 'verdict', 'paths', 'passed', 'ignored', 'unknown', 'nontrivial',
                                                 'exhausted', 'obligations', 'discharged', 'cpu_s', 'wall_s', 'portfolio_s',
                                                 'backends', 'max_decisions', 'symbolic', 'note', 'twins', 'known', 'error',
                                                 'inconclusive')} for r in results],
            'evaluations': sum(r.get('paths', 0) + r.get('obligations', 0) for r in props),
            'distinct_nontrivial': sum(r.get('nontrivial', 0) for r in props),
            'rule': 'one evaluation = one feasible path of a harness through the real code (covering every input that follows '
                    'it) or one portfolio query; distinct_nontrivial counts completed paths whose path condition contains at '
                    'least one solver decision on a symbolic input (paths of one decision tree are pairwise disjoint)',
            'obligations': sum(r.get('obligations', 0) for r in props),
            'discharged': sum(r.get('discharged', 0) for r in props),
            'solver_cpu_s': round(sum(r.get('cpu_s', 0) or 0 for r in props), 1),
            'samples': samples[:40] or [{'note': 'no sample collected'}],
            'exhaustive': exhaustive,
            'not_exhausted': partial,
        },
        'assumptions': getattr(mod, 'ASSUMPTIONS', []),
        'wall_s': round(time.time() - t0, 1),
        'violations': len(violations),
    }
    os.makedirs(os.path.join(ROOT, 'evidence'), exist_ok=True)
    evname = pid + ('.partial' if (a.only or os.environ.get('VERIF_REPO')) else '') + '.json'
    with open(os.path.join(ROOT, 'evidence', evname), 'w') as fh:
        json.dump(ev, fh, indent=1, default=str)
    for ln in known_lines:
        print(ln)
    for p in partial:
        print('PARTIAL:', p)
    for e in harness_errors:
        print('HARNESS-ERROR:', e)
    for name, rp, f in violations:
        print(f'counterexample {name}: {json.dumps(f["readable"])[:800]} -> {json.dumps(f["concrete_failure"])[:600]}')
        print(f'VIOLATION property={pid} replay={rp}')
    print(f'{pid} {tier}: {len(props)} harnesses, {ev["coverage"]["evaluations"]} paths/queries, '
          f'exhaustive={exhaustive}, violations={len(violations)}, wall={ev["wall_s"]}s')
    if violations:
        return 1
    if harness_errors or (strict and partial):
        return 3
    return 0


if __name__ == '__main__':
    sys.exit(main())
