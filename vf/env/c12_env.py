"""Bootloader-target models and link stubs for C12 (reference side; written from the bootloader protocol, not from cflib).

Protocol as documented by Bitcraze (bootloader on CRTP port 15 / channel 3, header byte 0xFF):
  load buffer   [target, 0x14, page:u16, address:u16, data...]          no reply; copies data into RAM buffer page `page`
                                                                       at byte offset `address`
  write flash   [target, 0x18, bufferPage:u16, flashPage:u16, nPages:u16]
                reply [target, 0x18, done:u8, error:u8]; copies nPages pages starting at RAM buffer page bufferPage to
                flash pages flashPage, flashPage+1, ...; done == 1 on success
The RAM buffer keeps its content between commands (a page that is only partly reloaded keeps the old tail).

Both models record *flash page writes* and check every one of them against the image at the moment it is executed:
a flash page that is written must lie in the range the image occupies and inside the flash, and the part of it that
is covered by the image must carry exactly the image bytes.  The tail of the last page (beyond the image length, same
page) is not constrained.  Because every executed write is checked individually, repeated execution of a command
(retransmission after a lost reply) needs no special treatment.
"""
from vf.explore import Inconclusive


def conc(v, lo, hi, what):
    """Concrete value of the (possibly symbolic) int v, found by forking over lo..hi; only feasible values become
    paths.  A value outside lo..hi fails the harness."""
    for c in range(lo, hi + 1):
        if v == c:
            return c
    raise AssertionError(what + ' outside %d..%d' % (lo, hi))


class Image:
    """Flash image whose length is a solver variable.  Slices are descriptors (lo, hi) of the image interval they
    denote (Python clamping rules); the page model compares intervals, not bytes."""
    def __init__(self, length):
        self.length = length

    def __len__(self):
        return self.length

    def __getitem__(self, k):
        if not isinstance(k, slice) or k.step is not None:
            raise Inconclusive('image accessed other than by a plain slice')
        lo = 0 if k.start is None else k.start
        hi = self.length if k.stop is None else k.stop
        if lo < 0 or hi < 0:
            raise Inconclusive('negative slice index')
        if hi > self.length:
            hi = self.length
        if lo > hi:
            lo = hi
        return ImageSlice(lo, hi)


class ImageSlice:
    def __init__(self, lo, hi):
        self.lo, self.hi = lo, hi

    def __len__(self):
        return self.hi - self.lo


class Geometry:
    """What the oracle knows: geometry reported by the target, where the image has to go and how long it is."""
    def __init__(self, addr, page_size, buffer_pages, flash_pages, first_page, length, max_pages):
        self.addr, self.P, self.B, self.flash_pages, self.first, self.L = (addr, page_size, buffer_pages, flash_pages,
                                                                          first_page, length)
        self.max_pages = max_pages       # harness bound on the number of pages of the image (for concretisation only)

    def fits(self):
        return bool(self.first >= 0 and self.L <= (self.flash_pages - self.first) * self.P)


class PageModel:
    """Target with abstract content: a RAM buffer page is described by the image interval [lo, hi) it holds from
    offset 0 on (everything behind it is unknown/stale)."""
    def __init__(self, geo, max_buffers):
        self.g = geo
        self.max_buffers = max_buffers
        self.buf = {}            # concrete buffer page -> (lo, hi)
        self.loads = 0
        self.write_cmds = 0
        self.flashed = {}        # concrete page index relative to the first page -> times written

    def load(self, target, page, address, sl):
        g = self.g
        assert target == g.addr, 'buffer load addressed to the wrong target'
        if not isinstance(sl, ImageSlice):
            raise Inconclusive('upload of something that is not an image slice')
        self.loads += 1
        b = conc(page, 0, self.max_buffers, 'buffer page')
        assert b < g.B, 'load into a buffer page the target does not have'
        assert address >= 0 and address + (sl.hi - sl.lo) <= g.P, 'load runs over the end of its buffer page'
        if address == 0:
            self.buf[b] = (sl.lo, sl.hi)
        else:
            cur = self.buf.get(b)
            if cur is not None and address == cur[1] - cur[0] and sl.lo == cur[1]:
                self.buf[b] = (cur[0], sl.hi)
            else:
                raise Inconclusive('buffer loaded in an order the abstract page model cannot represent')

    def write(self, target, buffer_page, flash_page, n_pages):
        """Execute a write-flash command (the device does what it is told; the oracle judges it)."""
        g = self.g
        assert target == g.addr, 'flash write addressed to the wrong target'
        self.write_cmds += 1
        n = conc(n_pages, 0, self.max_buffers + 1, 'page count')
        b0 = conc(buffer_page, 0, self.max_buffers, 'first buffer page')
        assert n >= 1, 'flash write of zero pages'
        assert b0 + n <= g.B, 'flash write reads beyond the buffer pages of the target'
        for k in range(n):
            pg = flash_page + k
            assert 0 <= pg < g.flash_pages, 'write beyond the flash size'
            j = conc(pg - g.first, 0, g.max_pages - 1, 'flash page written, relative to the first page of the image,')
            assert j * g.P < g.L, 'flash page outside the range the image occupies is written'
            cur = self.buf.get(b0 + k)
            assert cur is not None, 'flash page written from a buffer page that was never loaded'
            lo, hi = cur
            need_hi = (j + 1) * g.P
            if need_hi > g.L:
                need_hi = g.L
            assert lo == j * g.P and hi >= need_hi, 'flash page receives bytes that are not the image bytes of that page'
            self.flashed[j] = self.flashed.get(j, 0) + 1

    def assert_complete(self):
        g = self.g
        n = len(self.flashed)
        assert n >= 1, 'nothing was flashed'
        assert sorted(self.flashed) == list(range(n)), 'a page of the image was not flashed'
        assert (n - 1) * g.P < g.L <= n * g.P, 'the end of the image was not flashed'


class ByteModel:
    """Target with real bytes: RAM buffer of B pages of P bytes (None = never loaded), fed with decoded packets."""
    def __init__(self, geo, image):
        self.g = geo
        self.image = image                     # list of ints (some symbolic), len == geo.L (concrete)
        self.buf = [None] * (geo.P * geo.B)
        self.loads = 0
        self.write_cmds = 0
        self.flashed = {}

    def load(self, target, page, address, data):
        g = self.g
        assert target == g.addr, 'buffer load addressed to the wrong target'
        self.loads += 1
        b = conc(page, 0, g.B, 'buffer page')
        assert b < g.B, 'load into a buffer page the target does not have'
        a = conc(address, 0, g.P, 'buffer address')
        assert a + len(data) <= g.P, 'load runs over the end of its buffer page'
        for k in range(len(data)):
            self.buf[b * g.P + a + k] = data[k]

    def write(self, target, buffer_page, flash_page, n_pages):
        g = self.g
        assert target == g.addr, 'flash write addressed to the wrong target'
        self.write_cmds += 1
        n = conc(n_pages, 0, g.B + 1, 'page count')
        b0 = conc(buffer_page, 0, g.B, 'first buffer page')
        assert n >= 1, 'flash write of zero pages'
        assert b0 + n <= g.B, 'flash write reads beyond the buffer pages of the target'
        for k in range(n):
            pg = flash_page + k
            assert 0 <= pg < g.flash_pages, 'write beyond the flash size'
            j = conc(pg - g.first, 0, g.max_pages - 1, 'flash page written, relative to the first page of the image,')
            assert j * g.P < g.L, 'flash page outside the range the image occupies is written'
            page = self.buf[(b0 + k) * g.P:(b0 + k + 1) * g.P]
            want = self.image[j * g.P:(j + 1) * g.P]
            got = page[:len(want)]
            for x in got:
                assert x is not None, 'flash page written from buffer bytes that were never loaded'
            assert got == want, 'flash page receives bytes that are not the image bytes of that page'
            self.flashed[j] = self.flashed.get(j, 0) + 1

    def assert_complete(self):
        g = self.g
        n = len(self.flashed)
        assert sorted(self.flashed) == list(range(n)), 'a page of the image was not flashed'
        assert (n - 1) * g.P < g.L <= n * g.P, 'the end of the image was not flashed'
