"""Environment for C11 (TOC cache).

* `fmt` model: stock CrossHair realises the right operand of `str % x` (value enumeration).  `install_fmt()` replaces the
  `str.__mod__` patch of this process by a model of the conversions toccache.py uses (`%s`, `%08X`) and their near
  variants (`%[0][width]X|x`): a non-negative symbolic int is rendered nibble by nibble into symbolic code points
  (48+n, or 55+n for n >= 10); zero-padded conversions whose operand fits the width need no case split, the others split
  on the number of significant digits.  Every other format / operand falls back to the stock behaviour.  The model is validated against CPython inside the check
  (harness `fmt-model`), and the harnesses never trust it: they assert the *meaning* of the produced name
  (8 upper-case hex digits whose value is the CRC), which is evaluated by plain CPython on replay.
* `FakeFS`: in-memory file system (list of [path, content]; paths may be symbolic strings, so no dictionary) with the
  `open` / `os.path.exists` / `os.makedirs` / `glob` surface toccache.py uses, recording every mutation.
* `ObjJson`: lossless in-memory stand-in for `json.dumps` / `json.load` that keeps leaf values (symbolic ints / bools /
  strings) by reference and reproduces the calling convention the cache relies on (`default=` for unknown objects on
  the way out; `object_hook` for every JSON object, innermost first, on the way in).
"""
import contextlib
import re

_FMT = re.compile(r'%(?:(s)|(0?)(\d*)([Xx])|(%))')
_STRIDE = 6            # re.split: literal + 5 groups


# ------------------------------------------------------------------------------------------------ symbolic strings
def mkstr(sym, codepoints):
    """A string from code points (symbolic ints in symbolic mode, ints on replay)."""
    if not sym.symbolic:
        return ''.join(chr(c) for c in codepoints)
    from crosshair.libimpl.builtinslib import LazyIntSymbolicStr
    from crosshair.tracers import NoTracing
    with NoTracing():
        return LazyIntSymbolicStr(list(codepoints))


# ------------------------------------------------------------------------------------------------ '%08X' model
_fmt_state = {'installed': False, 'used': 0}


def install_fmt():
    """Replace this process's CrossHair patch for str.__mod__ (idempotent; only effective under CrossHair tracing)."""
    if _fmt_state['installed']:
        return
    _fmt_state['installed'] = True
    import z3
    from crosshair.core import _PATCH_REGISTRATIONS
    from crosshair.libimpl.builtinslib import SymbolicInt, LazyIntSymbolicStr, AnySymbolicStr
    from crosshair.tracers import NoTracing, ResumedTracing
    from crosshair.statespace import context_statespace
    from crosshair.core import deep_realize

    def hex_codepoints(x, ndigits, lower):
        """ndigits code points of the base-16 rendering of x for 0 <= x < 16**ndigits (most significant first).
        Fresh digit variables d_i in 0..15 with x == sum d_i * 16**i (the base-16 expansion is unique, so this is a
        definition, not a restriction); keeps the path condition in linear integer arithmetic (no div/mod)."""
        space = context_statespace()
        if _fmt_state.get('space') is not space:        # one table of digit variables per explored path
            _fmt_state['space'], _fmt_state['digits'] = space, {}
        key = (x.var.get_id(), ndigits)                 # the same term rendered again: the same digits
        digits = _fmt_state['digits'].get(key)
        if digits is None:
            digits = [z3.Int('hexdigit%d_%s' % (i, space.uniq())) for i in range(ndigits)]
            for d in digits:
                space.add(z3.And(d >= 0, d <= 15))
            space.add(x.var == z3.Sum([d * z3.IntVal(16 ** i) for i, d in enumerate(digits)]))
            _fmt_state['digits'][key] = (digits, x.var)   # keep the term alive: ids are only unique among live terms
        else:
            digits = digits[0]
        letter = 87 if lower else 55
        return [SymbolicInt(z3.If(d >= 10, d + letter, d + 48)) for d in reversed(digits)]

    def render(self, args, pieces):
        """Code points of the formatted string, or None when a conversion / operand is outside the model."""
        cps = []
        ai = 0
        for m_i in range(0, len(pieces), _STRIDE):
            cps.extend(ord(c) for c in pieces[m_i])
            if m_i + 1 >= len(pieces):
                break
            is_s, zero, width, case, pct = pieces[m_i + 1:m_i + _STRIDE]
            if pct:
                cps.append(37)
                continue
            a = args[ai]
            ai += 1
            if is_s:
                if not isinstance(a, str):          # symbolic or concrete string: its code points
                    return None
                cps.extend(ord(c) for c in a)
                continue
            w = int(width) if width else 0
            lower = case == 'x'
            with NoTracing():
                symbolic_int = isinstance(a, SymbolicInt)
            if not symbolic_int:
                if type(a) is not int or a < 0:
                    return None
                txt = ('%x' if lower else '%X') % a
                cps.extend(ord(c) for c in ('0' if zero else ' ') * (w - len(txt)) + txt)
            elif zero and w and 0 <= a < 16 ** w:     # zero padded and fits: always w digits, no case split
                with NoTracing():
                    cps.extend(hex_codepoints(a, w, lower))
                    _fmt_state['used'] += 1
            elif a >= 0:
                nd = 0                                # number of significant digits: a case split (1..16)
                for n in range(1, 17):
                    if a < 16 ** n:
                        nd = n
                        break
                if nd == 0:
                    return None
                cps.extend([48 if zero else 32] * (w - nd))
                with NoTracing():
                    cps.extend(hex_codepoints(a, nd, lower))
                    _fmt_state['used'] += 1
            else:
                return None
        return cps

    def model(self, other):
        cps = None
        with NoTracing():
            if type(self) is str:
                args = other if type(other) is tuple else (other,)
                if any(isinstance(a, (SymbolicInt, AnySymbolicStr)) for a in args):
                    pieces = _FMT.split(self)           # literal, s, zero, width, case, pct, literal, ...
                    nconv = sum(1 for m in _FMT.finditer(self) if not m.group(5))
                    if '%' not in ''.join(pieces[0::_STRIDE]) and nconv == len(args):
                        with ResumedTracing():
                            cps = render(self, args, pieces)
            if cps is not None:
                return LazyIntSymbolicStr(cps)
        # stock behaviour (CrossHair's _str_percent_format): realise the operands.  Must be called from this very code
        # object: the tracer resolves str.__mod__ to the unpatched function only for calls made by the patch itself.
        if not isinstance(self, str):
            raise TypeError
        return self.__mod__(deep_realize(other))

    _PATCH_REGISTRATIONS[str.__mod__] = model


def fmt_model_uses():
    return _fmt_state['used']


# ------------------------------------------------------------------------------------------------ in-memory file system
class _Writer:
    def __init__(self, fs, entry):
        self.fs, self.entry, self.closed = fs, entry, False

    def write(self, s):
        assert not self.closed
        self.entry[1] = self.entry[1] + s
        return len(s)

    def close(self):
        self.closed = True

    def __enter__(self):
        return self

    def __exit__(self, *a):
        self.close()


class _Reader:
    def __init__(self, content):
        self.content, self.closed = content, False

    def read(self, n=-1):
        c, self.content = self.content, ''
        return c

    def close(self):
        self.closed = True

    def __enter__(self):
        return self

    def __exit__(self, *a):
        self.close()


class _Path:
    def __init__(self, fs):
        self.fs = fs

    def exists(self, p):
        return any(p == d for d in self.fs.dirs) or self.fs.find(p) is not None

    def isdir(self, p):
        return any(p == d for d in self.fs.dirs)

    def join(self, *a):
        return '/'.join(a)


class _Os:
    def __init__(self, fs):
        self.fs = fs
        self.path = _Path(fs)

    def makedirs(self, p, mode=0o777, exist_ok=False):
        self.fs.ops.append(('makedirs', p))
        if any(p == d for d in self.fs.dirs):
            if exist_ok:
                return
            raise FileExistsError(p)
        self.fs.dirs.append(p)

    def mkdir(self, p, mode=0o777):
        self.makedirs(p)


class FakeFS:
    """Directories are concrete strings; file paths may be symbolic.  `ops` records every mutation."""
    def __init__(self, dirs=()):
        self.dirs = list(dirs)
        self.files = []          # [path, content]
        self.ops = []            # ('makedirs', path) | ('write', path)
        self.os = _Os(self)

    def find(self, path):
        for e in self.files:
            if e[0] is path:
                return e
        for e in self.files:
            if e[0] == path:
                return e
        return None

    def dir_of(self, path):
        """The known directory a file path lies directly in (None if none)."""
        for d in self.dirs:
            pre = d + '/'
            if len(path) > len(pre) and path[:len(pre)] == pre and '/' not in path[len(pre):]:
                return d
        return None

    def open(self, path, mode='r', *a, **kw):
        if 'w' in mode or 'a' in mode or '+' in mode or 'x' in mode:
            self.ops.append(('write', path))
            if self.dir_of(path) is None:
                raise FileNotFoundError(2, 'No such file or directory')
            e = self.find(path)
            if e is None:
                e = [path, '']
                self.files.append(e)
            elif 'a' not in mode:
                e[1] = ''
            return _Writer(self, e)
        e = self.find(path)
        if e is None:
            raise FileNotFoundError(2, 'No such file or directory')
        return _Reader(e[1])

    def glob(self, pattern):
        """Only the pattern toccache.py uses: <dir>/*.json"""
        assert pattern.endswith('/*.json'), pattern
        d = pattern[:-len('/*.json')]
        out = []
        for e in self.files:
            if self.dir_of(e[0]) == d and e[0].endswith('.json'):
                out.append(e[0])
        return out

    def listing(self, d):
        return [e for e in self.files if self.dir_of(e[0]) == d]

    def mutations_under(self, d):
        pre = d + '/'
        return [op for op in self.ops if op[1] == d or op[1][:len(pre)] == pre]


@contextlib.contextmanager
def substituted(module, **names):
    """Temporarily bind names in a module's namespace (harness-side replacement, /repo untouched)."""
    missing = object()
    old = {k: module.__dict__.get(k, missing) for k in names}
    module.__dict__.update(names)
    try:
        yield
    finally:
        for k, v in old.items():
            if v is missing:
                del module.__dict__[k]
            else:
                module.__dict__[k] = v


# ------------------------------------------------------------------------------------------------ lossless "json"
class ObjJson:
    """json.dumps / json.load stand-in: the document is kept as an object tree in `store`, the text written to the file
    is only a ticket.  Leaves (str / int / bool / None, symbolic or not) are kept by reference: JSON's own fidelity
    for them is outside the claim.  Containers are copied on the way out and rebuilt on the way in, so the loaded
    table shares no container with the stored one."""
    def __init__(self):
        self.store = []
        self.default_calls = 0
        self.hook_calls = 0

    def _out(self, o, default):
        if isinstance(o, dict):
            return {k: self._out(v, default) for k, v in o.items()}
        if isinstance(o, (list, tuple)):
            return [self._out(v, default) for v in o]
        if o is None or isinstance(o, (str, int, float, bool)):
            return o
        if default is None:
            raise TypeError('Object of type %s is not JSON serializable' % type(o).__name__)
        self.default_calls += 1
        return self._out(default(o), default)

    def dumps(self, obj, indent=None, default=None, **kw):
        self.store.append(self._out(obj, default))
        return '#%d' % (len(self.store) - 1)

    def dump(self, obj, fp, **kw):
        fp.write(self.dumps(obj, **kw))

    def _in(self, o, hook):
        if isinstance(o, dict):
            d = {k: self._in(v, hook) for k, v in o.items()}
            if hook is not None:
                self.hook_calls += 1
                return hook(d)
            return d
        if isinstance(o, list):
            return [self._in(v, hook) for v in o]
        return o

    def loads(self, s, object_hook=None, **kw):
        if not (len(s) >= 2 and s[0] == '#' and s[1:].isdigit() and int(s[1:]) < len(self.store)):
            raise ValueError('Expecting value')
        return self._in(self.store[int(s[1:])], object_hook)

    def load(self, fp, object_hook=None, **kw):
        return self.loads(fp.read(), object_hook=object_hook)
