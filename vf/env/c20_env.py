"""C20 helpers: symbolic URI strings and two string models that stock CrossHair lacks.

Stock CrossHair 0.0.110 realises (enumerates value by value) `format(x, spec)` for symbolic ints / strings and
every argument of `binascii.unhexlify`; RadioDriver.parse_uri / scan_interface live on exactly these two.  The models
below keep them symbolic (DESIGN §1.2 `fmt` row; the shared plugin does not exist yet, so the model is local to C20):

* format(int, spec)  for spec = [[fill]align][0][width][d|x|X] and a non-negative int: forks on the number of
  digits (<= MAX_DIGITS), digits are fresh solver variables d_i with 0 <= d_i < base and v = sum d_i*base^i, rendered as 48+d (+7/+39 for hex letters).
* format(str, spec)  for spec = [[fill]<|>][width][s] and a string of concrete length: concatenation with the fill.
* binascii.unhexlify(str|bytes of concrete length): nibble = ite(c<=57, c-48, ite(c<=70, c-55, c-87)), one fork
  per character on "is a hex digit" (infeasible side pruned by the solver), errors as CPython raises them.

Everything else falls through to the stock implementation.  `h_models` in vf/props/c20.py validates the models
differentially against CPython on fixed vectors (inputs are symbolic proxies over constant terms) on every run.
"""
import binascii
import re

import z3
from crosshair.core import _PATCH_REGISTRATIONS
from crosshair.libimpl.builtinslib import (SymbolicInt, SymbolicBool, AnySymbolicStr, LazyIntSymbolicStr, SymbolicBytes,
                                           SymbolicByteArray)
from crosshair.statespace import context_statespace
from crosshair.tracers import NoTracing, ResumedTracing

MAX_DIGITS = 12
_INT_SPEC = re.compile(r'^(?:(.)?([<>=]))?(0)?([1-9][0-9]*)?([dxX])?$')
_STR_SPEC = re.compile(r'^(?:(.)?([<>]))?([1-9][0-9]*)?(s)?$')
_stock_format = None
_stock_unhexlify = None
_stock_int = None
_MISSING = object()
STATS = {'format_int': 0, 'format_str': 0, 'unhexlify': 0, 'int16': 0}     # how often a model (not the stock path) answered


def _concrete_points(seq):
    """list of code points (ints / SymbolicInts) when the length is concrete, else None."""
    try:
        n = seq.__len__()
    except Exception:
        return None
    if type(n) is not int or n > 64:
        return None
    with ResumedTracing():
        out = [seq[i] for i in range(n)]
    for c in out:
        if not isinstance(c, (int, SymbolicInt)):
            return None
    return out


def _mkstr(points):
    if all(type(c) is int for c in points):
        return ''.join(map(chr, points))
    return LazyIntSymbolicStr(list(points))


def _positional_digits(space, v, base, ndig):
    """When the term v already IS a positional sum  d_0 + base*d_1 + base^2*d_2 ...  of solver variables that the path
    condition bounds to [0, base) (a number the harness assembled from digits), return those variables as the digits
    (least significant first, zero where an exponent is absent): no new variables, no linking equation.  The shape is
    read off the simplified term and the digit bounds are checked with the solver; anything else -> None."""
    t = z3.simplify(v, som=True)
    terms = t.children() if z3.is_add(t) else [t]
    found = {}
    for m in terms:
        if z3.is_const(m) and m.decl().kind() == z3.Z3_OP_UNINTERPRETED:
            coeff, var = 1, m
        elif z3.is_mul(m) and m.num_args() == 2 and z3.is_int_value(m.arg(0)) and z3.is_const(m.arg(1)) \
                and m.arg(1).decl().kind() == z3.Z3_OP_UNINTERPRETED:
            coeff, var = m.arg(0).as_long(), m.arg(1)
        else:
            return None
        e = 0
        while coeff > 1 and coeff % base == 0:
            coeff //= base
            e += 1
        if coeff != 1 or e in found:
            return None
        found[e] = var
    if not found:
        return None
    if space.smt_fork(z3.Not(z3.And(*[z3.And(x >= 0, x < base) for x in found.values()]))):
        return None
    digs = []
    for i in range(ndig):
        if i in found:
            digs.append(found[i])
        else:
            digs.append(z3.IntVal(0))
    # exponents >= ndig are zero on this path because v < base**ndig was decided by the caller
    return digs


def _format_int(space, v, spec):
    m = _INT_SPEC.match(spec)
    if m is None:
        return None
    fill, align, zero, width, typ = m.groups()
    if space.smt_fork(v < 0):
        return None                                   # negative: stock (realising) path
    base = 10 if typ in (None, 'd') else 16
    ndig = None
    for k in range(1, MAX_DIGITS + 1):
        if space.smt_fork(v < base ** k):
            ndig = k
            break
    if ndig is None:
        return None
    digs = _positional_digits(space, v, base, ndig)
    if digs is None:
        # digits are fresh variables tied to v by the (unique) positional decomposition (Horner chain, small coefficients)
        digs = [z3.Int(f'fmt_digit{i}_' + space.uniq()) for i in range(ndig)]        # least significant first
        space.add(z3.And(*[z3.And(d >= 0, d < base) for d in digs]))
        q = v
        for i, d in enumerate(digs):
            if i == ndig - 1:
                space.add(q == d)
            else:
                nxt = z3.Int(f'fmt_quot{i + 1}_' + space.uniq())
                space.add(z3.And(nxt >= 0, nxt < base ** (ndig - i - 1), q == d + base * nxt))
                q = nxt
    pts = []
    for d in reversed(digs):
        if base == 10:
            pts.append(SymbolicInt(48 + d))
        else:
            pts.append(SymbolicInt(48 + d + z3.If(d >= 10, 7 if typ == 'X' else 39, 0)))
    if width is not None and int(width) > ndig:
        if fill is None:
            fill = '0' if zero else ' '
        pad = [ord(fill)] * (int(width) - ndig)
        pts = pts + pad if align == '<' else pad + pts     # '=' and '>' coincide for non-negative numbers
    return LazyIntSymbolicStr(pts)


def _format_str(obj, spec):
    m = _STR_SPEC.match(spec)
    if m is None or not isinstance(obj, LazyIntSymbolicStr):
        return None
    fill, align, width, _ = m.groups()
    pts = _concrete_points(obj._codepoints)
    if pts is None:
        return None
    if width is not None and int(width) > len(pts):
        pad = [ord(fill if fill is not None else ' ')] * (int(width) - len(pts))
        pts = pad + pts if align == '>' else pts + pad
    return _mkstr(pts)


def _vf_format(obj, format_spec=''):
    with NoTracing():
        spec = format_spec
        if isinstance(spec, AnySymbolicStr):
            spec = spec.__ch_realize__()
        ret = None
        if type(spec) is str:
            if isinstance(obj, SymbolicInt):
                ret = _format_int(context_statespace(), obj.var, spec)
            elif isinstance(obj, AnySymbolicStr):
                ret = _format_str(obj, spec)
        if ret is not None:
            STATS['format_int' if isinstance(obj, SymbolicInt) else 'format_str'] += 1
            return ret
    return _stock_format(obj, format_spec)


def _vf_unhexlify(data, /):
    with NoTracing():
        is_str = isinstance(data, LazyIntSymbolicStr)
        if is_str:
            pts = _concrete_points(data._codepoints)
        elif isinstance(data, (SymbolicBytes, SymbolicByteArray)):
            pts = _concrete_points(data.inner)
        else:
            pts = None
        if pts is None or all(type(c) is int for c in pts):
            pts = None
        else:
            space = context_statespace()
            if len(pts) % 2:
                raise binascii.Error('Odd-length string')
            nib = []
            for c in pts:
                if type(c) is int:
                    c = z3.IntVal(c)
                else:
                    c = c.var
                ok = z3.Or(z3.And(c >= 48, c <= 57), z3.And(c >= 65, c <= 70), z3.And(c >= 97, c <= 102))
                if not space.smt_fork(ok, probability_true=0.9):
                    if is_str and space.smt_fork(c > 127):
                        raise ValueError('string argument should contain only ASCII characters')
                    raise binascii.Error('Non-hexadecimal digit found')
                nib.append(z3.If(c <= 57, c - 48, z3.If(c <= 70, c - 55, c - 87)))
            STATS['unhexlify'] += 1
            return SymbolicBytes([SymbolicInt(16 * nib[i] + nib[i + 1]) for i in range(0, len(nib), 2)])
    return _stock_unhexlify(data)


def _vf_int(val=0, base=_MISSING):
    """int(str, 16) for a symbolic string of concrete length made of hex digits only; everything else is stock."""
    with NoTracing():
        pts = None
        if isinstance(val, LazyIntSymbolicStr) and type(base) is int and base == 16:
            pts = _concrete_points(val._codepoints)
        if pts:
            space = context_statespace()
            acc = z3.IntVal(0)
            for c in pts:
                c = z3.IntVal(c) if type(c) is int else c.var
                ok = z3.Or(z3.And(c >= 48, c <= 57), z3.And(c >= 65, c <= 70), z3.And(c >= 97, c <= 102))
                if not space.smt_fork(ok, probability_true=0.9):
                    pts = None      # sign, prefix, underscore, blank or garbage: stock behaviour (realises)
                    break
                acc = 16 * acc + z3.If(c <= 57, c - 48, z3.If(c <= 70, c - 55, c - 87))
            if pts:
                STATS['int16'] += 1
                return SymbolicInt(acc)
    if base is _MISSING:
        return _stock_int(val)
    return _stock_int(val, base)


def install():
    global _stock_format, _stock_unhexlify, _stock_int
    if _stock_format is not None:
        return
    _stock_int = _PATCH_REGISTRATIONS[int]
    _PATCH_REGISTRATIONS[int] = _vf_int
    from crosshair.libimpl.builtinslib import _format
    _stock_format = _PATCH_REGISTRATIONS.get(format, _format)
    _PATCH_REGISTRATIONS[format] = _vf_format
    _stock_unhexlify = _PATCH_REGISTRATIONS.get(binascii.unhexlify, binascii.unhexlify)
    _PATCH_REGISTRATIONS[binascii.unhexlify] = _vf_unhexlify
    if getattr(binascii, 'a2b_hex', binascii.unhexlify) is not binascii.unhexlify:
        _PATCH_REGISTRATIONS[binascii.a2b_hex] = _vf_unhexlify


# ---------------------------------------------------------------------------------------------- harness-side helpers
def sym_str(sym, parts):
    """Concatenate literal str pieces and code points (ints, symbolic or not) into one string.  Plain `str` when every
    code point is concrete (replay mode), LazyIntSymbolicStr otherwise."""
    pts = []
    for p in parts:
        if isinstance(p, str):
            pts.extend(map(ord, p))
        elif isinstance(p, (list, tuple)):
            pts.extend(p)
        else:
            pts.append(p)
    if not sym.symbolic:
        return ''.join(chr(int(c)) for c in pts)
    with NoTracing():
        return _mkstr(pts)


def pin_int(value):
    """symbolic proxy over a constant term (model validation)"""
    with NoTracing():
        return SymbolicInt(z3.IntVal(int(value)))


def constrain(sym, cond):
    """Add `cond` as a solver assumption (no fork); plain check when replaying."""
    if sym.symbolic:
        with NoTracing():
            if isinstance(cond, SymbolicBool):
                sym.space.add(cond.var)
                return
    sym.assume(cond)


def restrict(sym, c, ranges):
    """c (an input created with sym.int) lies in one of the closed ranges: solver assumption, no fork"""
    if sym.symbolic:
        with NoTracing():
            assert isinstance(c, SymbolicInt)
            sym.space.add(z3.Or(*[z3.And(c.var >= lo, c.var <= hi) for lo, hi in ranges]))
    else:
        sym.assume(any(lo <= c <= hi for lo, hi in ranges))


def case_variant(sym, name, base):
    """a character equal to `base` or, when base is an upper-case letter code, possibly its lower-case form"""
    u = sym.int(name, 48, 122)
    if sym.symbolic:
        with NoTracing():
            b = base.var if isinstance(base, SymbolicInt) else z3.IntVal(int(base))
            sym.space.add(z3.Or(u.var == b, z3.And(b >= 65, b <= 90, u.var == b + 32)))
    else:
        sym.assume(u == base or (65 <= base <= 90 and u == base + 32))
    return u


# ------------------------------------------------------------------------------- fakes for radio / usb / network access
class CmdQueue:
    """records what the real _SharedRadioInstance asks of the (absent) shared radio thread"""
    def __init__(self):
        self.log = []

    def put(self, cmd):
        self.log.append(cmd)


class RspQueue:
    """answers scan commands: `found(datarate)` gives the channels that acknowledge at that data rate"""
    def __init__(self, cmdq, found):
        self.cmdq = cmdq
        self.found = found

    def get(self):
        _, _, args = self.cmdq.log[-1]
        return self.found(args[0])


class FakeRadioManager:
    """Stands in for RadioManager (which opens the USB dongle): hands out REAL _SharedRadioInstance objects whose
    command queue is recorded."""
    def __init__(self, found=lambda dr: [], version=1.0):
        self.opened = []
        self.instances = []
        self.found = found
        self.version = version

    def open(self, devid):
        from cflib.crtp.radiodriver import _SharedRadioInstance
        cmdq = CmdQueue()
        inst = _SharedRadioInstance(len(self.instances), cmdq, RspQueue(cmdq, self.found), self.version)
        self.opened.append(devid)
        self.instances.append(inst)
        return inst

    def remove(self, devid):
        pass


class _NoHardware(Exception):
    pass


def _refuse(*a, **kw):
    raise _NoHardware('hardware / network access is disabled in the harness')


class _FakeSocketModule:
    AF_INET = 2
    SOCK_DGRAM = 2
    socket = staticmethod(_refuse)


class _FakeCfUsb:
    def __init__(self, device=None, devid=0):
        self.dev = None


def isolate(serials=()):
    """Cut every path from the link drivers to real devices. Returns the FakeRadioManager now in force."""
    import cflib.crtp.radiodriver as rd
    import cflib.crtp.usbdriver as ud
    import cflib.crtp.udpdriver as udp
    import cflib.crtp.tcpdriver as tcp
    import cflib.crtp.serialdriver as ser
    import cflib.drivers.crazyradio as cr
    mgr = FakeRadioManager()
    rd.RadioManager = mgr
    rd._SharedRadio = _refuse
    cr.get_serials = lambda: tuple(serials)
    ud.CfUsb = _FakeCfUsb
    udp.socket = _FakeSocketModule
    tcp.SocketTransport = _refuse
    ser.SerialDriver.get_devices = lambda self: {}
    ser.UARTTransport = _refuse
    return mgr


# ------------------------------------------------------------- python regular expression (subset) -> z3 regular expression
class Untranslatable(Exception):
    pass


def _z3_str_sort():
    return z3.ReSort(z3.StringSort())


def _re_any():
    return z3.AllChar(_z3_str_sort())


def _re_chr(c):
    return z3.Re(z3.StringVal(chr(c)))


def _re_concat(items):
    items = list(items)
    if not items:
        return z3.Re(z3.StringVal(''))
    if len(items) == 1:
        return items[0]
    return z3.Concat(*items)


def _re_union(items):
    items = list(items)
    if len(items) == 1:
        return items[0]
    return z3.Union(*items)


def _tr_seq(seq, top):
    import re._constants as C
    out = []
    items = list(seq)
    for idx, (op, av) in enumerate(items):
        if op is C.LITERAL:
            out.append(_re_chr(av))
        elif op is C.NOT_LITERAL:
            out.append(z3.Intersect(_re_any(), z3.Complement(_re_chr(av))))
        elif op is C.ANY:
            out.append(z3.Intersect(_re_any(), z3.Complement(_re_chr(10))))
        elif op is C.IN:
            neg = False
            alts = []
            for iop, iav in av:
                if iop is C.NEGATE:
                    neg = True
                elif iop is C.LITERAL:
                    alts.append(_re_chr(iav))
                elif iop is C.RANGE:
                    alts.append(z3.Range(z3.StringVal(chr(iav[0])), z3.StringVal(chr(iav[1]))))
                else:
                    raise Untranslatable(f'character class item {iop}')
            r = _re_union(alts)
            out.append(z3.Intersect(_re_any(), z3.Complement(r)) if neg else r)
        elif op is C.MAX_REPEAT or op is C.MIN_REPEAT:
            lo, hi, sub = av
            r = _tr_seq(sub, False)
            if hi is C.MAXREPEAT:
                out.append(_re_concat([r] * lo + [z3.Star(r)]))
            else:
                out.append(z3.Loop(r, lo, hi))
        elif op is C.SUBPATTERN:
            _, add, dele, sub = av
            if add or dele:
                raise Untranslatable('inline flags')
            out.append(_tr_seq(sub, False))
        elif op is C.BRANCH:
            out.append(_re_union([_tr_seq(b, False) for b in av[1]]))
        elif op is C.AT:
            if not top:
                raise Untranslatable('anchor inside a group')
            if av is C.AT_BEGINNING and idx == 0:
                continue
            if av is C.AT_END and idx == len(items) - 1:
                out.append(z3.Option(_re_chr(10)))        # `$` also matches before a final newline
                continue
            raise Untranslatable(f'anchor {av} at position {idx}')
        else:
            raise Untranslatable(f'regex node {op}')
    return _re_concat(out)


def search_language(pattern):
    """z3 regular expression of {s | re.search(pattern, s)} for the supported subset (no flags)."""
    import re._parser as P
    import re._constants as C
    tree = list(P.parse(pattern))
    anchored_l = bool(tree) and tree[0] == (C.AT, C.AT_BEGINNING)
    anchored_r = bool(tree) and tree[-1] == (C.AT, C.AT_END)
    body = _tr_seq(tree, True)
    parts = ([] if anchored_l else [z3.Full(_z3_str_sort())]) + [body] + ([] if anchored_r else [z3.Full(_z3_str_sort())])
    return _re_concat(parts)


def prefix_language(lit):
    return z3.Concat(z3.Re(z3.StringVal(lit)), z3.Full(_z3_str_sort()))


def z3_member(s, lang):
    """concrete membership, decided by z3 (validation of the translation)"""
    r = z3.simplify(z3.InRe(z3.StringVal(s), lang))
    if z3.is_true(r):
        return True
    if z3.is_false(r):
        return False
    sol = z3.Solver()
    sol.add(r)
    return sol.check() == z3.sat
