"""C14 environment: a byte-array memory handler standing in for cflib.crazyflie.mem.Memory, and a lossless
in-memory replacement for open()/yaml.dump/yaml.safe_load.

The real Memory is asynchronous: read()/write() only queue a request; the data callback (new_data / write_done)
arrives later from the packet thread.  The stub therefore only RECORDS the request; the harness delivers the
completions one at a time with serve()/serve_all(), exactly one callback per request, never re-entrantly.
"""
import copy

from crosshair.tracers import NoTracing

import vf.explore  # noqa: F401  (CrossHair registrations and framework plugins must exist before ours)


def is_concrete(x):
    """True for a plain int (under CrossHair type()/isinstance() report int for proxies as well)."""
    with NoTracing():
        return type(x) is int


class Mem:
    """Byte-array backed memory handler.  `image` is a plain list (entries may be symbolic ints)."""

    def __init__(self, size=0, fill=0xFF, image=None):
        self.image = list(image) if image is not None else [fill] * size
        self.fill = fill
        self.reads = []        # every read call, in order: (addr, length)
        self.writes = []       # every write call, in order: (addr, [bytes], flush_queue)
        self.pending = []      # not yet completed requests: ('r', mem, addr, length) / ('w', mem, addr)
        self.regions = []      # writes at symbolic addresses: (addr, [bytes]) newest last

    # ---- the two entry points the memory elements use
    def read(self, memory, addr, length):
        self.reads.append((addr, length))
        self.pending.append(('r', memory, addr, length))
        return True

    def preload(self, addr, data):
        """Device-side content (not a recorded write)."""
        data = list(data)
        if is_concrete(addr):
            end = addr + len(data)
            if end > len(self.image):
                self.image.extend([self.fill] * (end - len(self.image)))
            self.image[addr:end] = data
        else:
            self.regions.append((addr, data))

    def write(self, memory, addr, data, flush_queue=False, progress_cb=None):
        data = list(data)
        self.writes.append((addr, data, flush_queue))
        self.preload(addr, data)
        self.pending.append(('w', memory, addr))
        return True

    # ---- completion, driven by the harness
    def fetch(self, addr, length):
        """Content of [addr, addr+length).  `length` must be concrete.  A symbolic address is looked up among
        the regions written at symbolic addresses (exact start match)."""
        if is_concrete(addr):
            end = addr + length
            if end > len(self.image):
                self.image.extend([self.fill] * (end - len(self.image)))
            return list(self.image[addr:end])
        for raddr, rdata in reversed(self.regions):
            if raddr == addr:
                assert length <= len(rdata)
                return list(rdata[:length])
        raise AssertionError('read of a symbolic address that was never written')

    def serve(self, read_cb='new_data', write_cb='write_done', fail=False, fail_cb='new_data_failed',
              wfail_cb='write_failed'):
        """Complete the oldest pending request.  Returns its kind ('r'/'w') or None when idle."""
        if not self.pending:
            return None
        req = self.pending.pop(0)
        if req[0] == 'r':
            _, mem, addr, length = req
            if fail:
                getattr(mem, fail_cb)(mem, addr, bytearray())
            else:
                getattr(mem, read_cb)(mem, addr, bytearray(self.fetch(addr, length)))
        else:
            _, mem, addr = req
            getattr(mem, wfail_cb if fail else write_cb)(mem, addr)
        return req[0]

    def serve_all(self, limit=64, **kw):
        n = 0
        while self.pending:
            n += 1
            assert n <= limit, 'memory element keeps issuing requests'
            self.serve(**kw)
        return n


class Other:
    """A different memory (other id) for the 'not my data' checks."""
    def __init__(self, id):
        self.id = id


class Calls:
    """Records callback invocations."""
    def __init__(self):
        self.calls = []

    def __call__(self, *a, **kw):
        self.calls.append(a)


# ---------------------------------------------------------------- files and YAML
class _File:
    def __init__(self, store, name, mode):
        self.store, self.name, self.mode = store, name, mode

    def __enter__(self):
        return self

    def __exit__(self, *a):
        return False


class YamlStore:
    """Lossless stand-in for a directory of YAML files: dump() keeps a deep copy of the object under the file
    name, safe_load() returns a deep copy of it.  (PyYAML's own fidelity is outside the claim.)"""
    YAMLError = ValueError

    def __init__(self):
        self.files = {}

    def open(self, name, mode='r'):
        if 'r' in mode and name not in self.files:
            raise FileNotFoundError(name)
        return _File(self, name, mode)

    def dump(self, data, file):
        assert 'w' in file.mode
        self.files[file.name] = copy.deepcopy(data)

    def safe_load(self, file):
        assert 'r' in file.mode
        return copy.deepcopy(self.files[file.name])

    def install(self, module):
        """Replace `yaml` and `open` in the namespace of the module under test. Returns an undo function."""
        had_open = 'open' in module.__dict__
        old = (module.yaml, module.__dict__.get('open'))
        module.yaml = self
        module.open = self.open

        def undo():
            module.yaml = old[0]
            if had_open:
                module.open = old[1]
            else:
                del module.open
        return undo


# ---------------------------------------------------------------- format() of byte buffers
def install_format_stub():
    """`logger.debug('Got new data: {}'.format(data))` in I2CElement.new_data formats the received buffer before the
    (disabled) logger drops the string; stock CrossHair realises the whole buffer for that.  format() of a symbolic
    byte buffer therefore yields a placeholder without touching the symbolic content, and so does format() of a symbolic
    int with an empty format spec (f'Deck memory version {version} not supported').  In the code under test such
    strings only feed logging and exception texts; no harness assertion looks at a message text."""
    from crosshair.core import _PATCH_REGISTRATIONS
    from crosshair.libimpl.builtinslib import SymbolicBytes, SymbolicByteArray, SymbolicInt
    orig = _PATCH_REGISTRATIONS[format]

    def _format(obj, format_spec=''):
        with NoTracing():
            if isinstance(obj, (SymbolicBytes, SymbolicByteArray)):
                return '<buffer>'
            if isinstance(obj, SymbolicInt) and format_spec in ('', 'd'):
                return '<int>'          # only message texts (RuntimeError / log lines) format numbers in this code
        return orig(obj, format_spec)
    _PATCH_REGISTRATIONS[format] = _format


# ---------------------------------------------------------------- a | b with provably disjoint bit ranges
def install_disjoint_or():
    """`hi << k | lo` (40-bit radio address, RGB565 packing): the framework's symbolic|symbolic model goes through
    Int2BV(.,64), which z3 cannot relate back to the integer fields within minutes.  When the path condition IMPLIES
    that one operand is a non-negative multiple of 2^k and the other lies in [0, 2^k) the result is their sum; this
    is checked with the solver (no fork); otherwise the framework's model is used unchanged."""
    import operator as ops
    import z3
    from crosshair.libimpl.builtinslib import SymbolicInt, SymbolicBool, setup_binop, BinFn
    from crosshair.statespace import context_statespace
    from vf.plugins import bits

    def _or(op: BinFn, a: SymbolicInt, b: SymbolicInt):
        with NoTracing():
            if not isinstance(a, SymbolicBool) and not isinstance(b, SymbolicBool):
                solver = context_statespace().solver
                for k in (32, 11, 5, 8, 16, 4):
                    for x, y in ((a, b), (b, a)):
                        g = z3.And(x.var >= 0, x.var % (1 << k) == 0, y.var >= 0, y.var < (1 << k))
                        if solver.check(z3.Not(g)) == z3.unsat:
                            return SymbolicInt(x.var + y.var)
        return bits._bitop(op, a, b)
    setup_binop(_or, {ops.or_})


def install_bv_lowmask():
    """`crc32(...) & 0xFF`: the framework's crc model returns BV2Int(crc) and its `& const` model then builds
    (BV2Int(crc) div 1) mod 256, an integer term z3 cannot relate to a second, identical CRC.  For a = BV2Int(bv)
    and a low mask 2^k-1 the result is BV2Int(Extract(k-1, 0, bv)) (exact).  Everything else: framework model."""
    import operator as ops
    from typing import Union
    import z3
    from crosshair.libimpl.builtinslib import SymbolicInt, SymbolicBool, setup_binop, BinFn
    from vf.plugins import bits

    def _and(op: BinFn, a: Union[SymbolicInt, int], b: Union[SymbolicInt, int]):
        with NoTracing():
            x, c = (a, b) if isinstance(a, SymbolicInt) else (b, a)
            if (isinstance(x, SymbolicInt) and not isinstance(x, SymbolicBool) and type(c) is int and c > 0
                    and (c & (c + 1)) == 0):
                v = x.var
                k = c.bit_length()
                if z3.is_app(v) and v.decl().kind() == z3.Z3_OP_BV2INT and v.arg(0).size() >= k:
                    return SymbolicInt(z3.BV2Int(z3.Extract(k - 1, 0, v.arg(0)), is_signed=False))
        return bits._bitop(op, a, b)
    setup_binop(_and, {ops.and_})


# ---------------------------------------------------------------- multi-byte integers through struct as bit-vectors
def install_struct_int_bv():
    """struct.pack of a symbolic int into a 2/4/8 byte field: stock CrossHair produces the bytes as
    (x div 256^i) mod 256; a CRC over such bytes (Int2BV of nested div/mod terms) is out of reach for z3.  Here the
    bytes of x = BV2Int(bv) are BV2Int(Extract(8i+7, 8i, bv)),
    and unpack of bytes that are already bit-vector slices reassembles the bit-vector.  Only values that already ARE
    BV2Int(bit-vector) (see bv_int below, and crc32 results) are treated this way; everything else is delegated to the
    framework's struct model, item by item."""
    import struct
    import z3
    from crosshair.core import _PATCH_REGISTRATIONS
    from crosshair.libimpl import structlib as S
    from crosshair.libimpl.builtinslib import SymbolicInt, SymbolicBool, SymbolicBytes, SymbolicByteArray
    from crosshair.statespace import context_statespace
    from crosshair.tracers import ResumedTracing
    from crosshair.core import realize, deep_realize
    from vf.plugins import structfp
    WIDE = {'b': (1, True), 'B': (1, False), 'h': (2, True), 'H': (2, False), 'i': (4, True), 'I': (4, False), 'l': (4, True), 'L': (4, False),
            'q': (8, True), 'Q': (8, False)}
    base_pack, base_unpack = structfp.pack, structfp.unpack

    def _symint(v):
        return isinstance(v, SymbolicInt) and not isinstance(v, SymbolicBool)

    def _is_slice(b):
        if not isinstance(b, SymbolicInt):
            return False
        v = b.var
        return z3.is_app(v) and v.decl().kind() == z3.Z3_OP_BV2INT and v.arg(0).size() == 8

    def pack(fmt, /, *args):
        with NoTracing():
            fmt_r = realize(fmt)
            lay = structfp._layout(fmt_r) if any(_symint(a) for a in args) else None
            if lay is None or not any(fc in WIDE for fc, _ in lay[1]):
                with ResumedTracing():
                    return base_pack(fmt_r, *args)
            prefix, items, little = lay
            n_args = sum(1 for fc, _ in items if fc != 'x')
            if len(args) != n_args:
                raise struct.error(f'pack expected {n_args} items for packing (got {len(args)})')
            out, ai = [], 0
            for fc, count in items:
                if fc == 'x':
                    out.extend([0] * count)
                    continue
                v = args[ai]
                ai += 1
                src = v.var if _symint(v) else None
                if (fc in WIDE and src is not None and z3.is_app(src) and src.decl().kind() == z3.Z3_OP_BV2INT
                        and src.arg(0).size() <= 8 * WIDE[fc][0] - (1 if WIDE[fc][1] else 0)):
                    # value is BV2Int(bv), bv narrow enough to be in range of the field: no range branch needed
                    n = WIDE[fc][0]
                    bv = src.arg(0) if src.arg(0).size() == 8 * n else z3.ZeroExt(8 * n - src.arg(0).size(), src.arg(0))
                    if n == 1:
                        bs = [SymbolicInt(z3.BV2Int(bv, is_signed=False))]
                    else:
                        bs = [SymbolicInt(z3.BV2Int(z3.Extract(8 * i + 7, 8 * i, bv), is_signed=False)) for i in range(n)]
                    out.extend(bs if little else bs[::-1])
                else:
                    with ResumedTracing():
                        part = base_pack(prefix + (str(count) if fc in 'sp' else '') + fc, v)
                        out.extend(list(part))
            if any(isinstance(b, SymbolicInt) for b in out):
                return SymbolicBytes(out)
            return bytes(out)

    def unpack(fmt, buffer, /):
        with NoTracing():
            fmt_r = deep_realize(fmt)
            lay = structfp._layout(fmt_r) if isinstance(buffer, (SymbolicBytes, SymbolicByteArray)) else None
            if lay is None or not any(fc in WIDE for fc, _ in lay[1]):
                with ResumedTracing():
                    return base_unpack(fmt_r, buffer)
            prefix, items, little = lay
            need = S._struct_items_total_size(prefix, items)
            with ResumedTracing():
                if len(buffer) != need:
                    raise struct.error(f'unpack requires a buffer of {need} bytes')
            res, off = [], 0
            for fc, count in items:
                size = S._get_item_size(fc, count, prefix)
                with ResumedTracing():
                    chunk = buffer[off:off + size]
                off += size
                if fc == 'x':
                    continue
                done = False
                if fc in WIDE:
                    with ResumedTracing():
                        bs = list(chunk)
                    if any(_is_slice(b) for b in bs):
                        bvs = [structfp._to_bv8(b) for b in bs]
                        if little:
                            bvs = bvs[::-1]
                        bv = z3.simplify(z3.Concat(*bvs)) if len(bvs) > 1 else bvs[0]
                        res.append(SymbolicInt(z3.BV2Int(bv, is_signed=WIDE[fc][1])))
                        done = True
                if not done:
                    with ResumedTracing():
                        res.append(base_unpack(prefix + (str(count) if fc in 'sp' else '') + fc, chunk)[0])
            return tuple(res)

    _PATCH_REGISTRATIONS[struct.pack] = pack
    _PATCH_REGISTRATIONS[struct.unpack] = unpack


def bv_int(sym, name, bits):
    """Symbolic unsigned int of `bits` bits represented as BV2Int(bit-vector constant): the same value set as
    sym.int(name, 0, 2**bits-1), but its bytes (struct) and CRCs over them stay in pure bit-vector logic."""
    if not sym.symbolic:
        return sym.int(name, 0, 2 ** bits - 1)
    import z3
    from crosshair.libimpl.builtinslib import SymbolicInt
    with NoTracing():
        v = SymbolicInt(z3.BV2Int(z3.BitVec(name + sym.space.uniq(), bits), is_signed=False))
        return sym._reg(name, 'int', v.var, v)


# ---------------------------------------------------------------- CRC-32 as a GF(2)-linear map
def crc32_linear_term(byte_terms):
    """CRC-32 of a message of known length whose bytes are 8-bit z3 terms:
         crc(m) = crc(0^L) xor XOR_k [bit k of m] * (crc(e_k) xor crc(0^L))      (CRC is affine over GF(2))
    with the constants taken from CPython's binascii.crc32.  No z3.simplify: equal inputs give the identical AST."""
    import binascii
    import z3
    n = len(byte_terms)
    zero = bytes(n)
    c0 = binascii.crc32(zero)
    acc = z3.BitVecVal(c0, 32)
    for i, b in enumerate(byte_terms):
        if z3.is_bv_value(b):
            v = b.as_long()
            for j in range(8):
                if v >> j & 1:
                    m = bytearray(n)
                    m[i] = 1 << j
                    acc = acc ^ z3.BitVecVal(binascii.crc32(bytes(m)) ^ c0, 32)
            continue
        for j in range(8):
            m = bytearray(n)
            m[i] = 1 << j
            k = binascii.crc32(bytes(m)) ^ c0
            acc = acc ^ (z3.SignExt(31, z3.Extract(j, j, b)) & z3.BitVecVal(k, 32))
    return acc


def install_linear_crc():
    """Replaces the framework's crc32 model (8 conditional shift/xor rounds per byte, z3.simplify'd: two CRCs of the
    same bytes come out as different ASTs and their equality costs z3 ~40 s) by the affine form above.
    Validated against CPython by the harness `crc_model`."""
    import binascii
    import zlib
    import z3
    from crosshair.core import _PATCH_REGISTRATIONS
    from crosshair.libimpl.builtinslib import SymbolicInt, SymbolicBytes, SymbolicByteArray
    from crosshair.tracers import ResumedTracing
    from vf.plugins import crc as fw

    def mk(orig, fallback):
        def crc32(data, value=0, /):
            with NoTracing():
                if isinstance(value, SymbolicInt) or not isinstance(data, (SymbolicBytes, SymbolicByteArray)):
                    with ResumedTracing():
                        return fallback(data, value)
                if value != 0:
                    with ResumedTracing():
                        return fallback(data, value)
                with ResumedTracing():
                    items = list(data)
                if not any(isinstance(b, SymbolicInt) for b in items):
                    return orig(bytes(items), value)
                term = crc32_linear_term([fw._bv8(b) for b in items])
                return SymbolicInt(z3.BV2Int(term, is_signed=False))
        return crc32
    _PATCH_REGISTRATIONS[binascii.crc32] = mk(binascii.crc32, _PATCH_REGISTRATIONS[binascii.crc32])
    if zlib.crc32 is not binascii.crc32:
        _PATCH_REGISTRATIONS[zlib.crc32] = mk(zlib.crc32, _PATCH_REGISTRATIONS[zlib.crc32])


def all_equal(xs, ys):
    """xs == ys element-wise as ONE condition (one solver decision instead of one per element)."""
    xs, ys = list(xs), list(ys)
    if len(xs) != len(ys):
        return False
    conds = [x == y for x, y in zip(xs, ys)]
    import z3
    from crosshair.libimpl.builtinslib import SymbolicBool
    with NoTracing():
        if not any(isinstance(c, SymbolicBool) for c in conds):
            return all(conds)
        if any((not isinstance(c, SymbolicBool)) and not c for c in conds):
            return False
        return SymbolicBool(z3.And(*[c.var for c in conds if isinstance(c, SymbolicBool)]))


def iff(a, b):
    """a == b for two truth values as ONE condition (bool == bool on proxies decides each side separately)."""
    import z3
    from crosshair.libimpl.builtinslib import SymbolicBool
    with NoTracing():
        sa, sb = isinstance(a, SymbolicBool), isinstance(b, SymbolicBool)
        if not sa and not sb:
            return bool(a) == bool(b)
        va = a.var if sa else z3.BoolVal(bool(a))
        vb = b.var if sb else z3.BoolVal(bool(b))
        return SymbolicBool(va == vb)


def install_bytes_split():
    """bytes.split(<one byte>) on a symbolic buffer (`_name.split(b'\\x00')` in DeckMemory._parse): stock CrossHair has
    no model and realises the buffer.  Model: scan the bytes, deciding `byte == separator` per position."""
    from crosshair.libimpl.builtinslib import BytesLike, SymbolicByteArray
    fallback = getattr(BytesLike, 'split', None)

    def split(self, sep=None, maxsplit=-1):
        if not (isinstance(sep, (bytes, bytearray)) and len(sep) == 1 and is_concrete(sep[0]) and is_concrete(maxsplit)):
            if fallback is None:
                raise NotImplementedError('bytes.split with this separator is not modelled')
            return fallback(self, sep, maxsplit)
        parts, cur = [], []
        for b in list(self):
            if (maxsplit < 0 or len(parts) < maxsplit) and b == sep[0]:
                parts.append(cur)
                cur = []
            else:
                cur.append(b)
        parts.append(cur)
        mk = bytearray if isinstance(self, SymbolicByteArray) else bytes
        return [mk(p) for p in parts]
    BytesLike.split = split


def check_crc_model(lengths=(1, 2, 3, 7, 8, 11, 16, 24), per_length=12, seed=14):
    """Differential validation of crc32_linear_term against CPython (symbolic branch: variables, then substitution)."""
    import binascii
    import random
    import z3
    rnd = random.Random(seed)
    with NoTracing():
        for n in lengths:
            vs = [z3.BitVec(f'crcchk{n}_{i}', 8) for i in range(n)]
            term = crc32_linear_term(vs)
            mixed = crc32_linear_term([z3.BitVecVal(0xEB, 8)] + vs[1:])
            for _ in range(per_length):
                m = bytes(rnd.randrange(256) for _ in range(n))
                sub = [(v, z3.BitVecVal(x, 8)) for v, x in zip(vs, m)]
                got = z3.simplify(z3.substitute(term, *sub)).as_long()
                if got != binascii.crc32(m):
                    return f'crc model differs from binascii.crc32 on {m.hex()}'
                m2 = b'\xeb' + m[1:]
                if z3.simplify(z3.substitute(mixed, *sub)).as_long() != binascii.crc32(m2):
                    return f'crc model (constant byte) differs from binascii.crc32 on {m2.hex()}'
    return None


def prove_crc_models_equal(n, timeout_s=100):
    """Solver proof (pure bit-vector queries, one per output bit, fresh z3 solver) that the affine model and the
    framework's bit-serial model give the same CRC-32 for EVERY message of n bytes (parity reasoning limits this to
    n <= 3).  -> 'unsat' (proved) / 'sat' / 'unknown'"""
    import time
    import z3
    from vf.plugins import crc as fw
    with NoTracing():
        vs = [z3.BitVec(f'crceq{n}_{i}', 8) for i in range(n)]
        a, b = fw.crc32_terms(vs), crc32_linear_term(vs)
        s = z3.SolverFor('QF_BV')
        t0 = time.time()
        for i in range(32):
            left = timeout_s - (time.time() - t0)
            if left <= 0:
                return 'unknown'
            s.set('timeout', int(left * 1000))
            s.push()
            s.add(z3.Extract(i, i, a) != z3.Extract(i, i, b))
            r = str(s.check())
            s.pop()
            if r != 'unsat':
                return r
        return 'unsat'
