"""Environment for C03 (TOC download): a Crazyflie stand-in with the REAL dispatcher, the device side of the CRTP
TOC services written from the protocol, and cooperative stand-ins for Lock/Queue inside cflib.crazyflie.param.

Nothing here imports the decoding tables of cflib: the device model only *produces* protocol bytes."""
import queue as _queue

from vf.env.base import MiniCF, step
from vf.explore import Yield
from cflib.crtp.crtpstack import CRTPPacket

PORT_PARAM, PORT_LOG = 2, 5
CHAN_TOC, CHAN_LOG_SETTINGS, CHAN_PARAM_MISC = 0, 1, 3
# TOC channel commands (CRTP log/param TOC protocol)
V1_ITEM, V1_INFO, V2_ITEM, V2_INFO = 0, 1, 2, 3
LOG_CMD_RESET = 5
PARAM_MISC_GET_EXTENDED_TYPE = 2


# ------------------------------------------------------------------ cooperative Lock / Queue (threads are stepped)
_TXN = []          # (queue, item) dequeued since the last successful blocking call of the running step


def reset():
    del _TXN[:]


class FakeLock:
    """threading.Lock for stepped thread bodies: acquire on a held lock leaves the step (Yield) after parking what the
    step dequeued: the real thread keeps the item in a local while blocked, so it is handed to that consumer again when its
    body is re-entered, but it is no longer IN the queue (a non-blocking drain by another thread does not see it)."""
    def __init__(self):
        self.held = False

    def acquire(self, blocking=True, timeout=-1):
        if self.held:
            if not blocking:
                return False
            while _TXN:
                q, item = _TXN.pop()
                q.parked.insert(0, item)
            raise Yield()
        self.held = True
        del _TXN[:]
        return True

    def release(self):
        if not self.held:
            raise RuntimeError('release unlocked lock')
        self.held = False

    def locked(self):
        return self.held

    def __enter__(self):
        self.acquire()

    def __exit__(self, *a):
        self.release()


class FakeQueue:
    """queue.Queue for stepped thread bodies: a blocking get on an empty queue leaves the step (Yield)."""
    def __init__(self, maxsize=0):
        self.items = []
        self.parked = []       # dequeued by the (single) blocking consumer, which then blocked on a lock before using it

    def put(self, item, block=True, timeout=None):
        self.items.append(item)

    def pending(self):
        return bool(self.items or self.parked)

    def get(self, block=True, timeout=None):
        if block and self.parked:
            item = self.parked.pop(0)
            _TXN.append((self, item))
            return item
        if not self.items:
            if block and timeout is None:
                raise Yield()
            raise _queue.Empty()
        item = self.items.pop(0)
        if block:
            _TXN.append((self, item))
        return item

    def empty(self):
        return not self.items

    def qsize(self):
        return len(self.items)


def patch_param_sync():
    """Replace Lock/Queue in the namespace of cflib.crazyflie.param (harness side, /repo untouched)."""
    import cflib.crazyflie.param as P
    P.Lock = FakeLock
    P.Queue = FakeQueue


# ------------------------------------------------------------------ Crazyflie stand-in with the real dispatcher
class CF3(MiniCF):
    """MiniCF whose port callbacks are kept and dispatched by the REAL _IncomingPacketHandler (stepped once per
    received packet), plus the Callers Param.__init__ subscribes to."""
    def __init__(self, version=10):
        from cflib.crazyflie import _IncomingPacketHandler
        from cflib.utils.callbacks import Caller
        MiniCF.__init__(self, version)
        self.packet_received = Caller()
        self.disconnected = Caller()
        self.connection_requested = Caller()
        self.incoming = _IncomingPacketHandler(self)

    def add_port_callback(self, port, cb):
        self.incoming.add_port_callback(port, cb)

    def remove_port_callback(self, port, cb):
        self.incoming.remove_port_callback(port, cb)

    def add_header_callback(self, cb, port, channel, port_mask=0xFF, channel_mask=0xFF):
        self.incoming.add_header_callback(cb, port, channel, port_mask, channel_mask)

    def remove_header_callback(self, cb, port, channel, port_mask=0xFF, channel_mask=0xFF):
        self.incoming.remove_header_callback(cb, port, channel, port_mask, channel_mask)

    def deliver(self, pk):
        """The link hands one packet to the library: one iteration of the real dispatcher thread body."""
        self.link.rx.append(pk)
        r = step(self.incoming)
        assert r == 'yield', 'dispatcher thread ended'


class MissCache:
    """TocCache stand-in: always a miss; records insertions."""
    def __init__(self, hit=None):
        self.hit = hit
        self.fetched = []
        self.inserted = []

    def fetch(self, crc):
        self.fetched.append(crc)
        return self.hit

    def insert(self, crc, toc):
        self.inserted.append((crc, toc))


def packet(port, chan, data):
    pk = CRTPPacket()
    pk.set_header(port, chan)
    pk.data = list(data)
    return pk


def clone(pk):
    return packet(pk.port, pk.channel, list(pk.data))


# ------------------------------------------------------------------ device side of the TOC protocol
class ProtocolError(AssertionError):
    """The library sent something a device cannot answer usefully (malformed or out-of-range request)."""


class Entry:
    """One variable of a device table. type_byte is what the firmware puts on the wire; group/name are lists of
    non-NUL bytes (C strings without terminator); persistent only matters for parameters with the extended bit."""
    def __init__(self, type_byte, group, name, persistent=False):
        self.type_byte = type_byte
        self.group = list(group)
        self.name = list(name)
        self.persistent = persistent


class TocDevice:
    """Answers the requests of the CRTP TOC service on `port` (5 log, 2 param) the way the firmware does:

      V1 info  [1]            -> [1, n, crc(4 LE)] (+ max_packets, max_ops on the log port)
      V1 item  [0, i]         -> [0, i, type, group.., 0, name.., 0]
      V2 info  [3]            -> [3, n lo, n hi, crc(4 LE)] (+ 2 bytes on the log port)
      V2 item  [2, lo, hi]    -> [2, lo, hi, type, group.., 0, name.., 0]
      log settings  [5]       -> [5, 0, 0]                       (reset, status 0)
      param misc [2, lo, hi]  -> [2, lo, hi, extended_type]      (bit 0: persistent)
    """
    def __init__(self, port, table, crc=0x1234ABCD):
        self.port = port
        self.table = table
        self.crc = crc
        self.requests = []       # decoded requests, in order

    def _crc_bytes(self):
        c = self.crc
        return [c % 256, (c // 256) % 256, (c // 65536) % 256, (c // 16777216) % 256]

    def info_reply(self, v2, n=None):
        if n is None:
            n = len(self.table)
        extra = [16, 128] if self.port == PORT_LOG else []
        if v2:
            return packet(self.port, CHAN_TOC, [V2_INFO, n % 256, n // 256] + self._crc_bytes() + extra)
        return packet(self.port, CHAN_TOC, [V1_INFO, n] + self._crc_bytes() + extra)

    def item_reply(self, v2, index, entry=None):
        e = entry if entry is not None else self.table[index]
        body = [e.type_byte] + e.group + [0] + e.name + [0]
        if v2:
            return packet(self.port, CHAN_TOC, [V2_ITEM, index % 256, index // 256] + body)
        return packet(self.port, CHAN_TOC, [V1_ITEM, index] + body)

    def ext_reply(self, ident, persistent):
        return packet(PORT_PARAM, CHAN_PARAM_MISC,
                      [PARAM_MISC_GET_EXTENDED_TYPE, ident % 256, ident // 256, 1 if persistent else 0])

    def answer(self, pk):
        """Reply packet for a request the library sent (concrete request bytes)."""
        if pk.port != self.port:
            raise ProtocolError('request on a foreign port')
        d = list(pk.data)
        if len(d) > 30:
            raise ProtocolError('oversized request')
        n = len(self.table)
        if pk.channel == CHAN_TOC:
            if d == [V1_INFO]:
                if n > 255:
                    raise ProtocolError('legacy generation cannot describe more than 255 entries')
                self.requests.append(('info', 1))
                return self.info_reply(False)
            if d == [V2_INFO]:
                self.requests.append(('info', 2))
                return self.info_reply(True)
            if len(d) == 2 and d[0] == V1_ITEM:
                if not d[1] < n:
                    raise ProtocolError('item request beyond the table')
                self.requests.append(('item', 1, d[1]))
                return self.item_reply(False, d[1])
            if len(d) == 3 and d[0] == V2_ITEM:
                i = d[1] + 256 * d[2]
                if not i < n:
                    raise ProtocolError('item request beyond the table')
                self.requests.append(('item', 2, i))
                return self.item_reply(True, i)
            raise ProtocolError('malformed TOC request')
        if self.port == PORT_LOG and pk.channel == CHAN_LOG_SETTINGS and d == [LOG_CMD_RESET]:
            self.requests.append(('reset',))
            return packet(PORT_LOG, CHAN_LOG_SETTINGS, [LOG_CMD_RESET, 0, 0])
        if self.port == PORT_PARAM and pk.channel == CHAN_PARAM_MISC and len(d) == 3 and d[0] == PARAM_MISC_GET_EXTENDED_TYPE:
            i = d[1] + 256 * d[2]
            if not i < n:
                raise ProtocolError('extended type request beyond the table')
            self.requests.append(('ext', i))
            e = self.table[i]
            return self.ext_reply(i, e.persistent)
        raise ProtocolError('request the TOC device model does not know')
