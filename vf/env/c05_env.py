"""Environment for C05 (log blocks): a Crazyflie stand-in that owns the REAL cflib.crazyflie.log.Log, a TOC installed
through the real reset handshake, and the device (firmware) side of CRTP port 5 written from the protocol.

Reference side only; the code under test is the real cflib.crazyflie.log / cflib.crazyflie.syncLogger.

* LogCF            MiniCF + `disconnected` Caller + `log = Log(cf)`; deliver(pk) hands a packet to the port callbacks the way
                   _IncomingPacketHandler does (registration order, port match).
* connect()        runs the real Log.refresh_toc -> RESET packet -> reset ack -> real _new_packet_cb (clears log_blocks, creates
                   the Toc); the TOC *download* (property C03) is replaced by StubTocFetcher, which installs the given
                   entries at once.
* GuardedQueue     the real queue.Queue inside cflib.crazyflie.syncLogger, except that a get() that would block for ever raises
                   WouldBlock (the harness is a single task) instead of hanging the check.
* fw_*             firmware-side parsers of the settings channel (create/append V1/V2, start/stop/delete).
* type table       log type ids, C names and byte sizes as the firmware defines them (log.h: LOG_UINT8=1 .. LOG_FP16=8).

Nothing here imports the tables of cflib.crazyflie.log (LogTocElement.types) - the oracle has its own."""
import queue as _queue

import z3
from crosshair.tracers import NoTracing

import cflib.crazyflie.log as logmod
import cflib.crazyflie.syncLogger as slmod
from cflib.crazyflie.log import Log, LogTocElement
from cflib.crtp.crtpstack import CRTPPacket
from cflib.utils.callbacks import Caller
from vf.env.base import MiniCF, FakeLink

PORT_LOG = 5
CHAN_TOC, CHAN_SETTINGS, CHAN_LOGDATA = 0, 1, 2
# settings-channel commands (firmware log.c)
CREATE_V1, APPEND_V1, DELETE, START, STOP, RESET, CREATE_V2, APPEND_V2 = range(8)
# status codes the firmware's log service returns (newlib errno numbers)
OK, ENOENT, E2BIG, ENOEXEC, ENOMEM, EEXIST = 0, 2, 7, 8, 12, 17
MAX_CRTP_DATA = 30
MAX_LOG_PAYLOAD = 26          # 30 - block id - 3 timestamp bytes

# firmware type table: index = type id - 1 -> (C name, type id, size in bytes, signed int?, float kind)
FW_TYPES = [('uint8_t', 1, 1, False, None), ('uint16_t', 2, 2, False, None), ('uint32_t', 3, 4, False, None),
            ('int8_t', 4, 1, True, None), ('int16_t', 5, 2, True, None), ('int32_t', 6, 4, True, None),
            ('float', 7, 4, None, '<f'), ('FP16', 8, 2, None, '<e')]
FW_BY_ID = {t[1]: t for t in FW_TYPES}


class StubTocFetcher:
    """Stands in for cflib.crazyflie.toc.TocFetcher inside cflib.crazyflie.log: the table is installed immediately."""
    def __init__(self, crazyflie, element_class, port, toc_holder, finished_callback, toc_cache):
        self.cf, self.toc, self.finished_callback = crazyflie, toc_holder, finished_callback
        assert element_class is LogTocElement and port == PORT_LOG

    def start(self):
        for el in self.cf.toc_entries:
            self.toc.add_element(el)
        if self.finished_callback is not None:
            self.finished_callback()


logmod.TocFetcher = StubTocFetcher


class WouldBlock(Exception):
    """A blocking Queue.get on an empty queue: the (single) task would wait for ever."""


class GuardedQueue(_queue.Queue):
    """The real queue.Queue; only a get() that would block for ever is turned into an error instead of a hang."""
    def get(self, block=True, timeout=None):
        if block and timeout is None and self.qsize() == 0:
            raise WouldBlock('Queue.get() on an empty queue')
        return super().get(block, timeout)


slmod.Queue = GuardedQueue


class LogCF(MiniCF):
    def __init__(self, version=10):
        super().__init__(version)
        self.disconnected = Caller()
        self.toc_entries = []
        self.link_uri = 'fake://0'
        self.dispatch_errors = []
        self.log = Log(self)

    def deliver(self, pk):
        """As _IncomingPacketHandler.run does for port callbacks; exceptions propagate to the harness."""
        for port, cb in list(self.port_cbs):
            if port == pk.port:
                cb(pk)

    def drain(self):
        """Packets the host sent since the last drain, as (port, channel, [data bytes])."""
        out = [(pk.port, pk.channel, list(pk.data)) for pk in self.link.sent]
        del self.link.sent[:]
        return out


def toc_element(ident, group, name, type_id):
    """A LogTocElement built by the real constructor from the bytes of a TOC item reply (type, group\\0name\\0)."""
    data = bytearray([type_id]) + group.encode() + b'\0' + name.encode() + b'\0'
    return LogTocElement(ident, data)


def packet(chan, data):
    pk = CRTPPacket()
    pk.set_header(PORT_LOG, chan)
    pk.data = list(data)
    return pk


def connect(cf, entries, refreshed=None):
    """(Re)connect: new link, real refresh_toc, device acks the reset. Returns nothing; cf.log.toc holds `entries`."""
    cf.link = FakeLink()
    cf.toc_entries = list(entries)
    cf.log.refresh_toc(refreshed, None)
    sent = cf.drain()
    assert sent == [(PORT_LOG, CHAN_SETTINGS, [RESET])], ('reset request', sent)
    cf.deliver(packet(CHAN_SETTINGS, [RESET, 0, 0]))       # firmware echoes cmd, then id byte and status 0
    assert cf.log.toc is not None
    assert cf.drain() == []


def disconnect(cf):
    """Link lost / closed: as Crazyflie.close_link and _link_error_cb do (link dropped, then `disconnected` fired)."""
    cf.link = None
    cf.disconnected.call(cf.link_uri)


def assume_distinct(sym, xs):
    """Pairwise distinct values as ONE solver assumption (no fork)."""
    if len(xs) < 2:
        return
    if sym.symbolic:
        with NoTracing():
            sym.space.add(z3.Distinct(*[x.var for x in xs]))
    else:
        sym.assume(len(set(xs)) == len(xs))


# ------------------------------------------------------------------ firmware side of the settings channel
def fw_records(data, v2, kinds=None, done=0):
    """Records of one create/append message as the firmware reads them: after [cmd, block id] the payload is an array of
    packed structs; the count is the remaining length divided by the struct size with INTEGER division, so a trailing
    partial struct is ignored.  V2 TOC record: logType, id (uint16 LE).  V1 TOC record: logType, id (uint8).
    Raw-memory record (as cflib documents it): logType, address (uint32 LE); `kinds[done + k]` tells which of the two the
    k-th record of this message is (the wire format cflib emits carries no marker; all-TOC when kinds is None)."""
    body = data[2:]
    out = []
    pos = 0
    while True:
        mem = kinds is not None and done + len(out) < len(kinds) and kinds[done + len(out)]
        need = 5 if mem else (3 if v2 else 2)
        if len(body) - pos < need:
            break
        if mem:
            out.append(('mem', body[pos], body[pos + 1] + (body[pos + 2] << 8) + (body[pos + 3] << 16) + (body[pos + 4] << 24)))
        elif v2:
            out.append(('toc', body[pos], body[pos + 1] + (body[pos + 2] << 8)))
        else:
            out.append(('toc', body[pos], body[pos + 1]))
        pos += need
    return out


def fw_block_messages(msgs, v2, kinds=None):
    """The firmware's view of a create sequence: first message CREATE, the rest APPEND, all for one block id, each within
    the CRTP limit. Returns (block id, [records])."""
    assert len(msgs) >= 1, 'no create message'
    create, append = (CREATE_V2, APPEND_V2) if v2 else (CREATE_V1, APPEND_V1)
    recs = []
    bid = None
    for k, (port, chan, data) in enumerate(msgs):
        assert (port, chan) == (PORT_LOG, CHAN_SETTINGS), ('not on the log settings channel', port, chan)
        assert 2 <= len(data) <= MAX_CRTP_DATA, ('message length', len(data))
        assert data[0] == (create if k == 0 else append), ('command of message', k, data[0])
        if k == 0:
            bid = data[1]
        assert data[1] == bid, 'append for another block id'
        recs += fw_records(data, v2, kinds, len(recs))
    return bid, recs


# ------------------------------------------------------------------ device side of the data channel
def le(bs):
    v = 0
    for k, b in enumerate(bs):
        v = v + (b << (8 * k))
    return v


def ref_int(bs, signed):
    """Value of a little-endian (two's complement) integer, written arithmetically (no struct)."""
    u = le(bs)
    if signed:
        n = 8 * len(bs)
        u = u - (1 << n) * (bs[-1] >> 7)
    return u
