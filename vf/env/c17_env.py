"""Environment for C17 (flight helpers): virtual clock, setpoint thread run as a task, recording commanders.

Nothing here knows how MotionCommander / PositionHlCommander compute anything.  The stubs are

* `Clock`       replaces the name `time` inside cflib.positioning.motion_commander / position_hl_commander.
                `time()` is the virtual instant, `sleep(d)` refuses d < 0 exactly as time.sleep does, lets every live
                setpoint task run up to now+d and then moves the instant to now+d.  The commanding code itself takes no
                virtual time.  Instants are `VT` objects: the value the code sees (a symbolic real: start instant + the
                durations slept) plus a shadow (number of the last symbolic addition, exact decimal offset since then) that
                decides `deadline <= end of sleep` without the solver whenever the two instants differ by a known amount.
* `FakeQueue`   replaces the name `Queue` inside motion_commander (the setpoint thread creates its queue through it).
                `get(timeout=p)` on an empty queue either times out (virtual instant := the deadline of this wait, raises
                queue.Empty) when the deadline lies inside the current sleep of the commanding task, or leaves the thread
                body through `Yield`.  The deadline of an interrupted wait is kept: a wait never lasts longer than p.
                `put` wakes the task at once when the schedule is 'eager' (the thread gets the processor as soon as it is
                notified); with 'lazy' the task only runs when the commanding task blocks (sleep / join), i.e. the commanding
                thread keeps the processor after put() -- the two schedules differ in what land() reads through get_height().
* threading.Thread.start/join/is_alive: start registers the task with the clock (no OS thread), join runs it until its
                body returns.
* `RecCommander`, `RecHL`, `CF`: recording commander / high-level commander / Crazyflie stand-ins; every call is logged with
                the virtual instant.
"""
import queue
import threading
from fractions import Fraction

from crosshair.tracers import NoTracing, is_tracing
from crosshair.util import CrossHairValue

from vf.explore import Yield, Inconclusive


def _install_sqrt_lemma():
    """math.sqrt on exact reals is modelled by vf/plugins/mathfn.py as a fresh r >= 0 with r*r == x.  When x is syntactically
    a single square t*t (the distance of a one-axis move, the descent in land()) we add the *implied* fact r == |t|:
    it cannot change satisfiability, it only spares the solver the non-linear reasoning."""
    import math
    import z3
    from crosshair.core import _PATCH_REGISTRATIONS
    from crosshair.libimpl.builtinslib import RealBasedSymbolicFloat
    from crosshair.statespace import context_statespace
    plug = _PATCH_REGISTRATIONS[math.sqrt]
    if getattr(plug, '_c17_lemma', False):
        return

    def _sq(e):
        while z3.is_add(e):
            rest = [c for c in e.children() if not (z3.is_rational_value(c) and c.numerator_as_long() == 0)]
            if len(rest) != 1:
                return None
            e = rest[0]
        if z3.is_app_of(e, z3.Z3_OP_POWER) and z3.is_rational_value(e.arg(1)) and e.arg(1).numerator_as_long() == 2 \
                and e.arg(1).denominator_as_long() == 1:
            return e.arg(0)
        if z3.is_mul(e) and e.num_args() == 2 and z3.eq(e.arg(0), e.arg(1)):
            return e.arg(0)
        return None

    def sqrt(x):
        r = plug(x)
        with NoTracing():
            if isinstance(x, RealBasedSymbolicFloat) and isinstance(r, RealBasedSymbolicFloat):
                t = _sq(x.var)
                if t is None:
                    t = _sq(z3.simplify(x.var))
                if t is not None:
                    context_statespace().add(r.var == z3.If(t >= 0, t, -t))
        return r
    sqrt._c17_lemma = True
    _PATCH_REGISTRATIONS[math.sqrt] = sqrt


_install_sqrt_lemma()


def is_sym(x):
    if not is_tracing():
        return False
    with NoTracing():
        return isinstance(x, CrossHairValue)


class VT:
    """A virtual instant: `val` is what the code under test sees; (`base`, `off`) is a shadow used only to decide the order
    of two instants without the solver when they differ by a known amount: val == <instant number base> + off, where off is
    the exact decimal value (the value the real-number model gives a python float literal)."""
    _bases = [0]

    def __init__(self, val, base, off):
        self.val, self.base, self.off = val, base, off

    def plus(self, d):
        if is_sym(d):
            VT._bases[0] += 1
            return VT(self.val + d, VT._bases[0], Fraction(0))
        return VT(self.val + d, self.base, self.off + (Fraction(d) if isinstance(d, int) else Fraction(repr(float(d)))))

    def le(self, other):
        if self.base == other.base:
            return self.off <= other.off
        return self.val <= other.val


class Clock:
    def __init__(self, start=0.0, sched='eager', max_ticks=40):
        self.t = VT(start, 0, Fraction(0))
        self.t_end = self.t       # end of the current sleep of the commanding task
        self.sched = sched
        self.tasks = []           # started, not yet finished setpoint tasks
        self.finished = []
        self.ticks = 0
        self.max_ticks = max_ticks
        self.sleeps = []          # durations asked for (for goals)
        self.running = False
        self.queues = []          # every FakeQueue created through the stub, newest last

    # ---- the `time` module as seen by the code under test
    @property
    def now(self):
        return self.t.val

    def time(self):
        return self.t.val

    def sleep(self, d):
        if d < 0:
            raise ValueError('sleep length must be non-negative')
        self.sleeps.append(d)
        end = self.t.plus(d)
        self.run_tasks(end)
        self.t = end

    # ---- tasks
    def run_tasks(self, end):
        self.t_end = end
        for th in list(self.tasks):
            self.run_task(th)

    def run_task(self, th):
        assert not self.running, 'setpoint task re-entered'
        self.running = True
        try:
            th.run()
        except Yield:
            return False
        finally:
            self.running = False
        self.tasks.remove(th)
        self.finished.append(th)
        th._vf_dead = True
        return True

    def on_start(self, th):
        th._vf_started = True
        self.tasks.append(th)

    def on_join(self, th):
        if th in self.tasks:
            self.t_end = self.t
            if not self.run_task(th):
                raise Inconclusive('join() on a task that does not terminate: would block forever')

    def on_put(self, q):
        if self.sched == 'eager' and not self.running:
            self.t_end = self.t
            for th in list(self.tasks):
                self.run_task(th)


class FakeQueue:
    def __init__(self, clock):
        self.clock = clock
        self.items = []
        self.deadline = None
        self.nput = 0
        self.ngot = 0
        self.taken = []           # (instant, item) in the order the task dequeued them
        clock.queues.append(self)

    def put(self, item, block=True, timeout=None):
        self.items.append(item)
        self.nput += 1
        self.clock.on_put(self)

    def get(self, block=True, timeout=None):
        c = self.clock
        if self.items:
            self.deadline = None
            self.ngot += 1
            it = self.items.pop(0)
            self.taken.append((c.now, it))
            return it
        if timeout is None:
            raise Yield()
        if self.deadline is None:
            self.deadline = c.t.plus(timeout)
        if self.deadline.le(c.t_end):
            c.t = self.deadline
            self.deadline = None
            c.ticks += 1
            if c.ticks > c.max_ticks:
                raise Inconclusive('more setpoint-task periods than the bound of the harness')
            raise queue.Empty()
        raise Yield()

    def empty(self):
        return not self.items

    def qsize(self):
        return len(self.items)


_CURRENT = [None]


def _start(self):
    c = _CURRENT[0]
    if c is None:
        self._vf_started = True
    else:
        c.on_start(self)


def _join(self, timeout=None):
    c = _CURRENT[0]
    if c is not None:
        c.on_join(self)


def _is_alive(self):
    return getattr(self, '_vf_started', False) and not getattr(self, '_vf_dead', False)


def install(clock, modules):
    """Route Thread.start/join to `clock` and put the clock / queue stubs into the namespaces of `modules`."""
    _CURRENT[0] = clock
    threading.Thread.start = _start
    threading.Thread.join = _join
    threading.Thread.is_alive = _is_alive
    for m in modules:
        m.time = clock
        if hasattr(m, 'Queue'):
            m.Queue = lambda: FakeQueue(clock)


class RecCommander:
    """cf.commander: logs (name, instant, args, number of events the setpoint task had dequeued so far)."""
    def __init__(self, clock):
        self.clock = clock
        self.log = []

    def _n(self):
        return self.clock.queues[-1].ngot if self.clock.queues else None

    def send_hover_setpoint(self, vx, vy, yawrate, zdistance):
        self.log.append(('hover', self.clock.now, (vx, vy, yawrate, zdistance), self._n()))

    def send_stop_setpoint(self):
        self.log.append(('stop', self.clock.now, (), None))

    def send_notify_setpoint_stop(self, remain_valid_milliseconds=0):
        self.log.append(('notify', self.clock.now, (remain_valid_milliseconds,), None))

    def __getattr__(self, name):
        if name.startswith('send_') or name.startswith('set_'):
            def other(*a, **k):
                self.log.append((name, self.clock.now, a, None))
            return other
        raise AttributeError(name)


class RecHL:
    """cf.high_level_commander"""
    def __init__(self, clock):
        self.clock = clock
        self.log = []

    def takeoff(self, absolute_height_m, duration_s, group_mask=0, yaw=0.0):
        self.log.append(('takeoff', self.clock.now, (absolute_height_m, duration_s, group_mask, yaw)))

    def land(self, absolute_height_m, duration_s, group_mask=0, yaw=0.0):
        self.log.append(('land', self.clock.now, (absolute_height_m, duration_s, group_mask, yaw)))

    def go_to(self, x, y, z, yaw, duration_s, relative=False, linear=False, group_mask=0):
        self.log.append(('go_to', self.clock.now, (x, y, z, yaw, duration_s, relative, linear, group_mask)))

    def stop(self, group_mask=0):
        self.log.append(('stop', self.clock.now, (group_mask,)))

    def __getattr__(self, name):
        if name.startswith('_'):
            raise AttributeError(name)

        def other(*a, **k):
            self.log.append((name, self.clock.now, a))
        return other


class _Param:
    def __init__(self, clock):
        self.clock = clock
        self.log = []

    def set_value(self, name, value):
        self.log.append((self.clock.now, name, value))


class CF:
    def __init__(self, clock, connected=True):
        self.commander = RecCommander(clock)
        self.high_level_commander = RecHL(clock)
        self.param = _Param(clock)
        self._connected = connected

    def is_connected(self):
        return self._connected
