"""Environment for C06 (memory subsystem): recording FakeLock, device memory model, reply network, log-text patch.

Everything here is reference/stub side (DESIGN §1.4/§1.5); the code under test is the real cflib.crazyflie.mem.

* FakeLock / LockTable      stand-in for threading.Lock in the namespace of cflib.crazyflie.mem.  The harness is one task, so
                            acquire() on a held lock is a self-deadlock (the real incoming thread would hang for ever): it raises
                            SelfDeadlock.  The table knows every lock created and which are still held.
* MemDevice                 the device side of CRTP port 4 (memory): byte-array image per memory, answers read/write/info requests
                            the way the firmware does, checks the protocol limits of every request it receives.
* Net                       replies in flight.  A reply may exist in two copies; the second copy may be held back behind the next
                            reply.  deliver() mimics _IncomingPacketHandler.run: exceptions raised by the port callback are
                            swallowed (and recorded) exactly as the real dispatcher does.
* log-text patch            cflib formats its debug text eagerly ('0x{:X}'.format(addr)); stock CrossHair realises the number.  The
                            text only ever goes to the (disabled) logger, so str.format with a symbolic argument returns an opaque
                            non-str object: any other use of it raises TypeError (fails loudly instead of silently concretising).
"""
import operator
import struct

from crosshair.core import _PATCH_REGISTRATIONS
from crosshair.tracers import NoTracing

from vf.env.base import MiniCF
from cflib.crtp.crtpstack import CRTPPacket
from cflib.utils.callbacks import Caller

PORT_MEM = 4
CH_INFO, CH_READ, CH_WRITE = 0, 1, 2
CMD_INFO_NBR, CMD_INFO_DETAILS = 1, 2
MAX_CRTP_DATA = 30
MAX_READ_REPLY_DATA = MAX_CRTP_DATA - 6      # id, addr32, status, then data
MAX_WRITE_DATA = MAX_CRTP_DATA - 5           # id, addr32, then data


# ------------------------------------------------------------------ log text
class LogOnlyText:
    """Result of str.format over symbolic values. Deliberately not a str."""
    def __repr__(self):
        return '<text formatted from symbolic values (log only)>'


def _has_sym(x, depth=0):
    if type(x).__module__.startswith('crosshair'):
        return True
    if depth < 3 and type(x) in (tuple, list):
        return any(_has_sym(y, depth + 1) for y in x)
    return False


_stock_str_format = _PATCH_REGISTRATIONS[str.format]


def _vf_str_format(self, /, *a, **kw):
    with NoTracing():
        if type(self) is str and (any(_has_sym(x) for x in a) or any(_has_sym(x) for x in kw.values())):
            return LogOnlyText()
    return _stock_str_format(self, *a, **kw)


if not getattr(_stock_str_format, '_vf_c06', False):
    _vf_str_format._vf_c06 = True
    _PATCH_REGISTRATIONS[str.format] = _vf_str_format


# ------------------------------------------------------------------ struct.unpack('', b'')
# CrossHair's struct model (structlib._parse_format, used by vf.plugins.structfp for symbolic buffers) rejects the empty
# format, CPython accepts it: struct.unpack('B' * 0, payload[5:]) is what Memory._handle_chan_read does for a reply without data.
_plugin_unpack = _PATCH_REGISTRATIONS[struct.unpack]


def _vf_unpack(fmt, buffer, /):
    with NoTracing():
        empty = type(fmt) is str and fmt.strip() in ('', '<', '>', '=', '@', '!')
    if empty:
        if len(buffer) != 0:
            raise struct.error('unpack requires a buffer of 0 bytes')
        return ()
    res = _plugin_unpack(fmt, buffer)
    _u32_lemmas(fmt, buffer, res)
    return res


# ---- round-trip lemma for unsigned 8/16/32-bit fields (B, H, I).  struct.pack('<I', x) yields the byte terms (x div 256^i) mod 256 and
# struct.unpack('<I', ...) rebuilds S = ((b3*256+b2)*256+b1)*256+b0.  Every comparison of S with an address then needs
# div/mod reasoning (measured 0.1-0.5 s per query once the path condition holds a few dozen variables).  When the four bytes
# handed to unpack have, syntactically, the form (x div 256^i) mod 256 over one and the same term x, the valid fact
#     0 <= x < 2^32  ->  S = x
# is added to the path condition (a theorem of integer arithmetic, re-proved by z3 for a fresh x when this module is loaded;
# it restricts nothing).  Anything that does not match the pattern is left to the solver as before.
_SIZES = {'B': 1, 'b': 1, 'H': 2, 'h': 2, 'I': 4, 'i': 4}


def _uint_terms(x, size):
    bs = [(x / (2 ** (8 * i))) % 256 for i in range(size)]
    s = 0
    for b in reversed(bs):
        s = s * 256 + b
    return bs, s


def _prove_uint_theorems():
    import z3
    for size in (1, 2, 4):
        x = z3.Int('x')
        _, s = _uint_terms(x, size)
        sol = z3.Solver()
        sol.set('timeout', 60000)
        sol.add(x >= 0, x < 256 ** size, s != x)
        r = sol.check()
        if r != z3.unsat:
            raise RuntimeError(f'uint{8 * size} round-trip theorem not proved: {r}')


_prove_uint_theorems()


def _match_byte(v, i):
    """v == (x div 256^i) mod 256 syntactically -> x, else None."""
    import z3
    if not (z3.is_app(v) and v.decl().kind() == z3.Z3_OP_MOD and v.num_args() == 2):
        return None
    d, m = v.arg(0), v.arg(1)
    if not (z3.is_int_value(m) and m.as_long() == 256):
        return None
    if not (z3.is_app(d) and d.decl().kind() == z3.Z3_OP_IDIV and d.num_args() == 2):
        return None
    x, c = d.arg(0), d.arg(1)
    if not (z3.is_int_value(c) and c.as_long() == 256 ** i):
        return None
    return x


def _u32_lemmas(fmt, buffer, res):
    from crosshair.libimpl.builtinslib import SymbolicInt
    from crosshair.statespace import context_statespace
    from crosshair.tracers import ResumedTracing
    import z3
    with NoTracing():
        if type(fmt) is not str or not fmt or fmt[0] != '<' or any(ch not in _SIZES for ch in fmt[1:]):
            return
        off = 0
        for k, ch in enumerate(fmt[1:]):
            size = _SIZES[ch]
            if ch in 'BHI' and isinstance(res[k], SymbolicInt):
                with ResumedTracing():
                    bs = list(buffer[off:off + size])
                xs = [_match_byte(b.var, i) if isinstance(b, SymbolicInt) else None for i, b in enumerate(bs)]
                if len(xs) == size and xs[0] is not None and all(x is not None and x.eq(xs[0]) for x in xs):
                    x = xs[0]
                    context_statespace().add(z3.Implies(z3.And(x >= 0, x < 256 ** size), res[k].var == x))
            off += size


if not getattr(_plugin_unpack, '_vf_c06', False):
    _vf_unpack._vf_c06 = True
    _PATCH_REGISTRATIONS[struct.unpack] = _vf_unpack


# ------------------------------------------------------------------ failures raised by the environment
class EnvFailure(AssertionError):
    """A violation observed by the environment (never swallowed by the dispatcher stand-in)."""


class SelfDeadlock(EnvFailure):
    pass


class ProtocolViolation(EnvFailure):
    pass


def conc(x):
    """Concrete value of an int that the path condition determines uniquely (one solver query, no fork in that case)."""
    return operator.index(x)


# ------------------------------------------------------------------ locks
class FakeLock:
    def __init__(self, table, name):
        self.table = table
        self.name = name
        self.held = False
        self.acquisitions = 0

    def acquire(self, blocking=True, timeout=-1):
        if self.held:
            self.table.deadlocks.append(self.name)
            raise SelfDeadlock(f'{self.name}: acquire() while the lock is still held (left locked by an earlier call): '
                               f'the calling thread would block for ever')
        self.held = True
        self.acquisitions += 1
        return True

    def release(self):
        if not self.held:
            raise RuntimeError('release unlocked lock')
        self.held = False

    def locked(self):
        return self.held

    def __enter__(self):
        self.acquire()
        return True

    def __exit__(self, *a):
        self.release()
        return False


class LockTable:
    def __init__(self):
        self.locks = []
        self.deadlocks = []

    def make(self):
        lk = FakeLock(self, f'Lock#{len(self.locks)}')
        self.locks.append(lk)
        return lk

    def held(self):
        return [lk.name for lk in self.locks if lk.held]

    def install(self):
        """Replace `Lock` in the namespace of cflib.crazyflie.mem; returns the undo function."""
        import cflib.crazyflie.mem as memmod
        old = memmod.Lock
        memmod.Lock = self.make

        def undo():
            memmod.Lock = old
        return undo


# ------------------------------------------------------------------ Crazyflie stand-in
class MemCF(MiniCF):
    """MiniCF (real Crazyflie.send_packet) + the `disconnected` Caller; every packet sent reaches the device model."""
    def __init__(self):
        super().__init__(version=10, needs_resending=False)
        self.disconnected = Caller()
        self.device = None
        link = self.link

        def send_packet(pk):
            link.sent.append(pk)
            if self.device is not None:
                self.device.on_packet(pk)
        link.send_packet = send_packet

    def incoming(self, pk):
        """Dispatch like _IncomingPacketHandler: registered port callbacks whose port matches."""
        for port, cb in list(self.port_cbs):
            if port == pk.port:
                cb(pk)


# ------------------------------------------------------------------ device
class NoFaults:
    def for_request(self, kind):
        return 0, 1, 0


class MemDevice:
    """Device side of the memory port. `mems[id]` = dict(base, img, type, size): the image models device addresses
    [base, base+len(img)) of that memory; any access outside the window is reported (the harness puts the window around the
    ranges it asks for, so such an access touches bytes nobody asked for)."""

    def __init__(self, net, faults=None):
        self.net = net
        self.faults = faults or NoFaults()
        self.mems = {}
        self.order = []
        self.log = []          # (kind, id, offset, n) of every request served
        self.hints = []

    def add_memory(self, mem_id, base, img, mtype=0, size=None):
        self.mems[mem_id] = dict(base=base, img=list(img), type=mtype, size=len(img) if size is None else size)
        self.order.append(mem_id)

    def image(self, mem_id):
        return self.mems[mem_id]['img']

    def hint(self, off):
        """The harness announces where a range it is about to request starts (search order only)."""
        self.hints.insert(0, off)

    def _window(self, mem_id, a, n, what):
        """Offset of device address `a` in the image. The address comes back from the packet bytes as a div/mod term over the
        symbolic base; asking the solver for its value is slow (model search), so the candidates are tried one by one
        (`a == base + c`: one cheap query each, no fork when the path condition determines the address), likeliest first."""
        mem_id = conc(mem_id)
        if mem_id not in self.mems:
            raise ProtocolViolation(f'{what} addresses unknown memory id {mem_id}')
        m = self.mems[mem_id]
        W = len(m['img'])
        seen = set()
        for c in self.hints + list(range(W + 1)):
            if c in seen or c < 0 or c > W:
                continue
            seen.add(c)
            if a == m['base'] + c:
                if c + n > W:
                    break
                self.hints.insert(0, c + n)
                del self.hints[8:]
                return mem_id, m, c
        raise ProtocolViolation(f'{what} touches bytes outside every range the caller asked for ({n} bytes)')

    def on_packet(self, pk):
        hdr = conc(pk.header)
        if (hdr >> 4) != PORT_MEM:
            raise ProtocolViolation(f'packet for port {hdr >> 4} from the memory subsystem')
        chan = hdr & 3
        data = pk.data
        ln = len(data)
        if ln > MAX_CRTP_DATA:
            raise ProtocolViolation(f'{ln} data bytes in one CRTP packet')
        if chan == CH_READ:
            if ln != 6:
                raise ProtocolViolation(f'read request of {ln} bytes (id, addr32, len expected)')
            mid, a, n = struct.unpack('<BIB', data)
            n = conc(n)
            if n > MAX_READ_REPLY_DATA:
                raise ProtocolViolation(f'read request for {n} bytes: the reply does not fit in a CRTP packet')
            mid, m, off = self._window(mid, a, n, 'read request')
            self.log.append(('read', mid, off, n))
            status, copies, hold = self.faults.for_request('read')
            body = struct.pack('<BIB', mid, a, status)
            ok = bool(status == 0)
            if ok:
                body = body + bytes(m['img'][off:off + n])
            self._reply(CH_READ, body, copies, hold, mem=mid, err=not ok, off=off, n=n)
        elif chan == CH_WRITE:
            if ln < 5:
                raise ProtocolViolation(f'write request of {ln} bytes')
            mid, a = struct.unpack('<BI', data[:5])
            payload = list(data[5:])
            n = len(payload)
            mid, m, off = self._window(mid, a, n, 'write request')
            self.log.append(('write', mid, off, n))
            status, copies, hold = self.faults.for_request('write')
            ok = bool(status == 0)
            if ok:
                m['img'][off:off + n] = payload
            self._reply(CH_WRITE, struct.pack('<BIB', mid, a, status), copies, hold, mem=mid, err=not ok, off=off, n=n)
        else:
            cmd = conc(data[0])
            if cmd == CMD_INFO_NBR:
                self._reply(CH_INFO, bytes([CMD_INFO_NBR, len(self.order)]), 1, 0)
            elif cmd == CMD_INFO_DETAILS:
                idx = conc(data[1])
                if idx < len(self.order):
                    mid = self.order[idx]
                    m = self.mems[mid]
                    self._reply(CH_INFO, struct.pack('<BBBI', CMD_INFO_DETAILS, mid, m['type'], m['size']) + bytes(8), 1, 0)
                else:
                    self._reply(CH_INFO, bytes([CMD_INFO_DETAILS]), 1, 0)
            else:
                raise ProtocolViolation(f'unknown info command {cmd}')

    def _reply(self, chan, body, copies, hold, **meta):
        meta['chan'] = chan
        for c in range(copies):
            pk = CRTPPacket()
            pk.set_header(PORT_MEM, chan)
            pk.data = body
            self.net.push(pk, hold if c == 1 else 0, is_copy=(c == 1), meta=meta)


# ------------------------------------------------------------------ replies in flight
class Net:
    def __init__(self, cf):
        self.cf = cf
        self.q = []            # [hold, packet, is_copy, meta (shared by the copies of one reply), overtaken]
        self.delivered = 0
        self.swallowed = []    # exceptions raised by the port callback (the real dispatcher logs and goes on)

    def push(self, pk, hold=0, is_copy=False, meta=None):
        self.q.append([hold, pk, is_copy, meta if meta is not None else {}, False])

    def pending(self):
        return len(self.q)

    def drop_all(self):
        del self.q[:]

    def pop_next(self):
        """Next reply to arrive: the first one that is not held back (a held-back copy goes out once a later reply has
        overtaken it or nothing else is in flight). Returns (packet, is_copy, overtaken, meta)."""
        idx = 0
        for i, e in enumerate(self.q):
            if e[0] == 0:
                idx = i
                break
        for e in self.q[:idx]:
            e[0] -= 1
            e[4] = True
        hold, pk, is_copy, meta, overtaken = self.q.pop(idx)
        return pk, is_copy, overtaken, meta

    def deliver(self, pk):
        self.delivered += 1
        try:
            self.cf.incoming(pk)
        except EnvFailure:
            raise
        except Exception as e:           # noqa: BLE001  (CrossHair's own control flow derives from BaseException)
            if _must_propagate(e):
                raise
            self.swallowed.append(e)


def _must_propagate(e):
    with NoTracing():
        import z3
        from crosshair.util import NotDeterministic
        from vf.explore import Inconclusive
        if isinstance(e, (z3.Z3Exception, NotDeterministic, Inconclusive)):
            return True
        try:
            from crosshair.core import suspected_proxy_intolerance_exception
            if suspected_proxy_intolerance_exception(e):
                return True
        except ImportError:
            pass
        return False


def exc_names(excs):
    return [type(e).__name__ for e in excs]
