"""Environment stubs shared by harnesses (DESIGN §1.4). No OS thread is ever started."""
import logging
import threading

from vf.explore import Yield

logging.disable(logging.CRITICAL)

_started = set()
_orig = (threading.Thread.start, threading.Thread.is_alive, threading.Thread.join)


def patch_threads():
    """Thread.start only registers the object; is_alive/join consult the registry."""
    def start(self):
        _started.add(id(self))
        self._vf_started = True

    def is_alive(self):
        return getattr(self, '_vf_started', False) and not getattr(self, '_vf_dead', False)

    def join(self, timeout=None):
        return None
    threading.Thread.start = start
    threading.Thread.is_alive = is_alive
    threading.Thread.join = join



class FakeLink:
    """Recording link: send_packet appends; receive_packet pops from `rx` or leaves the thread body via Yield."""
    def __init__(self, needs_resending=False):
        self.needs_resending = needs_resending
        self.sent = []
        self.rx = []
        self.closed = False
        self.name = 'fake'

    def send_packet(self, pk):
        self.sent.append(pk)

    def receive_packet(self, wait=0):
        if not self.rx:
            raise Yield()
        return self.rx.pop(0)

    def close(self):
        self.closed = True


def step(thread):
    """Run one thread body until it blocks (Yield). Returns 'yield' or 'returned'; exceptions propagate."""
    try:
        thread.run()
    except Yield:
        return 'yield'
    return 'returned'


class _Platform:
    def __init__(self, version):
        self._v = version

    def get_protocol_version(self):
        return self._v


class MiniCF:
    """The slice of a Crazyflie that packet-emitting helpers use. send_packet is the REAL Crazyflie.send_packet
    (size check, lock, link) bound to this object; the link records what is sent."""
    def __init__(self, version=10, needs_resending=False):
        import threading
        from cflib.utils.callbacks import Caller
        self.link = FakeLink(needs_resending)
        self._send_lock = threading.Lock()
        self._answer_patterns = {}
        self.packet_sent = Caller()
        self.disconnected = Caller()
        self.connection_requested = Caller()
        self.platform = _Platform(version)
        self.port_cbs = []

    def send_packet(self, pk, expected_reply=(), resend=False, timeout=0.2):
        from cflib.crazyflie import Crazyflie
        return Crazyflie.send_packet(self, pk, expected_reply, resend, timeout)

    def add_port_callback(self, port, cb):
        self.port_cbs.append((port, cb))

    def remove_port_callback(self, port, cb):
        self.port_cbs.remove((port, cb))

    @property
    def sent(self):
        return self.link.sent
