"""Environment for C18 (CPX): scripted in-memory socket / serial port, stepped queue, fake lock, reference framing.

Everything here is harness side.  The names are put into the namespaces of the modules under test
(`cflib.cpx.queue`, `cflib.cpx.transports.socket/serial/Lock/print`, `cflib.crtp.serialdriver.list_ports`, ...) by
`install()`; /repo is not touched.  No OS thread is started: `CPXRouter.run` and `_CPXReceiveThread.run` are entered with
`step()` and leave through `Yield` raised by the blocking call they sit in (socket recv / serial read on an empty
stream, queue get on an empty queue)."""
import queue as _queue
import types

from vf.explore import Yield, Inconclusive

# ---------------------------------------------------------------- reference wire formats (spec side, not from cflib)
# CPX routing header (2 bytes):  byte0 = reserved<<7 | last<<6 | source<<3 | destination
#                                byte1 = version<<6 | function
# CPX over TCP (WiFi):           uint16 little-endian (length of routing header + payload), routing header, payload
# CPX over UART:                 0xFF, length (routing header + payload, 1..100), routing header, payload, XOR of all previous
#                                bytes; 0xFF 0x00 is the clear-to-send / sync frame
# CRTP in CPX:                   function CRTP(3), payload = CRTP header byte (port<<4 | link<<2 | channel) + CRTP data
TARGETS = {'STM32': 1, 'ESP32': 2, 'HOST': 3, 'GAP8': 4}
FUNCS = {'SYSTEM': 1, 'CONSOLE': 2, 'CRTP': 3, 'WIFI_CTRL': 4, 'APP': 5, 'TEST': 0x0E, 'BOOTLOADER': 0x0F}
VALID_TARGETS = (1, 2, 3, 4)
VALID_FUNCS = (1, 2, 3, 4, 5, 14, 15)


def ref_header(src, dst, func, last, version=0):
    return [(64 if last else 0) + src * 8 + dst, version * 64 + func]


def ref_tcp_frame(src, dst, func, last, payload, version=0):
    n = len(payload) + 2
    return [n % 256, n // 256] + ref_header(src, dst, func, last, version) + list(payload)


def ref_uart_frame(src, dst, func, last, payload, version=0):
    body = [0xFF, len(payload) + 2] + ref_header(src, dst, func, last, version) + list(payload)
    x = 0
    for b in body:
        x = x ^ b
    return body + [x]


# ---------------------------------------------------------------- socket
class FakeSocket:
    """Blocking stream socket.  `rx` is the byte stream the peer has sent; recv(n) returns between 1 and
    min(n, pending) bytes, the number being chosen by `cut(max)` (a solver variable, see Cutter).  recv on an empty
    stream would block: the thread body is left through Yield."""
    def __init__(self):
        self.sent = []          # one entry per send() call
        self.rx = []            # stream bytes (ints, possibly symbolic)
        self.pos = 0
        self.cut = lambda m: m
        self.reads = []         # (offset, bytes requested, bytes returned)
        self.addr = None
        self.closed = False

    def connect(self, addr):
        self.addr = addr

    def send(self, data):
        self.sent.append(data)
        return len(data)

    sendall = send

    def feed(self, data):
        self.rx.extend(data)

    def pending(self):
        return len(self.rx) - self.pos

    def recv(self, n):
        avail = len(self.rx) - self.pos
        if avail <= 0:
            raise Yield()
        if n <= 0:
            return bytearray()
        m = n if n < avail else avail
        k = self.cut(m)
        out = bytearray(self.rx[self.pos:self.pos + k])
        self.reads.append((self.pos, n, k))
        self.pos += k
        return out

    def shutdown(self, how):
        pass

    def close(self):
        self.closed = True


class Cutter:
    """Chooses how many bytes a recv returns: a fresh solver variable `cut<i>` in 1..max per call, forked into its
    concrete value (the slice needs a concrete bound).  With `budget` set, at most that many short reads happen on a
    path (afterwards every recv is served in full)."""
    def __init__(self, sym, budget=None, prefix='cut'):
        self.sym, self.budget, self.n, self.prefix = sym, budget, 0, prefix
        self.short = 0

    def __call__(self, m):
        if m == 1 or (self.budget is not None and self.short >= self.budget):
            return m
        v = self.sym.int(f'{self.prefix}{self.n}', 1, m)
        self.n += 1
        for k in range(m, 1, -1):
            if v == k:
                if k < m:
                    self.short += 1
                return k
        self.short += 1
        return 1


class FakeSocketModule:
    """Stands in for the `socket` module inside cflib.cpx.transports."""
    AF_INET, SOCK_STREAM, SHUT_WR = 2, 1, 1

    def __init__(self):
        self.created = []

    def socket(self, *a):
        s = FakeSocket()
        self.created.append(s)
        return s


# ---------------------------------------------------------------- serial
class FakeSerial:
    """pyserial port opened with timeout=None: read(n) returns exactly n bytes (blocks until they are there).
    A read on an empty stream leaves the thread body through Yield; the harness feeds complete frames only, so a
    stream that runs dry in the middle of a frame means the code under test asked for more than the frame holds."""
    def __init__(self, device=None, baudrate=None, timeout=None):
        self.device, self.baudrate, self.timeout = device, baudrate, timeout
        self.rx = list(FakeSerialModule.preload)
        self.pos = 0
        self.written = []       # one entry per write()
        self.closed = False

    def feed(self, data):
        self.rx.extend(data)

    def pending(self):
        return len(self.rx) - self.pos

    def read(self, n=1):
        avail = len(self.rx) - self.pos
        if avail <= 0:
            raise Yield()
        if n > avail:
            raise RanDry(f'serial read of {n} bytes with {avail} pending')
        out = bytes(self.rx[self.pos:self.pos + n])
        self.pos += n
        return out

    def write(self, data):
        d = list(data)
        self.written.append(d)
        if FakeSerialModule.on_write is not None:
            FakeSerialModule.on_write(self, d)
        return len(d)

    def close(self):
        self.closed = True


class RanDry(Exception):
    """The code under test read past the end of the frames that were fed."""


class FakeSerialModule:
    preload = (0xFF, 0x00)      # the peer's sync frame, waiting when the port is opened
    on_write = None             # peer model: called as on_write(port, bytes) for every write of the host

    def __init__(self):
        self.created = []

    def Serial(self, *a, **k):
        s = FakeSerial(*a, **k)
        self.created.append(s)
        return s


class _Port:
    def __init__(self, name, device):
        self.name, self.device = name, device


class FakeListPorts:
    def comports(self):
        return [_Port('ttyFAKE0', '/dev/ttyFAKE0')]


# ---------------------------------------------------------------- lock and queue
class FakeLock:
    """threading.Lock for a world without OS threads: acquire() on a held lock lets the other tasks run
    (`FakeLock.scheduler`, set by the harness) and raises Inconclusive if the lock is still held afterwards."""
    scheduler = None

    def __init__(self):
        self.held = False
        self.acquired = 0

    def acquire(self, blocking=True, timeout=-1):
        if self.held and FakeLock.scheduler is not None:
            FakeLock.scheduler()
        if self.held:
            if not blocking:
                return False
            raise Inconclusive('acquire of a held lock with no task able to release it (deadlock in the model)')
        self.held = True
        self.acquired += 1
        return True

    def release(self):
        if not self.held:
            raise RuntimeError('release unlocked lock')
        self.held = False

    def locked(self):
        return self.held

    __enter__ = acquire

    def __exit__(self, *a):
        self.release()


class SteppedQueue(_queue.Queue):
    """The real queue.Queue (storage, order, put are the library's); only waiting on an empty queue is replaced:
    a blocking get that would wait leaves the thread body through Yield."""
    expire = False       # set by a harness around ONE call: a timed wait on an empty queue runs out (time passes, nothing arrives)

    def get(self, block=True, timeout=None):
        if self.empty():
            if block and timeout is not None and SteppedQueue.expire:
                raise _queue.Empty
            if block:
                raise Yield()
            raise _queue.Empty
        return _queue.Queue.get(self, False)


def _silent(*a, **k):
    return None


SOCKET = FakeSocketModule()
SERIAL = FakeSerialModule()


def _fix_empty_struct_format():
    """CrossHair's struct model (and the vf plugin on top of it) rejects the empty format string, which CPython accepts
    (`struct.unpack('B' * 0, b'')` in the drivers for a CRTP packet without data).  Symbolic mode only."""
    import struct
    from crosshair.core import _PATCH_REGISTRATIONS
    orig = _PATCH_REGISTRATIONS.get(struct.unpack)
    if orig is None or getattr(orig, '_c18_wrapped', False):
        return

    def unpack(fmt, buffer, /):
        if type(fmt) is str and len(fmt) == 0:
            if len(buffer) != 0:
                raise struct.error('unpack requires a buffer of 0 bytes')
            return ()
        return orig(fmt, buffer)
    unpack._c18_wrapped = True
    _PATCH_REGISTRATIONS[struct.unpack] = unpack


def _keep_ord_of_bytes_symbolic():
    """Stock CrossHair realises ord(<bytes of length 1>) (value enumeration of the UART checksum byte in
    UARTTransport.readPacket); ord(b) == b[0] for a bytes-like of length 1.  Symbolic mode only."""
    from crosshair.core import _PATCH_REGISTRATIONS
    from crosshair.core import realize
    from crosshair.libimpl.builtinslib import SymbolicBytes, SymbolicByteArray, LazyIntSymbolicStr
    from crosshair.tracers import NoTracing
    orig = _PATCH_REGISTRATIONS.get(ord)
    if orig is None or getattr(orig, '_c18_wrapped', False):
        return

    def _ord(c):
        with NoTracing():
            symbolic_bytes = isinstance(c, (SymbolicBytes, SymbolicByteArray))
            if not symbolic_bytes and isinstance(c, (bytes, bytearray, str)):
                return ord(c)           # plain value: the builtin (not patched while tracing is off)
            lazy_str = isinstance(c, LazyIntSymbolicStr)
        if symbolic_bytes:
            if len(c) != 1:
                raise TypeError('ord() expected a character, but string of length %d found' % len(c))
            return c[0]
        if lazy_str:
            return orig(c)
        r = realize(c)
        with NoTracing():
            return ord(r)
    _ord._c18_wrapped = True
    _PATCH_REGISTRATIONS[ord] = _ord


def install():
    _fix_empty_struct_format()
    _keep_ord_of_bytes_symbolic()
    import cflib.cpx as cpx
    import cflib.cpx.transports as tr
    import cflib.crtp.tcpdriver as tcp
    import cflib.crtp.serialdriver as ser
    cpx.queue = types.SimpleNamespace(Queue=SteppedQueue, Empty=_queue.Empty, Full=_queue.Full)
    tr.socket = SOCKET
    tr.serial = SERIAL
    tr.Lock = FakeLock
    ser.list_ports = FakeListPorts()
    for m in (cpx, tr, tcp, ser):
        m.print = _silent
    # CPXRouter.run and the receive threads do `import traceback` locally and format the exception they swallow; formatting a
    # traceback under the CrossHair tracer is slow and can recurse without end.  The text is only printed / passed to the
    # link error callback (whose invocation, not its text, is what the harnesses look at).
    import traceback
    traceback.format_exc = lambda *a, **k: '<traceback omitted>'
