"""Environment for C04 (parameter subsystem).  Everything here is stub/reference side (DESIGN §1.4/§1.5); the code under
test is the real cflib.crazyflie.param (+ the real _IncomingPacketHandler and Crazyflie.send_packet).

* FakeQueue / FakeLock / FakeEvent   stand-ins for queue.Queue, threading.Lock and threading.Event *in the namespace of
                                     cflib.crazyflie.param*.  Thread bodies (_ParamUpdater.run, _ExtendedTypeFetcher.run) are
                                     never started; `Env.step(thread)` runs the real run() until it would block:
                                     Queue.get on an empty queue and Lock.acquire on a held lock raise vf.explore.Yield.
                                     The get is transactional (DESIGN §1.4): run() dequeues a request and only then waits for
                                     the lock; when that acquire has to yield, the request is put back at the head of the
                                     queue, so the next step starts the iteration again from the top.
* ParamCF                            MiniCF (real Crazyflie.send_packet) + the real _IncomingPacketHandler as `incoming`
                                     (add/remove_port_callback go to it exactly as in Crazyflie), the Callers Param connects to.
                                     deliver(pk) = one iteration of the real dispatcher thread for that packet.
* text model                         Param._param_updated formats the decoded number with value.__str__().  Stock CrossHair
                                     renders a symbolic int digit by digit (forks on the number of digits, div/mod by powers of
                                     ten: measured path timeouts for 64-bit values) and realises floats.  Under symbolic
                                     execution int.__str__/float.__str__ of a *symbolic* number is therefore modelled as an
                                     injective function: the result is a NumText carrying the number; two NumTexts (or a NumText
                                     and a real str) are equal iff they denote the same number of the same kind (ints: equal;
                                     floats: same IEEE value including the sign of zero, all NaNs alike - exactly when CPython's
                                     repr strings coincide).  NumText is not a str, is unhashable and supports nothing else, so
                                     any other use fails loudly.  Concrete replay uses CPython's real strings.
"""
import queue as _queue
import struct

from vf.explore import Yield
from vf.env.base import MiniCF
from cflib.crtp.crtpstack import CRTPPacket
from cflib.utils.callbacks import Caller


class EnvFailure(AssertionError):
    """A violation observed by the environment itself."""


# ------------------------------------------------------------------------------------------------ text model
class NumText:
    __slots__ = ('kind', 'num')
    __hash__ = None

    def __init__(self, kind, num):
        self.kind = kind          # 'i' | 'f'
        self.num = num

    def _other(self, other):
        if isinstance(other, NumText):
            return other.kind, other.num
        if isinstance(other, str):
            # a real string: canonical decimal text of an int or repr of a float (CPython: round trip exact)
            try:
                return 'i', int(other)
            except ValueError:
                pass
            try:
                return 'f', float(other)
            except ValueError:
                return None, None
        return None, None

    def __eq__(self, other):
        k, n = self._other(other)
        if k is None or k != self.kind:
            return False
        if k == 'i':
            return self.num == n
        return same_float(self.num, n)

    def __ne__(self, other):
        return not self.__eq__(other)

    def __repr__(self):
        return '<text of a symbolic number>'


def same_float(a, b):
    """True iff repr(a) == repr(b) for two doubles: identical value incl. sign of zero, or both NaN."""
    if a != a:
        return bool(b != b)
    if b != b:
        return False
    return list(struct.pack('<d', a)) == list(struct.pack('<d', b))


def text(x):
    """What the code under test computes: value.__str__() (NumText for symbolic numbers, a real str otherwise)."""
    return x.__str__()


_text_patch_depth = [0]


def _install_text_model():
    from crosshair.libimpl.builtinslib import SymbolicInt, PreciseIeeeSymbolicFloat, RealBasedSymbolicFloat
    saved = []

    def mk(kind):
        def __str__(self):
            return NumText(kind, self)
        return __str__
    for cls, kind in ((SymbolicInt, 'i'), (PreciseIeeeSymbolicFloat, 'f'), (RealBasedSymbolicFloat, 'f')):
        saved.append((cls, cls.__dict__.get('__str__', None)))
        cls.__str__ = mk(kind)

    def undo():
        for cls, old in saved:
            if old is None:
                try:
                    del cls.__str__
                except AttributeError:
                    pass
            else:
                cls.__str__ = old
    return undo


# ------------------------------------------------------------------------------------------------ tasks, queue, lock
class FakeQueue:
    def __init__(self, env):
        self.env = env
        self.items = []
        self.puts = []            # every object ever put, in put order

    def put(self, item, block=True, timeout=None):
        self.items.append(item)
        self.puts.append(item)

    def get(self, block=True, timeout=None):
        if not self.items:
            if not block:
                raise _queue.Empty
            raise Yield()
        item = self.items.pop(0)
        if block:
            self.env.pending_get = (self, item)
        return item

    def qsize(self):
        return len(self.items)

    def empty(self):
        return not self.items


class FakeLock:
    def __init__(self, env):
        self.env = env
        self.held = False
        self.acquisitions = 0
        self.bad_releases = 0

    def acquire(self, blocking=True, timeout=-1):
        if self.held:
            if not blocking:
                return False
            # the caller blocks: undo the dequeue of this iteration (transactional get) and leave the thread body
            if self.env.pending_get is not None:
                q, item = self.env.pending_get
                q.items.insert(0, item)
                self.env.pending_get = None
            raise Yield()
        self.held = True
        self.acquisitions += 1
        self.env.pending_get = None
        return True

    def release(self):
        if not self.held:
            self.bad_releases += 1
            raise RuntimeError('release unlocked lock')
        self.held = False

    def locked(self):
        return self.held

    def __enter__(self):
        self.acquire()
        return True

    def __exit__(self, *a):
        self.release()
        return False


class FakeEvent:
    """threading.Event whose wait() never blocks: it reports the flag (a real wait(60) on an unset flag would time out)."""
    def __init__(self):
        self.flag = False
        self.waits = 0

    def set(self):
        self.flag = True

    def clear(self):
        self.flag = False

    def is_set(self):
        return self.flag

    def wait(self, timeout=None):
        self.waits += 1
        return self.flag


class FakeTocFetcher:
    """Stand-in for TocFetcher in the namespace of cflib.crazyflie.param (the download itself is property C03): start() puts
    the elements the harness prepared - built by the REAL ParamTocElement constructor from TOC item bytes - into the toc
    holder and calls the finished callback, as the real fetcher does after the last item."""
    table = []        # [(ident, item bytes)] set by the harness before refresh_toc()

    def __init__(self, crazyflie, element_class, port, toc_holder, finished_callback, toc_cache):
        self.element_class = element_class
        self.toc = toc_holder
        self.finished_callback = finished_callback
        self.port = port

    def start(self):
        for ident, data in FakeTocFetcher.table:
            self.toc.add_element(self.element_class(ident, data))
        self.finished_callback()


class Env:
    """Installs the stubs for the duration of one harness execution (one path)."""
    def __init__(self, symbolic):
        self.symbolic = symbolic
        self.pending_get = None
        self.queues = []
        self.locks = []
        self._undo = []

    def __enter__(self):
        import cflib.crazyflie.param as pm
        saved = (pm.Queue, pm.Lock, pm.Event, pm.TocFetcher)

        def mkq(*a, **k):
            q = FakeQueue(self)
            self.queues.append(q)
            return q

        def mkl():
            lk = FakeLock(self)
            self.locks.append(lk)
            return lk
        pm.Queue, pm.Lock, pm.Event, pm.TocFetcher = mkq, mkl, FakeEvent, FakeTocFetcher

        def undo_ns():
            pm.Queue, pm.Lock, pm.Event, pm.TocFetcher = saved
        self._undo.append(undo_ns)
        if self.symbolic:
            self._undo.append(_install_text_model())
        return self

    def __exit__(self, *a):
        while self._undo:
            self._undo.pop()()
        return False

    def step(self, thread):
        """One scheduling quantum of a thread body: run() until it blocks. 'yield' | 'returned'."""
        self.pending_get = None
        try:
            thread.run()
        except Yield:
            return 'yield'
        return 'returned'


# ------------------------------------------------------------------------------------------------ Crazyflie stand-in
class ParamCF(MiniCF):
    def __init__(self, version):
        super().__init__(version=version, needs_resending=False)
        from cflib.crazyflie import _IncomingPacketHandler
        self.disconnected = Caller()
        self.connection_requested = Caller()
        self.packet_received = Caller()
        self.incoming = _IncomingPacketHandler(self)
        self.in_dispatch = False
        self.delivered = 0

    # exactly Crazyflie.add_port_callback / remove_port_callback
    def add_port_callback(self, port, cb):
        self.incoming.add_port_callback(port, cb)

    def remove_port_callback(self, port, cb):
        self.incoming.remove_port_callback(port, cb)

    def is_called_by_incoming_handler_thread(self):
        return self.in_dispatch

    def deliver(self, pk):
        """One iteration of the real dispatcher thread body on `pk`."""
        assert not self.link.rx
        self.link.rx.append(pk)
        self.in_dispatch = True
        try:
            try:
                self.incoming.run()
            except Yield:
                pass
            else:
                raise EnvFailure('dispatcher thread terminated')
        finally:
            self.in_dispatch = False
        self.delivered += 1


def packet(port, channel, data):
    pk = CRTPPacket()
    pk.set_header(port, channel)
    pk.data = data
    return pk


# ------------------------------------------------------------------------------------------------ reference encodings
# firmware parameter type codes (param.h: PARAM_1BYTE..8BYTES | PARAM_TYPE_INT/FLOAT | PARAM_SIGNED/UNSIGNED):
#   low 2 bits = log2(size), bit 2 = float, bit 3 = unsigned
INT_CODES = {0x08: (1, False), 0x09: (2, False), 0x0A: (4, False), 0x0B: (8, False),
             0x00: (1, True), 0x01: (2, True), 0x02: (4, True), 0x03: (8, True)}
FLOAT_CODES = {0x06: 4, 0x07: 8}
FP16_CODE = 0x05


def type_size(code):
    if code in INT_CODES:
        return INT_CODES[code][0]
    return FLOAT_CODES[code]


def int_range(code):
    size, signed = INT_CODES[code]
    if signed:
        return -(1 << (8 * size - 1)), (1 << (8 * size - 1)) - 1
    return 0, (1 << (8 * size)) - 1


def int_bytes(code, v):
    """Little-endian two's complement bytes of v in the firmware type (arithmetic, no struct)."""
    size, signed = INT_CODES[code]
    lo, hi = int_range(code)
    assert lo <= v <= hi
    u = v + (1 << (8 * size)) if (signed and v < 0) else v        # two's complement
    return [(u // (1 << (8 * k))) % 256 for k in range(size)]


def int_from_bytes(code, bs):
    size, signed = INT_CODES[code]
    u = 0
    for k in range(size):
        u = u + bs[k] * (1 << (8 * k))
    if signed:
        return u - (1 << (8 * size)) if bs[size - 1] >= 128 else u
    return u


def float_bytes(code, v):
    return list(struct.pack('<f' if code == 0x06 else '<d', v))


def float_from_bytes(code, bs):
    return struct.unpack('<f' if code == 0x06 else '<d', bytes(bs))[0]


def ident_bytes(ident, v2):
    return [ident % 256, ident // 256] if v2 else [ident]


def toc_item(code, ro, ext, group, name, extra_bits=0):
    """TOC item payload as the firmware sends it: metadata byte, group\\0name\\0."""
    meta = code + (0x40 if ro else 0) + (0x10 if ext else 0) + extra_bits
    return meta, (group + '\0' + name + '\0').encode('ISO-8859-1')
