"""Environment for C02 (connection lifecycle): a real Crazyflie with every thread body stepped as a task by one
deterministic scheduler, locks with holders, a fake link driver selected through the real cflib.crtp.get_link_driver, and
the device side of the whole connection sequence.

Threads are never started.  A task takes a *step* by calling the real thread body from its top and leaving it through
Yield at the next blocking call (receive_packet, Queue.get, Lock.acquire on a held lock, time.sleep).  That is faithful
for bodies that keep no local state across a blocking call; _ParamUpdater/_ExtendedTypeFetcher hold a dequeued packet across
wait_lock.acquire(), which the transactional queue of c03_env restores."""
import struct
import threading

from vf.explore import Yield
from vf.env import c03_env
from vf.env.c03_env import TocDevice, Entry, packet, FakeQueue
from cflib.crtp.crtpdriver import CRTPDriver
from cflib.crtp.exceptions import WrongUriType


class Hang(AssertionError):
    """A blocking call of the application can never return."""


class Deadlock(AssertionError):
    pass


class TaskDied(AssertionError):
    pass


class S:
    """Scheduler state (one history at a time)."""
    stack = ['user']
    started = []          # Thread objects whose start() was called, in order
    locks = []
    log = []


def reset():
    S.stack = ['user']
    S.started = []
    S.locks = []
    S.log = []
    c03_env.reset()


def cur():
    return S.stack[-1]


class OwnedLock(c03_env.FakeLock):
    """threading.Lock stand-in that remembers which task acquired it (for diagnosing join cycles and leaks)."""
    def __init__(self):
        c03_env.FakeLock.__init__(self)
        self.holder = None
        self.name = '?'
        S.locks.append(self)

    def acquire(self, blocking=True, timeout=-1):
        r = c03_env.FakeLock.acquire(self, blocking, timeout)      # raises Yield when held
        if r:
            self.holder = cur()
        return r

    def release(self):
        c03_env.FakeLock.release(self)
        self.holder = None


class FakeEvent:
    """threading.Event whose wait() lets the other tasks run (callback given by the harness) and reports a hang when the
    event can never be set."""
    runner = None          # set by the harness: callable(event) -> runs tasks until event set or nothing runnable

    def __init__(self):
        self._set = False

    def set(self):
        self._set = True

    def clear(self):
        self._set = False

    def is_set(self):
        return self._set

    def wait(self, timeout=None):
        if not self._set and FakeEvent.runner is not None:
            FakeEvent.runner(self)
        if not self._set:
            if timeout is not None:
                return False
            raise Hang('Event.wait() can never return: no task is able to set the event')
        return True


def thread_start(self):
    self._vf_started = True
    # Thread.run() deletes _target when it is left (also through Yield): keep the body to step it again
    self._vf_target = (getattr(self, '_target', None), getattr(self, '_args', ()), getattr(self, '_kwargs', {}))
    S.started.append(self)


def run_body(t):
    tgt = getattr(t, '_vf_target', (None,))[0]
    if tgt is not None:
        return tgt(*t._vf_target[1], **t._vf_target[2])
    return t.run()


def thread_is_alive(self):
    return getattr(self, '_vf_started', False) and not getattr(self, '_vf_dead', False)


def thread_join(self, timeout=None):
    """join(): the joined thread must be able to run to its end.  Joining oneself raises as CPython does; a joined
    thread that blocks on a lock held by a task waiting in this join is a deadlock."""
    if not getattr(self, '_vf_started', False) or getattr(self, '_vf_dead', False):
        return
    name = task_name(self)
    if name in S.stack:
        raise RuntimeError('cannot join current thread')
    for _ in range(4):
        S.stack.append(name)
        try:
            run_body(self)
            self._vf_dead = True
            return
        except Yield:
            held = [l for l in S.locks if l.held and l.holder in S.stack[:-1]]
            blocked_on = getattr(self, '_vf_blocked_on', None)
            if held and S.log and S.log[-1][0] == 'blocked' and S.log[-1][2] in held:
                raise Deadlock(f'join({name}) from {S.stack[-2]}: {name} waits for lock {S.log[-1][2].name!r} held by the joining task')
        finally:
            S.stack.pop()
    if timeout is None:
        raise Hang(f'join({name}) never returns: the thread keeps running')


class _MainThread:
    name = 'user'


_MAIN = _MainThread()


def fake_current_thread():
    """threading.current_thread() for stepped tasks: the Thread object whose body is being stepped."""
    name = cur()
    for t in reversed(S.started):
        if task_name(t) == name:
            return t
    return _MAIN


def task_name(t):
    tgt = getattr(t, '_vf_target', (None,))[0] or getattr(t, '_target', None)
    if tgt is not None and getattr(tgt, '__name__', '') == '_ping_thread':
        return 'ping'
    return type(t).__name__


def install():
    """Patch the names inside the cflib modules (harness side; /repo untouched)."""
    import cflib.crazyflie as C
    import cflib.crazyflie.mem as M
    import cflib.crazyflie.param as P
    import cflib.crazyflie.link_statistics as LS
    import cflib.crazyflie.syncCrazyflie as SC
    C.Lock = OwnedLock
    M.Lock = OwnedLock
    P.Lock = OwnedLock
    P.Queue = FakeQueue
    SC.Event = FakeEvent
    threading.Thread.start = thread_start
    threading.Thread.is_alive = thread_is_alive
    threading.Thread.join = thread_join

    class _Time:
        now = 100.0

        @staticmethod
        def time():
            return _Time.now

        @staticmethod
        def sleep(d):
            raise Yield()
    C.time = _Time
    LS.time = _Time
    C.current_thread = fake_current_thread
    LS.current_thread = fake_current_thread


# wrap FakeLock.acquire so that a block is logged with the lock (for join diagnosis)
_orig_acquire = c03_env.FakeLock.acquire


def _logged_acquire(self, blocking=True, timeout=-1):
    if self.held and blocking:
        S.log.append(('blocked', cur(), self))
    return _orig_acquire(self, blocking, timeout)


c03_env.FakeLock.acquire = _logged_acquire


# ------------------------------------------------------------------------------------------------ device + driver
class Device:
    """Firmware side of the connection sequence, written from the CRTP protocol: link-service source echo, platform
    protocol version, log reset + TOC, memory count (0), param TOC + extended type, param read, ping echo."""
    def __init__(self, version=10, log=None, params=None, values=None, ow_mem=False):
        self.version = version
        self.ow = _ow_image() if ow_mem else None
        self.log = TocDevice(5, log if log is not None else [Entry(7, b'g', b'x')], crc=0x11112222)
        self.par = TocDevice(2, params if params is not None else [Entry(0x08, b'p', b'a')], crc=0x33334444)
        self.values = values or {}
        self.requests = 0

    def rx(self, pk):
        """-> list of reply packets for one uplink packet"""
        self.requests += 1
        port, ch, d = pk.port, pk.channel, list(pk.data)
        if port == 15 and ch == 1:
            return [packet(15, 1, list(b'Bitcraze Crazyflie'))]
        if port == 15 and ch == 0:
            return [packet(15, 0, d)]                      # echo (latency ping)
        if port == 13 and ch == 1 and d[:1] == [0]:
            return [packet(13, 1, [0, self.version])]
        if port == 5:
            return [self.log.answer(pk)]
        if port == 4 and ch == 0 and d[:1] == [1]:
            return [packet(4, 0, [1, 1 if self.ow else 0])]     # number of memories
        if port == 4 and ch == 0 and d[:1] == [2] and self.ow:   # details of memory d[1]: id, type 1-wire, size, address
            return [packet(4, 0, [2, d[1], 1] + list(struct.pack('<I', 112)) + [0x0D, 0, 0, 0, 0, 0, 0, 0x42])]
        if port == 4 and ch == 1 and self.ow:                    # read: id, addr, len -> id, addr, status, data
            a, n = struct.unpack('<I', bytes(d[1:5]))[0], d[5]
            return [packet(4, 1, d[:5] + [0] + self.ow[a:a + n])]
        if port == 2 and ch in (0, 3):
            return [self.par.answer(pk)]
        if port == 2 and ch == 1:                          # read
            if self.version >= 4:
                i = d[0] + 256 * d[1]
                return [packet(2, 1, [d[0], d[1], 0, self.values.get(i, 7 + i)])]
            return [packet(2, 1, [d[0], self.values.get(d[0], 7 + d[0])])]
        if port == 3 or port == 7:                         # setpoints (close_link sends one): no reply
            return []
        return []


def _ow_image():
    """A valid 1-wire deck memory: header 0xEB pins vid pid crc, then version, length, {id, len, bytes}*, crc."""
    import zlib
    hdr = list(struct.pack('<BIBB', 0xEB, 0x0000000C, 0xBC, 0x01))
    hdr.append(zlib.crc32(bytes(hdr)) & 0xFF)
    body = [1, 6] + list(b'bcDeck') + [2, 1] + list(b'A')
    el = [0, len(body)] + body
    el.append(zlib.crc32(bytes(el)) & 0xFF)
    return hdr + el + [0xFF] * (112 - len(hdr) - len(el))


class FakeDriver(CRTPDriver):
    """Link driver chosen by the real get_link_driver for fake:// URIs.  `plan` (class attribute, set per history)
    carries the device and the fault plan."""
    plan = None

    def __init__(self):
        CRTPDriver.__init__(self)
        self.needs_resending = False
        self.rxq = []
        self.closed = False
        self.dead = False
        self.budget = 0

    def connect(self, uri, radio_link_statistics_callback, link_error_callback):
        if not uri.startswith('fake://'):
            raise WrongUriType()
        p = FakeDriver.plan
        if p.connect_raises:
            raise Exception('driver cannot open the device')
        self.err = link_error_callback
        p.drivers.append(self)
        self.session = len(p.drivers)
        if p.error_in_connect:
            # the driver's own thread reports a link error while connect() has not returned yet; that driver is dead afterwards
            p.error_in_connect = False
            self.dead = True
            S.stack.append('driver')
            try:
                link_error_callback('link error from the driver thread during connect()')
            finally:
                S.stack.pop()

    def send_packet(self, pk):
        p = FakeDriver.plan
        p.sends += 1
        if self.closed:
            p.violations.append('send on a closed driver')
            return
        if self.dead:
            return                      # nothing is delivered and nothing comes back
        if p.fault_in_send is not None and p.sends == p.fault_in_send:
            p.fault_in_send = None
            p.fault_task = cur()
            self.err('link error reported from inside send_packet')
            return
        for r in p.device.rx(pk):
            if p.dup_next:
                p.dup_next = False
                self.rxq.append(c03_env.clone(r))
            if p.hold_next:
                p.hold_next = False
                p.held.append(r)
                continue
            self.rxq.append(r)
            if p.held:
                self.rxq.extend(p.held)
                del p.held[:]

    def receive_packet(self, wait=0):
        if self.budget <= 0 or not self.rxq:
            raise Yield()
        self.budget -= 1
        return self.rxq.pop(0)

    def close(self):
        self.closed = True

    def get_name(self):
        return 'fake'


class Plan:
    def __init__(self, device):
        self.device = device
        self.drivers = []
        self.sends = 0
        self.fault_in_send = None
        self.fault_task = None
        self.dup_next = False
        self.hold_next = False
        self.held = []
        self.connect_raises = False
        self.error_in_connect = False
        self.violations = []
