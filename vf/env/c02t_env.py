"""Second environment for C02: every cflib thread is a REAL OS thread, but only the holder of a baton runs.

Restart stepping (c02_env) re-enters a thread body from its top after every blocking call, which forgets the body's locals and
re-executes the code between a dequeue and the blocking call that follows it.  Here a task keeps its Python stack: a blocking
primitive (Lock.acquire on a held lock, Queue.get on an empty queue, receive_packet, time.sleep, Thread.join, Event.wait) hands
the baton back to the scheduler - which is the application thread, i.e. the harness - and the task continues from exactly
that point when it is resumed.  Which task runs next is decided by the harness (deviation kinds/positions are solver-chosen),
so a history is deterministic and replayable.  Threads are created with _thread.start_new_thread; nothing runs concurrently.

Preemption happens only at those blocking primitives (not between two arbitrary bytecodes): stated in DESIGN."""
import _thread
import threading

from crosshair.statespace import _THREAD_LOCALS as _CH_LOCALS

from vf.env import c02_env as E
from vf.env import c03_env
from vf.env.c02_env import S, Hang, Deadlock, FakeDriver, task_name


class TaskAbort(BaseException):
    """Unwinds a parked task when the history is over."""


class T:
    tasks = []
    by_ident = {}
    back = None          # released by a task when it hands the baton back
    aborting = False
    world = None
    space = None
    leaked = 0


class Task:
    def __init__(self, thread):
        self.thread = thread
        self.name = task_name(thread)
        self.go = _thread.allocate_lock()
        self.go.acquire()
        self.state = 'new'           # new | waiting | running | done
        self.cond = None
        self.what = ''
        self.timed = False
        self.error = None

    def runnable(self):
        return self.state == 'new' or (self.state == 'waiting' and (self.timed or self.cond()))


def reset(world):
    shutdown()
    E.reset()
    T.tasks = []
    T.by_ident = {}
    T.back = _thread.allocate_lock()
    T.back.acquire()
    T.aborting = False
    T.world = world
    T.space = getattr(_CH_LOCALS, 'space', None)


def me():
    return T.by_ident.get(_thread.get_ident())


def cur_name():
    t = me()
    return t.name if t is not None else S.stack[-1]


def resume(task):
    """Scheduler side: let `task` run until it blocks again or ends."""
    assert me() is None, 'only the application thread schedules'
    task.go.release()
    if not T.back.acquire(True, 60):
        T.leaked += 1
        raise AssertionError(f'task {task.name} did not hand the baton back within 60 s (busy loop without a blocking call)')


def _bootstrap(task):
    task.go.acquire()
    # CrossHair's instruction tracer and patches are interpreter-wide on 3.12 (sys.monitoring) while its state space is a
    # thread-local: tasks share the application thread's space (only the baton holder runs, so it is used serially)
    _CH_LOCALS.space = T.space
    try:
        if not T.aborting:
            task.state = 'running'
            task.thread.run()
    except TaskAbort:
        pass
    except Exception as e:          # an exception escaping a thread body kills the thread
        task.error = e
    finally:
        task.state = 'done'
        T.back.release()


def wait_until(cond, what, timed=False, always_yield=False):
    """Blocking primitive.  In a task: park until resumed with cond() true (timed: a resume with cond() false is the timeout).
    In the application thread: run the other tasks until cond() holds; nothing runnable means the call never returns."""
    t = me()
    if t is None:
        n = 0
        while not cond():
            r = T.world.runnable()
            if not r:
                if timed:
                    return False
                waiting = [(x.name, x.what) for x in T.tasks if x.state == 'waiting']
                raise Hang(f'{what} in the application thread can never return; tasks wait for {waiting}')
            n += 1
            assert n < 400, 'no quiescence within the step bound (livelock)'
            T.world.step(r[0])
        return True
    if T.aborting:
        raise TaskAbort()
    if not always_yield and cond():
        return True
    t.cond, t.what, t.timed = cond, what, timed
    while True:
        t.state = 'waiting'
        T.back.release()
        t.go.acquire()
        t.state = 'running'
        if T.aborting:
            raise TaskAbort()
        if cond():
            return True
        if timed:
            return False


def shutdown():
    """End of a history: unwind every parked task."""
    if T.back is None:
        return
    T.aborting = True
    for t in T.tasks:
        for _ in range(20):
            if t.state == 'done':
                break
            t.go.release()
            if not T.back.acquire(True, 20):
                T.leaked += 1
                break
    T.tasks = []
    T.by_ident = {}


# ------------------------------------------------------------------------------------------------ primitives
class TLock:
    def __init__(self):
        self.held = False
        self.holder = None
        self.name = '?'
        S.locks.append(self)

    def acquire(self, blocking=True, timeout=-1):
        if self.held and not blocking:
            return False
        if self.held:
            S.log.append(('blocked', cur_name(), self))
        ok = wait_until(lambda: not self.held, f'acquire({self.name}) held by {self.holder}',
                        timed=(timeout is not None and timeout >= 0))
        if not ok:
            return False
        self.held = True
        self.holder = cur_name()
        return True

    def release(self):
        if not self.held:
            raise RuntimeError('release unlocked lock')
        self.held = False
        self.holder = None

    def locked(self):
        return self.held

    def __enter__(self):
        self.acquire()

    def __exit__(self, *a):
        self.release()


class TQueue:
    def __init__(self, maxsize=0):
        self.items = []

    def put(self, item, block=True, timeout=None):
        self.items.append(item)

    def pending(self):
        return bool(self.items)

    def get(self, block=True, timeout=None):
        if not self.items:
            if not block:
                raise c03_env._queue.Empty()
            if not wait_until(lambda: bool(self.items), 'Queue.get', timed=timeout is not None):
                raise c03_env._queue.Empty()
        return self.items.pop(0)

    def empty(self):
        return not self.items

    def qsize(self):
        return len(self.items)


class TEvent:
    def __init__(self):
        self._set = False

    def set(self):
        self._set = True

    def clear(self):
        self._set = False

    def is_set(self):
        return self._set

    def wait(self, timeout=None):
        return wait_until(lambda: self._set, 'Event.wait', timed=timeout is not None)


def thread_start(self):
    if isinstance(self, threading.Timer):
        self._vf_started = True        # retry timers never fire here (the fake link does not need resending)
        S.started.append(self)
        return
    task = Task(self)
    self._vf_task = task
    self._vf_started = True
    S.started.append(self)
    T.tasks.append(task)
    ident = _thread.start_new_thread(_bootstrap, (task,))
    T.by_ident[ident] = task


def thread_is_alive(self):
    task = getattr(self, '_vf_task', None)
    return task is not None and task.state != 'done'


def thread_join(self, timeout=None):
    task = getattr(self, '_vf_task', None)
    if task is None or task.state == 'done':
        return
    if task is me():
        raise RuntimeError('cannot join current thread')
    wait_until(lambda: task.state == 'done', f'join({task.name})', timed=timeout is not None)


class _MainThread:
    name = 'user'


_MAIN = _MainThread()


def current_thread():
    t = me()
    return t.thread if t is not None else _MAIN


class _Time:
    now = 100.0

    @staticmethod
    def time():
        return _Time.now

    @staticmethod
    def sleep(d):
        if me() is not None:
            wait_until(lambda: True, 'sleep', timed=True, always_yield=True)


def install():
    import cflib.crazyflie as C
    import cflib.crazyflie.mem as M
    import cflib.crazyflie.param as P
    import cflib.crazyflie.link_statistics as LS
    import cflib.crazyflie.syncCrazyflie as SC
    C.Lock = TLock
    M.Lock = TLock
    P.Lock = TLock
    P.Queue = TQueue
    SC.Event = TEvent
    threading.Thread.start = thread_start
    threading.Thread.is_alive = thread_is_alive
    threading.Thread.join = thread_join
    C.time = _Time
    LS.time = _Time
    C.current_thread = current_thread
    LS.current_thread = current_thread
    E.cur = cur_name               # FakeDriver records the faulting task through c02_env.cur()


class DriverT(FakeDriver):
    """FakeDriver whose receive_packet parks the calling task (a timed wait: resumed without a packet it returns None, as a
    real driver does after its timeout, e.g. on a closed link)."""
    def receive_packet(self, wait=0):
        if me() is None:
            return self.rxq.pop(0) if self.rxq else None
        ok = wait_until(lambda: self.budget > 0 and bool(self.rxq), 'receive_packet', timed=True, always_yield=self.budget <= 0)
        if not ok:
            return None
        self.budget -= 1
        return self.rxq.pop(0)
