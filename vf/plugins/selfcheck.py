"""Differential validation of the plugins against CPython on fixed concrete vectors (DESIGN §2.6).
Inputs are symbolic proxies over constant terms, so the plugin's *symbolic* encoding is exercised;
the result term is compared with CPython's answer by the solver."""
import binascii
import math
import operator as ops
import random
import struct

import z3
from crosshair.tracers import NoTracing
from crosshair.libimpl.builtinslib import SymbolicInt, PreciseIeeeSymbolicFloat, SymbolicBytes

from vf.plugins import bits


def _pin_int(sym, name, value):
    """A symbolic proxy whose term is the constant `value` (exercises the symbolic code path of the plugin)."""
    with NoTracing():
        return SymbolicInt(z3.IntVal(value))


def _pin_f64(sym, name, value):
    with NoTracing():
        bits_ = struct.unpack('<Q', struct.pack('<d', value))[0]
        return PreciseIeeeSymbolicFloat(z3.fpBVToFP(z3.BitVecVal(bits_, 64), z3.Float64()))


def _same_float(a, b):
    return (a != a and b != b) or (a == b and math.copysign(1, a) == math.copysign(1, b))


def h_bits(sym):
    n = 0
    for i, (a, c) in enumerate(bits.vectors()):
        sa = _pin_int(sym, f'a{i}', a)
        for op in (ops.and_, ops.or_, ops.xor):
            assert op(sa, c) == op(a, c), (a, c, op.__name__)
            assert op(c, sa) == op(c, a), (a, c, op.__name__)
            n += 2
    rnd = random.Random(2)
    for i in range(60):
        a, b = rnd.randrange(0, 2 ** 33), rnd.randrange(0, 2 ** 33)
        sa, sb = _pin_int(sym, f'x{i}', a), _pin_int(sym, f'y{i}', b)
        for op in (ops.and_, ops.or_, ops.xor):
            assert op(sa, sb) == op(a, b)
            n += 1
    sym.note('vectors', n)


FLOATS = [0.0, -0.0, 1.0, -1.0, 0.1, -0.3, 1e-45, 1.4e-45, 1e-40, 3.4028234663852886e+38, 3.4028235677973366e+38,
          3.5e38, -3.5e38, 1e308, float('inf'), float('-inf'), float('nan'), 65504.0, 65520.0, 65519.9, 1e-8, 6e-8,
          5.960464477539063e-08, 2.98e-8, 123.456, -32768.5, 1 / 3, 16777217.0, 1e10]


def h_struct(sym):
    n = 0
    for i, x in enumerate(FLOATS):
        for fc in 'fde':
            sx = _pin_f64(sym, f'f{fc}{i}', x)
            with NoTracing():
                try:
                    exp = struct.pack('<' + fc, x)
                except OverflowError:
                    exp = None
            try:
                got = struct.pack('<' + fc, sx)
            except OverflowError:
                got = None
            if exp is None or got is None:
                assert exp is None and got is None, (x, fc)
            elif x == x:
                assert list(got) == list(exp), (x, fc)
            if exp is not None and got is not None:
                back = struct.unpack('<' + fc, got)[0]
                ref = struct.unpack('<' + fc, exp)[0]
                if ref != ref:
                    assert back != back
                else:
                    assert back == ref and (ref != 0 or math.copysign(1.0, back) == math.copysign(1.0, ref)), (x, fc)
            n += 1
    rnd = random.Random(3)
    for i in range(40):
        raw = bytes(rnd.randrange(256) for _ in range(4))
        bs = [_pin_int(sym, f'b{i}_{j}', raw[j]) for j in range(4)]
        with NoTracing():
            sb = SymbolicBytes(bs)
        got = struct.unpack('<f', sb)[0]
        ref = struct.unpack('<f', raw)[0]
        assert (got != got) if ref != ref else (got == ref), raw
        got = struct.unpack('<e', sb[:2])[0]
        ref = struct.unpack('<e', raw[:2])[0]
        assert (got != got) if ref != ref else (got == ref), raw
        # ints / mixed layouts keep CrossHair's model
        assert struct.unpack('<HBb', sb) == struct.unpack('<HBb', raw)
        assert struct.unpack('<I', sb) == struct.unpack('<I', raw)
        assert struct.unpack('>H2s', sb)[0] == struct.unpack('>H2s', raw)[0]
        assert list(struct.unpack('<B3s', sb)[1]) == list(raw[1:])
        assert struct.unpack('<?3x', sb)[0] == (raw[0] != 0)
        n += 7
    for i in range(20):
        v = rnd.randrange(-2 ** 15, 2 ** 16)
        sv = _pin_int(sym, f'h{i}', v)
        for fc in 'hHBbiI':
            try:
                exp = struct.pack('<B' + fc, 7, v)
            except struct.error:
                exp = None
            try:
                got = struct.pack('<B' + fc, 7, sv)
            except struct.error:
                got = None
            assert (exp is None) == (got is None), (v, fc)
            if exp is not None:
                assert list(got) == list(exp)
            n += 1
    sym.note('vectors', n)


def h_crc(sym):
    rnd = random.Random(4)
    n = 0
    for i in range(25):
        ln = rnd.randrange(0, 12)
        raw = bytes(rnd.randrange(256) for _ in range(ln))
        bs = [_pin_int(sym, f'c{i}_{j}', raw[j]) for j in range(ln)]
        with NoTracing():
            sb = SymbolicBytes(bs)
        assert binascii.crc32(sb) == binascii.crc32(raw), raw
        n += 1
    sym.note('vectors', n)


def h_math(sym):
    n = 0
    for i, x in enumerate([0.0, 1.0, 2.0, 0.25, 1e-300, 123.456, 1e300, 3.0, 0.1]):
        sx = _pin_f64(sym, f'm{i}', x)
        assert math.sqrt(sx) == math.sqrt(x)
        for y in (x, -x):
            sy = _pin_f64(sym, f'n{i}{y < 0 or math.copysign(1, y) < 0}', y)
            assert math.degrees(sy) == math.degrees(y)
            assert math.radians(sy) == math.radians(y)
        n += 5
    sym.note('vectors', n)


def run():
    from vf.explore import explore
    out = {}
    ok = True
    for h in (h_bits, h_struct, h_crc, h_math):
        r = explore(h, timeout=300, per_path=300)
        out[h.__name__] = {'verdict': r['verdict'], 'cpu_s': r['cpu_s'],
                           'failure': r['failures'][:1] or r['nonrepro'][:1] or r['inconclusive'][:1]}
        if r['verdict'] != 'HOLDS':
            ok = False
    return ok, out


if __name__ == '__main__':
    import json
    ok, out = run()
    print(json.dumps(out, indent=1))
    raise SystemExit(0 if ok else 3)
