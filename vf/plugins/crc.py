"""binascii.crc32 / zlib.crc32 on symbolic byte buffers: bitwise reflected CRC-32 over a 32-bit BV."""
import binascii
import zlib

import z3
from crosshair.core import _PATCH_REGISTRATIONS
from crosshair.libimpl.builtinslib import SymbolicInt, SymbolicBytes, SymbolicByteArray
from crosshair.tracers import NoTracing, ResumedTracing

POLY = z3.BitVecVal(0xEDB88320, 32)


def _bv8(b):
    if isinstance(b, SymbolicInt):
        v = b.var
        if z3.is_app(v) and v.decl().kind() == z3.Z3_OP_BV2INT and v.arg(0).size() == 8:
            return v.arg(0)
        return z3.Int2BV(v, 8)
    return z3.BitVecVal(int(b), 8)


def crc32_terms(byte_terms, init=0):
    crc = z3.BitVecVal(init ^ 0xFFFFFFFF, 32) if isinstance(init, int) else (init ^ z3.BitVecVal(0xFFFFFFFF, 32))
    for b in byte_terms:
        crc = crc ^ z3.ZeroExt(24, b)
        for _ in range(8):
            crc = z3.If(z3.Extract(0, 0, crc) == 1, z3.LShR(crc, 1) ^ POLY, z3.LShR(crc, 1))
        crc = z3.simplify(crc)
    return crc ^ z3.BitVecVal(0xFFFFFFFF, 32)


def _mk(orig):
    def crc32(data, value=0, /):
        with NoTracing():
            if not isinstance(data, (SymbolicBytes, SymbolicByteArray)) and not isinstance(value, SymbolicInt):
                return orig(data, value)
            with ResumedTracing():
                items = list(data)
            if not any(isinstance(b, SymbolicInt) for b in items) and not isinstance(value, SymbolicInt):
                return orig(bytes(items), value)
            init = z3.Int2BV(value.var, 32) if isinstance(value, SymbolicInt) else int(value)
            r = crc32_terms([_bv8(b) for b in items], init)
            return SymbolicInt(z3.BV2Int(r, is_signed=False))
    return crc32


def install():
    _PATCH_REGISTRATIONS[binascii.crc32] = _mk(binascii.crc32)
    if zlib.crc32 is not binascii.crc32:
        _PATCH_REGISTRATIONS[zlib.crc32] = _mk(zlib.crc32)
