"""Abstract trigonometry for the real-number float model.

math.tan / atan / atan2 / asin / sin / cos applied to a real-model symbolic number return an application of an
UNINTERPRETED function (TAN, ATAN, SIN, COS, ASIN over the reals), and the call adds *ground instances* of standard
identities about exactly the terms it creates (the documented contract of the function, instantiated by hand instead of by
quantifier instantiation):

  tan(x)   : COS(x)*TAN(x) = SIN(x), SIN(x)^2 + COS(x)^2 = 1, |x| < pi/2 => COS(x) > 0 and ATAN(TAN(x)) = x,
             |x| <= 0.98 => |TAN(x)| <= 1.5 (numeric anchor: tan(0.98) = 1.4910), TAN(x) has the sign of x for |x| < pi/2
  atan(y)  : |ATAN(y)| < pi/2, TAN(ATAN(y)) = y, and the tan(x) facts for x = ATAN(y)
  atan2(y, x): for x > 0 it is atan(y / x) (fork on x > 0; otherwise an unconstrained value in [-pi, pi])
  asin(u)  : domain fork (ValueError outside [-1, 1]); |ASIN(u)| <= pi/2, SIN(ASIN(u)) = u, COS(ASIN(u)) >= 0,
             ASIN(-u) = -ASIN(u), ASIN(u) has the sign of u
  sin(x)   : Pythagoras for x and x/2, SIN(x) = 2 SIN(x/2) COS(x/2), COS(x) = COS(x/2)^2 - SIN(x/2)^2,
             |x| <= pi/2 => ASIN(SIN(x)) = x (same for x/2)
  cos(x)   : Pythagoras, and for every earlier cos(y) on this path COS(y) + COS(x) = 2 COS((x+y)/2) COS((x-y)/2)

pi/2 is a real constant HPI with 1.5707963 < HPI < 1.5707964.  Every fact is a true statement about the real functions, so a
solver verdict `unsat` carries over to real trigonometry; a model (`sat`) may interpret the functions in a non-standard way and
is therefore only reported after it reproduces on the real code with CPython's libm (explore.py replay).  Concrete arguments go
to the real libm functions.  Float rounding is outside (real model)."""
import math

import z3
from crosshair.core import _PATCH_REGISTRATIONS
from crosshair.libimpl.builtinslib import RealBasedSymbolicFloat, SymbolicInt
from crosshair.statespace import context_statespace
from crosshair.tracers import NoTracing

R = z3.RealSort()
TAN, ATAN, SIN, COS, ASIN = (z3.Function(n, R, R) for n in ('TAN', 'ATAN', 'SIN', 'COS', 'ASIN'))
ATAN2 = z3.Function('ATAN2', R, R, R)
HPI = z3.Real('HPI')
_tan, _atan, _atan2, _asin, _sin, _cos = math.tan, math.atan, math.atan2, math.asin, math.sin, math.cos
FOV = z3.RealVal('0.98')
TFOV = z3.RealVal('1.5')


ENABLED = False      # switched on by the harnesses that want the abstraction (one harness per worker process)


def _real(x):
    """z3 real term of an argument, or None when it is concrete (or the abstraction is off)."""
    if not ENABLED:
        return None
    if isinstance(x, RealBasedSymbolicFloat):
        return x.var
    if isinstance(x, SymbolicInt):
        return z3.ToReal(x.var)
    return None


def _val(x):
    r = _real(x)
    return r if r is not None else z3.RealVal(repr(float(x)))


class _TrigState(dict):
    def __init__(self, *a):
        super().__init__(cos=[], seen=set(), keep=[], init=False)


def _state(sp):
    st = sp.extra(_TrigState)
    if not st['init']:
        st['init'] = True
        sp.add(z3.And(HPI > z3.RealVal('1.5707963'), HPI < z3.RealVal('1.5707964')))
    return st


def _once(sp, key, *terms):
    """True the first time `key` is seen on this path.  The terms are kept alive: z3 re-uses the ids of collected ASTs."""
    st = _state(sp)
    if key in st['seen']:
        return False
    st['seen'].add(key)
    st['keep'].extend(terms)
    return True


def _pyth(sp, x):
    if _once(sp, ('pyth', x.get_id()), x):
        sp.add(SIN(x) * SIN(x) + COS(x) * COS(x) == 1)
        sp.add(z3.Implies(z3.And(x > -HPI, x < HPI), COS(x) > 0))


def _tan_facts(sp, x):
    if _once(sp, ('tan', x.get_id()), x):
        _pyth(sp, x)
        t = TAN(x)
        sp.add(COS(x) * t == SIN(x))
        sp.add(z3.Implies(z3.And(x > -HPI, x < HPI), ATAN(t) == x))
        sp.add(z3.Implies(z3.And(x >= -FOV, x <= FOV), z3.And(t >= -TFOV, t <= TFOV)))
        sp.add(z3.Implies(z3.And(x > 0, x < HPI), t > 0))
        sp.add(z3.Implies(z3.And(x < 0, x > -HPI), t < 0))
        sp.add(z3.Implies(x == 0, t == 0))


def _atan_term(sp, y):
    a = ATAN(y)
    if _once(sp, ('atan', y.get_id()), y):
        sp.add(z3.And(a > -HPI, a < HPI, TAN(a) == y))
        _tan_facts(sp, a)
    return a


def _impossible(sp, cond, timeout_s=5):
    """True when `cond` is unsatisfiable on this path (decided quickly).  Lets a domain test that the harness has already
    proved away pass without a fork: a fork needs a model of the whole non-linear path condition for its other side."""
    from vf import portfolio
    r, _ = portfolio.check_unsat(list(sp.solver.assertions()), extra=[cond], timeout_s=timeout_s, use_cvc5=False)
    return r == 'unsat'


def tan(x):
    with NoTracing():
        v = _real(x)
        if v is None:
            return _tan(x)
        sp = context_statespace()
        v = z3.simplify(v)
        _tan_facts(sp, v)
        return RealBasedSymbolicFloat(TAN(v))


def atan(y):
    with NoTracing():
        v = _real(y)
        if v is None:
            return _atan(y)
        sp = context_statespace()
        return RealBasedSymbolicFloat(_atan_term(sp, z3.simplify(v)))


def atan2(y, x):
    with NoTracing():
        if _real(y) is None and _real(x) is None:
            return _atan2(y, x)
        sp = context_statespace()
        _state(sp)
        yv, xv = _val(y), _val(x)
        if _impossible(sp, xv <= 0) or sp.smt_fork(xv > 0, probability_true=0.9):
            return RealBasedSymbolicFloat(_atan_term(sp, z3.simplify(yv / xv)))
        r = ATAN2(yv, xv)
        sp.add(z3.And(r >= -2 * HPI, r <= 2 * HPI))
        return RealBasedSymbolicFloat(r)


def asin(u):
    with NoTracing():
        v = _real(u)
        if v is None:
            return _asin(u)
        sp = context_statespace()
        _state(sp)
        if not _impossible(sp, z3.Or(v < -1, v > 1)) and sp.smt_fork(z3.Or(v < -1, v > 1), probability_true=0.1):
            raise ValueError('math domain error')
        v = z3.simplify(v)
        s = ASIN(v)
        if _once(sp, ('asin', v.get_id()), v):
            sp.add(z3.And(s >= -HPI, s <= HPI, SIN(s) == v, COS(s) >= 0, SIN(s) * SIN(s) + COS(s) * COS(s) == 1))
            sp.add(ASIN(z3.simplify(-v)) == -s)
            sp.add(z3.And(z3.Implies(v > 0, s > 0), z3.Implies(v < 0, s < 0), z3.Implies(v == 0, s == 0)))
        return RealBasedSymbolicFloat(s)


def _sin_facts(sp, x):
    if _once(sp, ('sin', x.get_id()), x):
        _pyth(sp, x)
        sp.add(z3.Implies(z3.And(x >= -HPI, x <= HPI), ASIN(SIN(x)) == x))


def sin(x):
    with NoTracing():
        v = _real(x)
        if v is None:
            return _sin(x)
        sp = context_statespace()
        v = z3.simplify(v)
        h = z3.simplify(v / 2)
        _sin_facts(sp, v)
        _sin_facts(sp, h)
        if _once(sp, ('dbl', v.get_id()), v, h):
            sp.add(SIN(v) == 2 * SIN(h) * COS(h))
            sp.add(COS(v) == COS(h) * COS(h) - SIN(h) * SIN(h))
        return RealBasedSymbolicFloat(SIN(v))


def cos(x):
    with NoTracing():
        v = _real(x)
        if v is None:
            return _cos(x)
        sp = context_statespace()
        v = z3.simplify(v)
        _pyth(sp, v)
        st = _state(sp)
        for y in st['cos']:
            if y.get_id() == v.get_id():
                continue
            m, d = z3.simplify((y + v) / 2), z3.simplify((v - y) / 2)
            _pyth(sp, m)
            _pyth(sp, d)
            if _once(sp, ('s2p',) + tuple(sorted((y.get_id(), v.get_id()))), y, v, m, d):
                sp.add(COS(y) + COS(v) == 2 * COS(m) * COS(d))
        if all(y.get_id() != v.get_id() for y in st['cos']):
            st['cos'].append(v)
        return RealBasedSymbolicFloat(COS(v))


def _gated(model, fn):
    """Our model while the abstraction is on; otherwise what stock CrossHair does (realise the arguments, call libm)."""
    from crosshair.core import deep_realize

    def f(*a):
        if ENABLED:
            return model(*a)
        with NoTracing():
            return fn(*deep_realize(a))
    return f


def install():
    for fn, model in ((math.tan, tan), (math.atan, atan), (math.atan2, atan2), (math.asin, asin), (math.sin, sin), (math.cos, cos)):
        _PATCH_REGISTRATIONS[fn] = _gated(model, fn)
