"""Symbolic models for operations stock CrossHair realises (DESIGN §1.2). Each is validated
differentially against CPython by vf.plugins.selfcheck on every run."""
_installed = False


def install():
    global _installed
    if _installed:
        return
    _installed = True
    from vf.plugins import bits, structfp, crc, mathfn, trig  # noqa: F401
    bits.install()
    structfp.install()
    crc.install()
    mathfn.install()
    trig.install()
