"""`|`, `^`, `&` on SymbolicInt without realisation.

constant operand: exact linear div/mod decomposition per run of set bits;
symbolic op symbolic: BV2Int(Int2BV(a,64) op Int2BV(b,64)) under the forked assumption 0 <= a,b < 2^64.
"""
import operator as ops
from typing import Union

import z3
from crosshair.core import realize
from crosshair.libimpl.builtinslib import SymbolicInt, SymbolicBool, setup_binop, BinFn
from crosshair.statespace import context_statespace
from crosshair.tracers import NoTracing

W = 64


def _and_const(av, c):
    """av & c for av >= 0, constant c >= 0."""
    res = z3.IntVal(0)
    i = 0
    while (1 << i) <= c:
        if c >> i & 1:
            j = i
            while c >> j & 1:
                j += 1
            part = av if i == 0 else av / (1 << i)
            part = part % (1 << (j - i))
            res = res + (part if i == 0 else part * (1 << i))
            i = j
        else:
            i += 1
    return res


def _const_op(op, av, c):
    if op is ops.and_:
        return z3.simplify(_and_const(av, c))
    if op is ops.or_:
        return z3.simplify(av + (c - _and_const(av, c)))
    return z3.simplify(av + c - 2 * _and_const(av, c))


def _tz(t, depth=0):
    """Number of trailing zero bits every value of the Int term t is known to have (structural)."""
    if depth > 20:
        return 0
    if z3.is_int_value(t):
        v = t.as_long()
        return 64 if v == 0 else (v & -v).bit_length() - 1
    if z3.is_app(t):
        k = t.decl().kind()
        if k == z3.Z3_OP_MUL:
            return min(64, sum(_tz(c, depth + 1) for c in t.children()))
        if k in (z3.Z3_OP_ADD, z3.Z3_OP_SUB):
            return min(_tz(c, depth + 1) for c in t.children())
        if k == z3.Z3_OP_ITE:
            return min(_tz(t.arg(1), depth + 1), _tz(t.arg(2), depth + 1))
    return 0


def _bitop(op: BinFn, a: Union[SymbolicInt, int], b: Union[SymbolicInt, int]):
    with NoTracing():
        space = context_statespace()
        if isinstance(a, SymbolicBool) or isinstance(b, SymbolicBool):
            return NotImplemented
        if isinstance(a, SymbolicInt) and isinstance(b, SymbolicInt):
            # field packing: (x << k) | y with 0 <= y < 2^k is x + y (pure linear arithmetic, no bit-vectors)
            if op in (ops.or_, ops.xor):
                for x, y in ((a, b), (b, a)):
                    k = _tz(z3.simplify(x.var))
                    if 0 < k < 64:
                        if space.smt_fork(z3.And(x.var >= 0, y.var >= 0, y.var < 2 ** k), probability_true=0.99):
                            return SymbolicInt(x.var + y.var)
                        break
            # narrowest width first.  AND only depends on the low bits of the smaller operand; for widths <= 8
            # the result is a pure linear-integer term over the operands' bits (much cheaper than Int2BV).
            for w in (4, 8, 16, 32, W):
                if op is ops.and_:
                    guard = z3.And(a.var >= 0, b.var >= 0, z3.Or(a.var < 2 ** w, b.var < 2 ** w))
                else:
                    guard = z3.And(a.var >= 0, b.var >= 0, a.var < 2 ** w, b.var < 2 ** w)
                if space.smt_fork(guard, probability_true=0.99):
                    if w <= 8:
                        res = z3.IntVal(0)
                        for i in range(w):
                            ba = (a.var / (1 << i)) % 2
                            bb = (b.var / (1 << i)) % 2
                            if op is ops.and_:
                                bit = z3.If(z3.And(ba == 1, bb == 1), 1 << i, 0)
                            elif op is ops.or_:
                                bit = z3.If(z3.Or(ba == 1, bb == 1), 1 << i, 0)
                            else:
                                bit = z3.If(ba != bb, 1 << i, 0)
                            res = res + bit
                        return SymbolicInt(res)
                    x, y = z3.Int2BV(a.var, w), z3.Int2BV(b.var, w)
                    r = {ops.and_: x & y, ops.or_: x | y, ops.xor: x ^ y}[op]
                    return SymbolicInt(z3.BV2Int(r, is_signed=False))
            return op(realize(a), realize(b))
        if isinstance(b, SymbolicInt):
            a, b = b, a
        if not isinstance(a, SymbolicInt):
            return op(a, b)
        c = int(b)
        if c == 0:
            return 0 if op is ops.and_ else a
        if c > 0:
            if space.smt_fork(a.var >= 0, probability_true=0.9):
                return SymbolicInt(_const_op(op, a.var, c))
            # a < 0: ~a = -a-1 >= 0
            na = -a.var - 1
            if op is ops.and_:       # a & c = c - (~a & c)
                return SymbolicInt(c - _and_const(na, c))
            if op is ops.or_:        # a | c = ~(~a & ~c) = -( na - (na & c) ) - 1
                return SymbolicInt(-(na - _and_const(na, c)) - 1)
            # a ^ c = ~(~a ^ c)
            return SymbolicInt(-(_const_op(ops.xor, na, c)) - 1)
        # c < 0 ; nc = ~c >= 0
        nc = ~c
        if space.smt_fork(a.var >= 0, probability_true=0.9):
            if op is ops.and_:       # a & c = a - (a & ~c)
                return SymbolicInt(a.var - _and_const(a.var, nc))
            if op is ops.or_:        # a | c = ~(~a & ~c) ; with a>=0: = c + (a & ~c) ... a|c = c + (a & nc)
                return SymbolicInt(c + _and_const(a.var, nc))
            # a ^ c = ~(a ^ nc)
            return SymbolicInt(-(_const_op(ops.xor, a.var, nc)) - 1)
        return op(realize(a), c)


def install():
    setup_binop(_bitop, {ops.and_, ops.or_, ops.xor})


def vectors():
    import random
    rnd = random.Random(1)
    vs = []
    for _ in range(120):
        a = rnd.choice([rnd.randrange(0, 256), rnd.randrange(0, 2 ** 16), rnd.randrange(0, 2 ** 40), -rnd.randrange(1, 2 ** 20)])
        c = rnd.choice([0x0c, 0xf3, 0x04, 0x08, 0x30, 0xff, 0x1f, 0x80, 0x3ff, 0x200, 1 << 31, 0xf0, 0x60, -1, -16, ~0x0c, rnd.randrange(0, 2 ** 20)])
        vs.append((a, c))
    return vs
